package bufctl

// Replay / bounded contract run for the C11 obligations of package bufctl (reading an image file in any message
// encoding, the image filters, writing an image / FileDescriptorSet in the encoding of the output ref); injected with
// go test -overlay.
//
// Inputs: three small hand-made images (IMP: a module with a dependency file marked as import and nested paths; EXT: a
// file that extends google.protobuf.MessageOptions with a string option and a google.protobuf.Any option, a message that
// sets both, descriptor.proto / any.proto as imports; SRC: a file with source code info) x encodings {binpb, json,
// txtpb, yaml} x {plain file, .gz file, stdin / stdout with "-#format=..."} x options {none, exclude source info,
// exclude imports, as file descriptor set, --path / --exclude-path incl. the non-normalised "./a//b.proto", --type}.
//
// Oracle (from the contract comments and the flag documentation, never from controller.go): the input files are
// produced, and the written files are decoded, with INDEPENDENT codecs (proto.Marshal / protojson / prototext with a
// dynamicpb resolver built here from the descriptors, YAML <-> JSON through gopkg.in/yaml.v3); the expected image
// after the filters is computed here (imports dropped first, then the types, then the normalised paths plus the
// imports of the selected files as imports); an image that was read has no unknown bytes left (custom options are
// known extension fields); a text encoder prints Any values and extensions of the image by name.

import (
	"bytes"
	"compress/gzip"
	"context"
	"encoding/json"
	"fmt"
	"io"
	"log/slog"
	"os"
	"path"
	"path/filepath"
	"sort"
	"strings"
	"testing"

	"github.com/bufbuild/buf/private/buf/buffetch"
	"github.com/bufbuild/buf/private/bufpkg/bufimage"
	"github.com/bufbuild/buf/private/bufpkg/bufmodule"
	"github.com/bufbuild/buf/private/bufpkg/bufplugin"
	imagev1 "github.com/bufbuild/buf/private/gen/proto/go/buf/alpha/image/v1"
	"github.com/bufbuild/buf/private/pkg/app"
	"github.com/bufbuild/buf/private/pkg/git"
	"google.golang.org/protobuf/encoding/protojson"
	"google.golang.org/protobuf/encoding/prototext"
	"google.golang.org/protobuf/encoding/protowire"
	"google.golang.org/protobuf/proto"
	"google.golang.org/protobuf/reflect/protodesc"
	"google.golang.org/protobuf/reflect/protoreflect"
	"google.golang.org/protobuf/types/descriptorpb"
	"google.golang.org/protobuf/types/dynamicpb"
	"google.golang.org/protobuf/types/known/anypb"
	"gopkg.in/yaml.v3"
)

var c11fLogger = slog.New(slog.NewTextHandler(io.Discard, nil))

const c11fSentinel = "C11SENTINEL"

type c11fFailure struct {
	tag  string
	text string
}

type c11fRun struct {
	failures []c11fFailure
	checked  int
	tmp      string
	seq      int
}

func (r *c11fRun) fail(tag string, format string, a ...any) {
	r.failures = append(r.failures, c11fFailure{tag, fmt.Sprintf(format, a...)})
}

// ---- the images ----

type c11fFile struct {
	fdp      *descriptorpb.FileDescriptorProto
	isImport bool
}

type c11fImage struct {
	name  string
	files []c11fFile
	types *dynamicpb.Types // independent resolver of exactly the files of the image
}

func c11fMsg(name string, fields ...*descriptorpb.FieldDescriptorProto) *descriptorpb.DescriptorProto {
	return &descriptorpb.DescriptorProto{Name: proto.String(name), Field: fields}
}

func c11fStr(name string, number int32) *descriptorpb.FieldDescriptorProto {
	return &descriptorpb.FieldDescriptorProto{
		Name:     proto.String(name),
		JsonName: proto.String(name),
		Number:   proto.Int32(number),
		Label:    descriptorpb.FieldDescriptorProto_LABEL_OPTIONAL.Enum(),
		Type:     descriptorpb.FieldDescriptorProto_TYPE_STRING.Enum(),
	}
}

func c11fRef(name string, number int32, typeName string) *descriptorpb.FieldDescriptorProto {
	return &descriptorpb.FieldDescriptorProto{
		Name:     proto.String(name),
		JsonName: proto.String(name),
		Number:   proto.Int32(number),
		Label:    descriptorpb.FieldDescriptorProto_LABEL_OPTIONAL.Enum(),
		Type:     descriptorpb.FieldDescriptorProto_TYPE_MESSAGE.Enum(),
		TypeName: proto.String(typeName),
	}
}

func c11fFdp(name string, pkg string, deps []string, msgs ...*descriptorpb.DescriptorProto) *descriptorpb.FileDescriptorProto {
	return &descriptorpb.FileDescriptorProto{
		Name:        proto.String(name),
		Package:     proto.String(pkg),
		Dependency:  deps,
		MessageType: msgs,
		Syntax:      proto.String("proto3"),
	}
}

func c11fSourceInfo() *descriptorpb.SourceCodeInfo {
	return &descriptorpb.SourceCodeInfo{Location: []*descriptorpb.SourceCodeInfo_Location{
		{Span: []int32{0, 0, 4, 1}},
		{Path: []int32{12}, Span: []int32{0, 0, 18}},
		{Path: []int32{4, 0}, Span: []int32{2, 0, 4, 1}, LeadingComments: proto.String("the message\n")},
		{Path: []int32{4, 0, 1}, Span: []int32{2, 8, 9}},
		{Path: []int32{4, 0, 2, 0}, Span: []int32{3, 2, 15}, TrailingComments: proto.String("the field\n")},
	}}
}

func c11fImages() ([]*c11fImage, error) {
	// IMP
	lib := c11fFdp("lib/l.proto", "lib", nil, c11fMsg("L", c11fStr("s", 1)))
	ab := c11fFdp("a/b.proto", "a", nil, c11fMsg("B", c11fStr("s", 1)))
	ab.SourceCodeInfo = c11fSourceInfo()
	ac := c11fFdp("a/c.proto", "a", []string{"a/b.proto"}, c11fMsg("C", c11fRef("b", 1, ".a.B")))
	top := c11fFdp("top.proto", "top", []string{"lib/l.proto", "a/c.proto"}, c11fMsg("Top", c11fRef("l", 1, ".lib.L"), c11fRef("c", 2, ".a.C")))
	imp := &c11fImage{name: "IMP", files: []c11fFile{{lib, true}, {ab, false}, {ac, false}, {top, false}}}

	// EXT
	descriptorFile := protodesc.ToFileDescriptorProto(descriptorpb.File_google_protobuf_descriptor_proto)
	anyFile := protodesc.ToFileDescriptorProto(anypb.File_google_protobuf_any_proto)
	ext := c11fFdp("x/ext.proto", "c11x", []string{"google/protobuf/descriptor.proto", "google/protobuf/any.proto"}, c11fMsg("Payload", c11fStr("text", 1)))
	optField := c11fStr("opt", 50001)
	optField.Extendee = proto.String(".google.protobuf.MessageOptions")
	anyField := c11fRef("any_opt", 50002, ".google.protobuf.Any")
	anyField.Extendee = proto.String(".google.protobuf.MessageOptions")
	anyField.JsonName = proto.String("anyOpt")
	ext.Extension = []*descriptorpb.FieldDescriptorProto{optField, anyField}
	uses := c11fFdp("x/uses.proto", "c11u", []string{"x/ext.proto"}, c11fMsg("Uses", c11fStr("s", 1)))
	// option (c11x.opt) = "C11SENTINEL"; option (c11x.any_opt) = { [type.googleapis.com/c11x.Payload] { text: "abc" } }
	var payload []byte
	payload = protowire.AppendTag(payload, 1, protowire.BytesType)
	payload = protowire.AppendString(payload, "abc")
	var anyBytes []byte
	anyBytes = protowire.AppendTag(anyBytes, 1, protowire.BytesType)
	anyBytes = protowire.AppendString(anyBytes, "type.googleapis.com/c11x.Payload")
	anyBytes = protowire.AppendTag(anyBytes, 2, protowire.BytesType)
	anyBytes = protowire.AppendBytes(anyBytes, payload)
	var raw []byte
	raw = protowire.AppendTag(raw, 50001, protowire.BytesType)
	raw = protowire.AppendString(raw, c11fSentinel)
	raw = protowire.AppendTag(raw, 50002, protowire.BytesType)
	raw = protowire.AppendBytes(raw, anyBytes)
	options := &descriptorpb.MessageOptions{}
	options.ProtoReflect().SetUnknown(raw)
	uses.MessageType[0].Options = options
	extImage := &c11fImage{name: "EXT", files: []c11fFile{{descriptorFile, true}, {anyFile, true}, {ext, false}, {uses, false}}}

	// SRC
	src := c11fFdp("s/src.proto", "s", nil, c11fMsg("S", c11fStr("f", 1)))
	src.SourceCodeInfo = c11fSourceInfo()
	dep := c11fFdp("s/dep.proto", "s", nil, c11fMsg("D", c11fStr("f", 1)))
	dep.SourceCodeInfo = c11fSourceInfo()
	user := c11fFdp("s/user.proto", "s", []string{"s/dep.proto"}, c11fMsg("U", c11fRef("d", 1, ".s.D")))
	srcImage := &c11fImage{name: "SRC", files: []c11fFile{{src, false}, {dep, true}, {user, false}}}

	images := []*c11fImage{imp, extImage, srcImage}
	for _, image := range images {
		set := &descriptorpb.FileDescriptorSet{}
		for _, f := range image.files {
			set.File = append(set.File, f.fdp)
		}
		files, err := protodesc.NewFiles(set)
		if err != nil {
			return nil, fmt.Errorf("image %s: %w", image.name, err)
		}
		image.types = dynamicpb.NewTypes(files)
	}
	return images, nil
}

// one file of the image message: the descriptor's bytes plus the buf extension (field 8042)
func c11fProtoFile(f c11fFile, withExtension bool) ([]byte, error) {
	data, err := proto.MarshalOptions{Deterministic: true}.Marshal(f.fdp)
	if err != nil {
		return nil, err
	}
	if withExtension {
		extension := imagev1.ImageFileExtension_builder{
			IsImport:            proto.Bool(f.isImport),
			IsSyntaxUnspecified: proto.Bool(false),
		}.Build()
		extensionData, err := proto.Marshal(extension)
		if err != nil {
			return nil, err
		}
		data = protowire.AppendTag(data, 8042, protowire.BytesType)
		data = protowire.AppendBytes(data, extensionData)
	}
	return data, nil
}

// the image message of the given files, decoded with the independent resolver (custom options are known fields)
func (i *c11fImage) proto(files []c11fFile, withExtension bool) (*imagev1.Image, error) {
	var data []byte
	for _, f := range files {
		fileData, err := c11fProtoFile(f, withExtension)
		if err != nil {
			return nil, err
		}
		data = protowire.AppendTag(data, 1, protowire.BytesType)
		data = protowire.AppendBytes(data, fileData)
	}
	message := &imagev1.Image{}
	if err := (proto.UnmarshalOptions{Resolver: i.types}).Unmarshal(data, message); err != nil {
		return nil, err
	}
	return message, nil
}

// re-decode any message with the independent resolver, so that two messages can be compared with proto.Equal
func (i *c11fImage) canon(message proto.Message) (proto.Message, error) {
	data, err := proto.MarshalOptions{Deterministic: true}.Marshal(message)
	if err != nil {
		return nil, err
	}
	out := message.ProtoReflect().New().Interface()
	if err := (proto.UnmarshalOptions{Resolver: i.types}).Unmarshal(data, out); err != nil {
		return nil, err
	}
	return out, nil
}

func (i *c11fImage) canonImage(message *imagev1.Image) (*imagev1.Image, error) {
	out, err := i.canon(message)
	if err != nil {
		return nil, err
	}
	return out.(*imagev1.Image), nil
}

// a fresh bufimage.Image of the files (built from the wire bytes, as `buf build` would hand it to PutImage)
func (i *c11fImage) image() (bufimage.Image, error) {
	known, err := i.proto(i.files, true)
	if err != nil {
		return nil, err
	}
	data, err := proto.Marshal(known)
	if err != nil {
		return nil, err
	}
	protoImage := &imagev1.Image{}
	if err := proto.Unmarshal(data, protoImage); err != nil {
		return nil, err
	}
	return bufimage.NewImageForProto(protoImage)
}

// ---- independent codecs ----

var c11fEncodings = []string{"binpb", "json", "txtpb", "yaml"}

func c11fYAMLFromJSON(data []byte) ([]byte, error) {
	var value any
	if err := json.Unmarshal(data, &value); err != nil {
		return nil, err
	}
	return yaml.Marshal(value)
}

func c11fJSONFromYAML(data []byte) ([]byte, error) {
	var value any
	if err := yaml.Unmarshal(data, &value); err != nil {
		return nil, err
	}
	return json.Marshal(c11fStringKeys(value))
}

func c11fStringKeys(value any) any {
	switch t := value.(type) {
	case map[any]any:
		out := map[string]any{}
		for k, v := range t {
			out[fmt.Sprint(k)] = c11fStringKeys(v)
		}
		return out
	case map[string]any:
		for k, v := range t {
			t[k] = c11fStringKeys(v)
		}
		return t
	case []any:
		for k, v := range t {
			t[k] = c11fStringKeys(v)
		}
		return t
	}
	return value
}

func (i *c11fImage) encode(encoding string, message proto.Message) ([]byte, error) {
	switch encoding {
	case "binpb":
		return proto.MarshalOptions{Deterministic: true}.Marshal(message)
	case "json":
		return protojson.MarshalOptions{Resolver: i.types}.Marshal(message)
	case "txtpb":
		return prototext.MarshalOptions{Resolver: i.types, Multiline: true}.Marshal(message)
	case "yaml":
		data, err := protojson.MarshalOptions{Resolver: i.types}.Marshal(message)
		if err != nil {
			return nil, err
		}
		return c11fYAMLFromJSON(data)
	}
	return nil, fmt.Errorf("no encoding %q", encoding)
}

// decode strictly: a field or extension that the independent resolver does not know is an error
func (i *c11fImage) decode(encoding string, data []byte) (*imagev1.Image, error) {
	message := &imagev1.Image{}
	switch encoding {
	case "binpb":
		if err := (proto.UnmarshalOptions{Resolver: i.types}).Unmarshal(data, message); err != nil {
			return nil, err
		}
	case "json":
		if err := (protojson.UnmarshalOptions{Resolver: i.types}).Unmarshal(data, message); err != nil {
			return nil, err
		}
	case "txtpb":
		if err := (prototext.UnmarshalOptions{Resolver: i.types}).Unmarshal(data, message); err != nil {
			return nil, err
		}
	case "yaml":
		jsonData, err := c11fJSONFromYAML(data)
		if err != nil {
			return nil, err
		}
		if err := (protojson.UnmarshalOptions{Resolver: i.types}).Unmarshal(jsonData, message); err != nil {
			return nil, err
		}
	default:
		return nil, fmt.Errorf("no encoding %q", encoding)
	}
	return message, nil
}

func c11fGzip(data []byte) []byte {
	var buffer bytes.Buffer
	writer := gzip.NewWriter(&buffer)
	_, _ = writer.Write(data)
	_ = writer.Close()
	return buffer.Bytes()
}

func c11fGunzip(data []byte) ([]byte, error) {
	reader, err := gzip.NewReader(bytes.NewReader(data))
	if err != nil {
		return nil, err
	}
	return io.ReadAll(reader)
}

// which of the four encodings the bytes are in, judged without any buf code
func (i *c11fImage) sniff(data []byte) string {
	if json.Valid(data) {
		return "json"
	}
	if _, err := i.decode("txtpb", data); err == nil && len(bytes.TrimSpace(data)) > 0 {
		return "txtpb"
	}
	if jsonData, err := c11fJSONFromYAML(data); err == nil && bytes.HasPrefix(bytes.TrimSpace(jsonData), []byte("{")) {
		return "yaml"
	}
	return "binpb"
}

// the paths of the messages below (and including) m that still hold unknown bytes
func c11fUnknown(prefix string, m protoreflect.Message, out *[]string) {
	if len(m.GetUnknown()) > 0 {
		*out = append(*out, fmt.Sprintf("%s(%s: %d unknown bytes)", prefix, m.Descriptor().FullName(), len(m.GetUnknown())))
	}
	m.Range(func(fd protoreflect.FieldDescriptor, v protoreflect.Value) bool {
		if fd.Message() == nil || fd.IsMap() {
			return true
		}
		if fd.IsList() {
			list := v.List()
			for k := 0; k < list.Len(); k++ {
				c11fUnknown(fmt.Sprintf("%s.%s[%d]", prefix, fd.Name(), k), list.Get(k).Message(), out)
			}
			return true
		}
		c11fUnknown(prefix+"."+string(fd.Name()), v.Message(), out)
		return true
	})
}

// ---- the documented filters ----

type c11fOptions struct {
	excludeSourceInfo bool
	excludeImports    bool
	asFDS             bool
	paths             []string
	excludePaths      []string
	types             []string
}

func (o c11fOptions) String() string {
	var parts []string
	if o.excludeSourceInfo {
		parts = append(parts, "WithImageExcludeSourceInfo(true)")
	}
	if o.excludeImports {
		parts = append(parts, "WithImageExcludeImports(true)")
	}
	if o.asFDS {
		parts = append(parts, "WithImageAsFileDescriptorSet(true)")
	}
	if len(o.paths) > 0 || len(o.excludePaths) > 0 {
		parts = append(parts, fmt.Sprintf("WithTargetPaths(%q, %q)", o.paths, o.excludePaths))
	}
	if len(o.types) > 0 {
		parts = append(parts, fmt.Sprintf("WithImageIncludeTypes(%q)", o.types))
	}
	if len(parts) == 0 {
		return "no options"
	}
	return strings.Join(parts, " ")
}

func (o c11fOptions) functionOptions() []FunctionOption {
	var out []FunctionOption
	if o.excludeSourceInfo {
		out = append(out, WithImageExcludeSourceInfo(true))
	}
	if o.excludeImports {
		out = append(out, WithImageExcludeImports(true))
	}
	if o.asFDS {
		out = append(out, WithImageAsFileDescriptorSet(true))
	}
	if len(o.paths) > 0 || len(o.excludePaths) > 0 {
		out = append(out, WithTargetPaths(o.paths, o.excludePaths))
	}
	if len(o.types) > 0 {
		out = append(out, WithImageIncludeTypes(o.types))
	}
	return out
}

func (o c11fOptions) raw() *functionOptions {
	out := &functionOptions{}
	for _, option := range o.functionOptions() {
		option(out)
	}
	return out
}

func c11fUnder(dir string, file string) bool {
	return dir == "." || dir == file || strings.HasPrefix(file, dir+"/")
}

// the files that the named types need, for the one type filter used here: file -> needed
func c11fTypeFiles(types []string) map[string]bool {
	out := map[string]bool{}
	for _, t := range types {
		switch t {
		case "a.C":
			out["a/c.proto"] = true
			out["a/b.proto"] = true
		case "s.U":
			out["s/user.proto"] = true
			out["s/dep.proto"] = true
		}
	}
	return out
}

// expected files after: source info cleared (read only), imports dropped, type filter, normalised path filter (skipped
// for an image that came from a workspace); the imports of the selected files are kept as imports
func c11fExpected(files []c11fFile, o c11fOptions, cameFromWorkspace bool) []c11fFile {
	var current []c11fFile
	for _, f := range files {
		copied := c11fFile{proto.Clone(f.fdp).(*descriptorpb.FileDescriptorProto), f.isImport}
		if o.excludeSourceInfo {
			copied.fdp.SourceCodeInfo = nil
		}
		current = append(current, copied)
	}
	if o.excludeImports {
		var kept []c11fFile
		for _, f := range current {
			if !f.isImport {
				kept = append(kept, f)
			}
		}
		current = kept
	}
	if len(o.types) > 0 {
		needed := c11fTypeFiles(o.types)
		var kept []c11fFile
		for _, f := range current {
			if needed[f.fdp.GetName()] {
				kept = append(kept, f)
			}
		}
		current = kept
	}
	if !cameFromWorkspace && (len(o.paths) > 0 || len(o.excludePaths) > 0) {
		var paths, excludes []string
		for _, p := range o.paths {
			paths = append(paths, path.Clean(filepath.ToSlash(p)))
		}
		for _, p := range o.excludePaths {
			excludes = append(excludes, path.Clean(filepath.ToSlash(p)))
		}
		byName := map[string]c11fFile{}
		for _, f := range current {
			byName[f.fdp.GetName()] = f
		}
		target := map[string]bool{}
		for _, f := range current {
			name := f.fdp.GetName()
			selected := len(paths) == 0 && !f.isImport
			for _, p := range paths {
				if c11fUnder(p, name) {
					selected = true
				}
			}
			for _, e := range excludes {
				if c11fUnder(e, name) {
					selected = false
				}
			}
			if selected {
				target[name] = true
			}
		}
		needed := map[string]bool{}
		var visit func(name string)
		visit = func(name string) {
			if needed[name] {
				return
			}
			needed[name] = true
			for _, dep := range byName[name].fdp.GetDependency() {
				if _, ok := byName[dep]; ok {
					visit(dep)
				}
			}
		}
		for name := range target {
			visit(name)
		}
		var kept []c11fFile
		for _, f := range current {
			name := f.fdp.GetName()
			if needed[name] {
				kept = append(kept, c11fFile{f.fdp, !target[name]})
			}
		}
		current = kept
	}
	return current
}

func c11fNames(files []c11fFile) []string {
	var out []string
	for _, f := range files {
		name := f.fdp.GetName()
		if f.isImport {
			name += "(import)"
		}
		out = append(out, name)
	}
	sort.Strings(out)
	return out
}

func c11fImageNames(image bufimage.Image) []string {
	var out []string
	for _, f := range image.Files() {
		name := f.Path()
		if f.IsImport() {
			name += "(import)"
		}
		out = append(out, name)
	}
	sort.Strings(out)
	return out
}

func c11fProtoNames(message *imagev1.Image) []string {
	var out []string
	for _, f := range message.GetFile() {
		name := f.GetName()
		if f.GetBufExtension().GetIsImport() {
			name += "(import)"
		}
		out = append(out, name)
	}
	sort.Strings(out)
	return out
}

// compare an image that the code returned with the expected files: file set, import flags, descriptors, source info,
// no unknown bytes
func (r *c11fRun) compareImage(tags string, what string, spec *c11fImage, got bufimage.Image, want []c11fFile, o c11fOptions) bool {
	ok := true
	gotNames, wantNames := c11fImageNames(got), c11fNames(want)
	if fmt.Sprint(gotNames) != fmt.Sprint(wantNames) {
		r.fail(tags+" files", "%s: got files %v; want %v", what, gotNames, wantNames)
		return false
	}
	wantByName := map[string]c11fFile{}
	for _, f := range want {
		wantByName[f.fdp.GetName()] = f
	}
	for _, f := range got.Files() {
		w := wantByName[f.Path()]
		fdp := f.FileDescriptorProto()
		var unknown []string
		c11fUnknown(f.Path(), fdp.ProtoReflect(), &unknown)
		if len(unknown) > 0 {
			r.fail(tags+" unknown", "%s: the custom options of the image are still unknown bytes after reading: %v; want them parsed as extension fields (the image is re-parsed with the resolver of its own files)", what, unknown)
			ok = false
		}
		if (fdp.GetSourceCodeInfo() != nil) != (w.fdp.GetSourceCodeInfo() != nil) {
			r.fail(tags+" source-info", "%s: file %s: got source code info present=%v; want present=%v (source info is cleared exactly when WithImageExcludeSourceInfo(true))", what, f.Path(), fdp.GetSourceCodeInfo() != nil, w.fdp.GetSourceCodeInfo() != nil)
			ok = false
			continue
		}
		if len(o.types) > 0 {
			continue
		}
		gotCanon, err1 := spec.canon(fdp)
		wantCanon, err2 := spec.canon(w.fdp)
		if err1 != nil || err2 != nil {
			r.fail(tags+" descriptor", "%s: file %s cannot be re-decoded: %v %v", what, f.Path(), err1, err2)
			ok = false
			continue
		}
		if !proto.Equal(gotCanon, wantCanon) {
			r.fail(tags+" descriptor", "%s: file %s: got descriptor %s; want %s", what, f.Path(), c11fShort(prototext.MarshalOptions{Resolver: spec.types}.Format(gotCanon)), c11fShort(prototext.MarshalOptions{Resolver: spec.types}.Format(wantCanon)))
			ok = false
		}
	}
	return ok
}

func c11fShort(s string) string {
	s = strings.Join(strings.Fields(s), " ")
	if len(s) > 300 {
		return s[:300] + "..."
	}
	return s
}

// ---- the controller ----

func c11fController(stdin io.Reader, stdout io.Writer) (*controller, error) {
	container := app.NewContainer(map[string]string{}, stdin, stdout, io.Discard)
	return newController(
		c11fLogger,
		container,
		bufmodule.NopGraphProvider,
		nil,
		bufmodule.NopModuleDataProvider,
		bufmodule.NopCommitProvider,
		bufplugin.NopPluginKeyProvider,
		bufplugin.NopPluginDataProvider,
		nil,
		nil,
		nil,
		git.ClonerOptions{},
	)
}

func (r *c11fRun) file(name string) string {
	r.seq++
	dir := filepath.Join(r.tmp, fmt.Sprintf("d%d", r.seq))
	_ = os.MkdirAll(dir, 0o755)
	return filepath.Join(dir, name)
}

// read the bytes as an image through the real getImageForMessageRef; transport: "file", "gz", "stdin"
func (r *c11fRun) read(ctx context.Context, encoding string, transport string, data []byte, o c11fOptions) (bufimage.Image, string, error) {
	var ref string
	var stdin io.Reader = bytes.NewReader(nil)
	switch transport {
	case "file":
		ref = r.file("image." + encoding)
		if err := os.WriteFile(ref, data, 0o644); err != nil {
			return nil, ref, err
		}
	case "gz":
		ref = r.file("image." + encoding + ".gz")
		if err := os.WriteFile(ref, c11fGzip(data), 0o644); err != nil {
			return nil, ref, err
		}
	default:
		ref = "-#format=" + encoding
		stdin = bytes.NewReader(data)
	}
	c, err := c11fController(stdin, io.Discard)
	if err != nil {
		return nil, ref, err
	}
	messageRef, err := buffetch.NewMessageRefParser(c11fLogger).GetMessageRef(ctx, ref)
	if err != nil {
		return nil, ref, fmt.Errorf("message ref %q: %w", ref, err)
	}
	var image bufimage.Image
	if panicked := c11fSafe(func() { image, err = c.getImageForMessageRef(ctx, messageRef, o.raw()) }); panicked != nil {
		return nil, filepath.Base(ref), fmt.Errorf("PANIC: %v", panicked)
	}
	return image, filepath.Base(ref), err
}

func c11fSafe(f func()) (panicked any) {
	defer func() {
		panicked = recover()
	}()
	f()
	return nil
}

// every dependency of every file is in the list (what protoencoding.NewResolver documents as its requirement)
func c11fSelfContained(files []c11fFile) bool {
	names := map[string]bool{}
	for _, f := range files {
		names[f.fdp.GetName()] = true
	}
	for _, f := range files {
		for _, dep := range f.fdp.GetDependency() {
			if !names[dep] {
				return false
			}
		}
	}
	return true
}

var c11fTransports = []string{"file", "gz", "stdin"}

func c11fReadOptions(image *c11fImage) []c11fOptions {
	out := []c11fOptions{{}, {excludeSourceInfo: true}, {excludeImports: true}, {excludeSourceInfo: true, excludeImports: true}}
	switch image.name {
	case "IMP":
		out = append(out,
			c11fOptions{paths: []string{"./a//b.proto"}},
			c11fOptions{paths: []string{"a/c.proto"}},
			c11fOptions{excludePaths: []string{"./a//b.proto"}},
			c11fOptions{paths: []string{"a"}, excludePaths: []string{"a/./c.proto"}},
			c11fOptions{types: []string{"a.C"}},
		)
	case "SRC":
		out = append(out,
			c11fOptions{paths: []string{"s//user.proto"}},
			c11fOptions{excludeSourceInfo: true, excludePaths: []string{"./s/src.proto"}},
		)
	case "EXT":
		out = append(out, c11fOptions{paths: []string{"x/./uses.proto"}})
	}
	return out
}

func (r *c11fRun) familyRead(ctx context.Context, images []*c11fImage) {
	for _, spec := range images {
		known, err := spec.proto(spec.files, true)
		if err != nil {
			r.fail("setup", "image %s: %v", spec.name, err)
			continue
		}
		for _, encoding := range c11fEncodings {
			data, err := spec.encode(encoding, known)
			if err != nil {
				r.fail("setup", "image %s as %s: %v", spec.name, encoding, err)
				continue
			}
			for _, transport := range c11fTransports {
				for _, o := range c11fReadOptions(spec) {
					if transport != "file" && (len(o.paths) > 0 || len(o.excludePaths) > 0 || len(o.types) > 0) {
						continue
					}
					r.checked++
					got, ref, err := r.read(ctx, encoding, transport, data, o)
					what := fmt.Sprintf("getImageForMessageRef(%s holding image %s %v encoded independently as %s, %s)", ref, spec.name, c11fNames(spec.files), encoding, o)
					tags := encoding + "-two-passes " + encoding + "-one-pass binpb-is-reparsed-text-is-not second-pass-has-the-bootstrapped-resolver bootstrapped-from-the-first-pass image-built-from-the-last-pass"
					if err != nil || got == nil {
						r.fail(tags+" decoder-failure-returned", "%s: got error %v; want the image read back", what, err)
						continue
					}
					want := c11fExpected(spec.files, o, false)
					if o.excludeSourceInfo {
						tags += " source-info-cleared-when-asked cleared-so-far"
					} else {
						tags += " source-info-kept-unless-asked"
					}
					r.compareImage(tags, what, spec, got, want, o)
				}
			}
		}
	}
	r.familyReadFailures(ctx, images)
}

// inputs that the decoder of the encoding must reject: the failure is returned, never an image
func (r *c11fRun) familyReadFailures(ctx context.Context, images []*c11fImage) {
	var spec *c11fImage
	for _, image := range images {
		if image.name == "EXT" {
			spec = image
		}
	}
	known, err := spec.proto(spec.files, true)
	if err != nil {
		r.fail("setup", "image %s: %v", spec.name, err)
		return
	}
	type bad struct {
		encoding string
		what     string
		data     []byte
	}
	var bads []bad
	for _, encoding := range c11fEncodings {
		data, err := spec.encode(encoding, known)
		if err != nil {
			r.fail("setup", "image %s as %s: %v", spec.name, encoding, err)
			continue
		}
		bads = append(bads, bad{encoding, "the first half of the bytes only", data[:len(data)/2]})
		if !bytes.Contains(data, []byte(c11fSentinel)) {
			r.fail("setup", "image %s as %s does not hold the option value", spec.name, encoding)
			continue
		}
		// the value of the string option (c11x.opt) of message c11u.Uses replaced by a value of the wrong type: only a
		// decoder that knows the extension (the second pass) can see it
		switch encoding {
		case "json":
			bads = append(bads, bad{encoding, `"[c11x.opt]": {"x": 1} (an object for the string option c11x.opt, in the last file)`, bytes.Replace(data, []byte(`"`+c11fSentinel+`"`), []byte(`{"x": 1}`), 1)})
		case "txtpb":
			bads = append(bads, bad{encoding, `[c11x.opt]: 12 (a number for the string option c11x.opt, in the last file)`, bytes.Replace(data, []byte(`"`+c11fSentinel+`"`), []byte(`12`), 1)})
		case "yaml":
			bads = append(bads, bad{encoding, `"[c11x.opt]": {x: 1} (a mapping for the string option c11x.opt, in the last file)`, bytes.Replace(data, []byte(c11fSentinel), []byte(`{x: 1}`), 1)})
		}
	}
	for _, b := range bads {
		for _, transport := range []string{"file", "gz"} {
			r.checked++
			got, ref, err := r.read(ctx, b.encoding, transport, b.data, c11fOptions{})
			if err == nil || got != nil {
				files := "<nil>"
				if got != nil {
					files = fmt.Sprint(c11fImageNames(got))
				}
				r.fail("decoder-failure-returned "+b.encoding, "getImageForMessageRef(%s holding image EXT %v as %s, but with %s): got image %s, error %v; want no image and the decoder's error", ref, c11fNames(spec.files), b.encoding, b.what, files, err)
			}
		}
	}
}

// ---- filterImage ----

func (r *c11fRun) familyFilter(images []*c11fImage) {
	for _, spec := range images {
		var pathSets [][2][]string
		var typeSets [][]string
		switch spec.name {
		case "IMP":
			pathSets = [][2][]string{
				{nil, nil},
				{{"a/b.proto"}, nil},
				{{"./a//b.proto"}, nil},
				{{"a/"}, nil},
				{{"a/c.proto"}, nil},
				{{"a/b.proto", "nonexistent"}, nil},
				{nil, {"a/c.proto"}},
				{nil, {"./a//b.proto"}},
				{nil, {"top.proto", "a/../a/c.proto"}},
				{{"a"}, {"a/./c.proto"}},
				{{"./a", "top.proto"}, {"a//c.proto"}},
			}
			typeSets = [][]string{nil, {"a.C"}}
		case "SRC":
			pathSets = [][2][]string{
				{nil, nil},
				{{"s/user.proto"}, nil},
				{{"s"}, {"s//src.proto"}},
				{nil, {"./s/src.proto"}},
			}
			typeSets = [][]string{nil}
		default:
			pathSets = [][2][]string{
				{nil, nil},
				{{"x//uses.proto"}, nil},
				{nil, {"./x/uses.proto"}},
			}
			typeSets = [][]string{nil}
		}
		for _, excludeImports := range []bool{false, true} {
			for _, types := range typeSets {
				for _, pathSet := range pathSets {
					for _, cameFromWorkspace := range []bool{false, true} {
						o := c11fOptions{excludeImports: excludeImports, types: types, paths: pathSet[0], excludePaths: pathSet[1]}
						image, err := spec.image()
						if err != nil {
							r.fail("setup", "image %s: %v", spec.name, err)
							continue
						}
						r.checked++
						what := fmt.Sprintf("filterImage(image %s %v, %s, imageCameFromAWorkspace=%v)", spec.name, c11fNames(spec.files), o, cameFromWorkspace)
						got, err := filterImage(image, o.raw(), cameFromWorkspace)
						want := c11fExpected(spec.files, o, cameFromWorkspace)
						tags := "steps-as-asked-in-order steps-with-type-filter"
						if excludeImports {
							tags += " imports-dropped-when-asked imports-first"
						}
						if len(types) > 0 {
							tags += " types-second"
						}
						if len(pathSet[0]) > 0 {
							tags += " paths-normalized targets-so-far paths-only-when-asked"
						}
						if len(pathSet[1]) > 0 {
							tags += " exclude-paths-normalized excludes-so-far paths-only-when-asked"
						}
						if !excludeImports && len(types) == 0 && (cameFromWorkspace || (len(pathSet[0]) == 0 && len(pathSet[1]) == 0)) {
							tags += " nothing-asked-nothing-done"
						}
						if err != nil || got == nil {
							r.fail(tags+" failure-has-no-image", "%s: got error %v; want files %v", what, err, c11fNames(want))
							continue
						}
						r.compareImage(tags, what, spec, got, want, o)
					}
				}
			}
		}
	}
}

// ---- PutImage / newProtoencodingMarshaler ----

// data: what was written for a ref of the given encoding; want: the expected message (image or descriptor set)
func (r *c11fRun) checkEncoded(tags string, what string, spec *c11fImage, encoding string, data []byte, want *imagev1.Image) bool {
	if sniffed := spec.sniff(data); sniffed != encoding {
		r.fail(tags+" "+encoding+" encoder-of-the-refs-encoding", "%s: the output is %s (%s); want %s, the encoding of the ref", what, sniffed, c11fShort(string(data[:min(len(data), 80)])), encoding)
		return false
	}
	got, err := spec.decode(encoding, data)
	if err != nil {
		r.fail(tags+" "+encoding+" encoder-of-the-refs-encoding", "%s: the output does not decode as %s with an independent decoder: %v", what, encoding, err)
		return false
	}
	gotCanon, err1 := spec.canonImage(got)
	wantCanon, err2 := spec.canonImage(want)
	if err1 != nil || err2 != nil {
		r.fail(tags, "%s: cannot re-decode: %v %v", what, err1, err2)
		return false
	}
	ok := true
	// the order of the files is documented only as "dependencies first"
	seen := map[string]bool{}
	for _, f := range gotCanon.GetFile() {
		for _, dep := range f.GetDependency() {
			if !seen[dep] && strings.Contains(" "+strings.Join(c11fProtoNames(gotCanon), " ")+" ", " "+dep) {
				r.fail(tags+" order", "%s: the output lists %s before its dependency %s", what, f.GetName(), dep)
				ok = false
			}
		}
		seen[f.GetName()] = true
	}
	sort.SliceStable(gotCanon.GetFile(), func(a, b int) bool { return gotCanon.GetFile()[a].GetName() < gotCanon.GetFile()[b].GetName() })
	sort.SliceStable(wantCanon.GetFile(), func(a, b int) bool { return wantCanon.GetFile()[a].GetName() < wantCanon.GetFile()[b].GetName() })
	if !proto.Equal(gotCanon, wantCanon) {
		gotExtensions, wantExtensions := 0, 0
		for _, f := range gotCanon.GetFile() {
			if f.HasBufExtension() {
				gotExtensions++
			}
		}
		for _, f := range wantCanon.GetFile() {
			if f.HasBufExtension() {
				wantExtensions++
			}
		}
		if fmt.Sprint(c11fProtoNames(gotCanon)) != fmt.Sprint(c11fProtoNames(wantCanon)) || gotExtensions != wantExtensions {
			r.fail(tags+" files descriptor-set-exactly-when-asked", "%s: the output holds files %v, %d of them with the image-only buf extension field (8042); want files %v, %d with that field", what, c11fProtoNames(gotCanon), gotExtensions, c11fProtoNames(wantCanon), wantExtensions)
		} else {
			r.fail(tags+" content", "%s: the output decodes to %s; want %s", what, c11fShort(prototext.MarshalOptions{Resolver: spec.types}.Format(gotCanon)), c11fShort(prototext.MarshalOptions{Resolver: spec.types}.Format(wantCanon)))
		}
		ok = false
	}
	if spec.name == "EXT" && encoding != "binpb" && strings.Contains(fmt.Sprint(c11fProtoNames(wantCanon)), "x/uses.proto") {
		text := string(data)
		at := strings.Index(text, "[c11x.any_opt]")
		window := ""
		if at >= 0 {
			window = text[at:min(len(text), at+220)]
		}
		if at < 0 || !strings.Contains(window, "type.googleapis.com/c11x.Payload") || strings.Contains(window, "type_url") || strings.Contains(window, "typeUrl") || !strings.Contains(window, "text") || !strings.Contains(window, "abc") || !strings.Contains(text, "[c11x.opt]") {
			if at < 0 {
				window = text[max(0, strings.Index(text, "Uses")):]
				window = window[:min(len(window), 220)]
			}
			r.fail(tags+" json-yaml-print-with-the-images-resolver txtpb-prints-with-the-images-resolver given-resolver", "%s: the option (c11x.any_opt) = {[type.googleapis.com/c11x.Payload]{text:\"abc\"}} of message c11u.Uses is printed as %q; want the extensions and the Any value printed by name with the resolver of the image (c11x.Payload is defined in the image)", what, c11fShort(window))
			ok = false
		}
	}
	return ok
}

func c11fWriteOptions(image *c11fImage) []c11fOptions {
	out := []c11fOptions{{}, {asFDS: true}, {excludeImports: true}, {asFDS: true, excludeImports: true}}
	if image.name == "IMP" {
		out = append(out,
			c11fOptions{paths: []string{"./a//b.proto"}},
			c11fOptions{asFDS: true, excludePaths: []string{"./a//b.proto"}},
		)
	}
	return out
}

func (r *c11fRun) expectedMessage(spec *c11fImage, o c11fOptions) (*imagev1.Image, []c11fFile, error) {
	want := c11fExpected(spec.files, o, false)
	message, err := spec.proto(want, !o.asFDS)
	return message, want, err
}

func (r *c11fRun) familyPut(ctx context.Context, images []*c11fImage) {
	for _, spec := range images {
		for _, encoding := range c11fEncodings {
			for _, transport := range []string{"file", "gz", "stdout"} {
				for _, o := range c11fWriteOptions(spec) {
					if transport == "stdout" && (len(o.paths) > 0 || len(o.excludePaths) > 0) {
						continue
					}
					image, err := spec.image()
					if err != nil {
						r.fail("setup", "image %s: %v", spec.name, err)
						continue
					}
					var stdout bytes.Buffer
					c, err := c11fController(bytes.NewReader(nil), &stdout)
					if err != nil {
						r.fail("setup", "controller: %v", err)
						continue
					}
					var ref string
					switch transport {
					case "file":
						ref = r.file("out." + encoding)
					case "gz":
						ref = r.file("out." + encoding + ".gz")
					default:
						ref = "-#format=" + encoding
					}
					r.checked++
					what := fmt.Sprintf("PutImage(%q, image %s %v, %s)", filepath.Base(ref), spec.name, c11fNames(spec.files), o)
					tags := "marshalled-once-with-that-encoder written-bytes-are-the-marshalled-bytes success-marshals-once-or-null"
					var putErr error
					if panicked := c11fSafe(func() { putErr = c.PutImage(ctx, ref, image, o.functionOptions()...) }); panicked != nil {
						putErr = fmt.Errorf("PANIC: %v", panicked)
					}
					if err := putErr; err != nil {
						r.fail(tags, "%s: got error %v; want the image written", what, err)
						continue
					}
					var data []byte
					if transport == "stdout" {
						data = stdout.Bytes()
					} else {
						data, err = os.ReadFile(ref)
						if err != nil {
							r.fail(tags, "%s: nothing written: %v", what, err)
							continue
						}
						if stdout.Len() > 0 {
							r.fail(tags, "%s: %d bytes written to stdout; want them in the file only", what, stdout.Len())
						}
					}
					if transport == "gz" {
						data, err = c11fGunzip(data)
						if err != nil {
							r.fail(tags, "%s: the written file is not gzip: %v", what, err)
							continue
						}
					}
					wantMessage, wantFiles, err := r.expectedMessage(spec, o)
					if err != nil {
						r.fail("setup", "%s: %v", what, err)
						continue
					}
					if !r.checkEncoded(tags, what, spec, encoding, data, wantMessage) {
						continue
					}
					// and what was written reads back as the filtered image
					if !o.asFDS && transport != "stdout" && c11fSelfContained(wantFiles) {
						back, _, err := r.read(ctx, encoding, "file", data, c11fOptions{})
						if err != nil || back == nil {
							r.fail(tags+" round-trip", "%s, then getImageForMessageRef of the written file: got error %v; want the image", what, err)
							continue
						}
						r.compareImage(tags+" round-trip", what+", then getImageForMessageRef of the written file", spec, back, wantFiles, c11fOptions{})
					}
				}
			}
		}
		// the null ref writes nothing
		image, err := spec.image()
		if err != nil {
			continue
		}
		var stdout bytes.Buffer
		c, err := c11fController(bytes.NewReader(nil), &stdout)
		if err != nil {
			continue
		}
		r.checked++
		if err := c.PutImage(ctx, app.DevNullFilePath, image); err != nil || stdout.Len() > 0 {
			r.fail("null-ref-writes-nothing", "PutImage(%q, image %s): got error %v and %d bytes on stdout; want nothing written and no error", app.DevNullFilePath, spec.name, err, stdout.Len())
		}
	}
}

func (r *c11fRun) familyMarshaler(ctx context.Context, images []*c11fImage) {
	for _, spec := range images {
		for _, encoding := range c11fEncodings {
			for _, ref := range []string{"out." + encoding, "out." + encoding + ".gz", "-#format=" + encoding, "any.name#format=" + encoding} {
				for _, asFDS := range []bool{false, true} {
					image, err := spec.image()
					if err != nil {
						r.fail("setup", "image %s: %v", spec.name, err)
						continue
					}
					messageRef, err := buffetch.NewMessageRefParser(c11fLogger).GetMessageRef(ctx, ref)
					if err != nil {
						r.fail("setup", "message ref %q: %v", ref, err)
						continue
					}
					r.checked++
					kind := "the image message"
					if asFDS {
						kind = "the FileDescriptorSet"
					}
					what := fmt.Sprintf("newProtoencodingMarshaler(image %s %v, message ref %q).Marshal(%s of the image)", spec.name, c11fNames(spec.files), ref, kind)
					marshaler, err := newProtoencodingMarshaler(image, messageRef)
					if err != nil || marshaler == nil {
						r.fail(encoding, "%s: got error %v; want the %s encoder", what, err, encoding)
						continue
					}
					// the message to print: built here from the wire bytes, custom options still unknown bytes unless
					// the encoder resolves them
					wantMessage, err := spec.proto(spec.files, !asFDS)
					if err != nil {
						r.fail("setup", "%s: %v", what, err)
						continue
					}
					var message proto.Message
					if asFDS {
						message = bufimage.ImageToFileDescriptorSet(image)
					} else {
						message, err = bufimage.ImageToProtoImage(image)
						if err != nil {
							r.fail("setup", "%s: %v", what, err)
							continue
						}
					}
					data, err := marshaler.Marshal(message)
					if err != nil {
						r.fail(encoding, "%s: got error %v; want the %s bytes", what, err, encoding)
						continue
					}
					r.checkEncoded("", what, spec, encoding, data, wantMessage)
				}
			}
		}
	}
}

func TestVerifReplayC11(t *testing.T) {
	fn := os.Getenv("VERIF_REPLAY_FUNC")
	obligation := os.Getenv("VERIF_REPLAY_OBLIGATION")
	ctx := context.Background()
	r := &c11fRun{tmp: t.TempDir()}
	switch fn {
	case "getImageForMessageRef", "bootstrapResolver", "filterImage", "PutImage", "newProtoencodingMarshaler", "newJSONMarshaler", "newYAMLMarshaler":
	default:
		fmt.Printf("VERIF-REPLAY no harness for %q\n", fn)
		return
	}
	images, err := c11fImages()
	if err != nil {
		fmt.Printf("VERIF-REPLAY %s: harness setup failed: %v\n", fn, err)
		return
	}
	switch fn {
	case "getImageForMessageRef", "bootstrapResolver":
		r.familyRead(ctx, images)
	case "filterImage":
		r.familyFilter(images)
	case "PutImage":
		r.familyPut(ctx, images)
	case "newProtoencodingMarshaler", "newJSONMarshaler", "newYAMLMarshaler":
		r.familyMarshaler(ctx, images)
	}
	label := ""
	if i := strings.LastIndex(obligation, "["); i >= 0 {
		label = strings.TrimSuffix(obligation[i+1:], "]")
		if j := strings.Index(label, "."); j >= 0 && strings.Contains(obligation, "#inv-") {
			label = label[j+1:]
		}
	}
	sort.SliceStable(r.failures, func(a, b int) bool {
		ma := label != "" && strings.Contains(" "+r.failures[a].tag+" ", " "+label+" ")
		mb := label != "" && strings.Contains(" "+r.failures[b].tag+" ", " "+label+" ")
		return ma && !mb
	})
	count := 0
	for _, f := range r.failures {
		if count >= 5 {
			break
		}
		fmt.Printf("VERIF-REPLAY FAILING-INPUT %s\n", f.text)
		count++
	}
	fmt.Printf("VERIF-REPLAY %s: checked %d inputs, %d deviations from the documented behaviour\n", fn, r.checked, len(r.failures))
}
