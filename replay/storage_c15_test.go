package storage

// Replay harness for C15 obligations of package storage (injected by gocv with
// `go test -overlay`; never written into /repo). For the function named in
// VERIF_REPLAY_FUNC it injects a failure at the k-th I/O sink (k = 0,1,2,...)
// and reports every k for which the real function returns a nil error although
// a sink reported a failure.
//
// (ca-R4, vr4*) Before that, for the helper functions of util.go / copy.go / limit.go / bucket.go the real function is run
// against a RECORDING bucket (every Get/Stat/Walk/Put with its arguments and decoded put options, the bytes written, the
// external/local paths set, reads opened/closed; selected calls can be made to fail with a marker error) and compared with
// the documented behaviour:
//   - Exists: (true, nil) for an object, (false, nil) for a not-exist error, any other Stat error is returned;
//   - IsEmpty: true exactly when no object is under the prefix, the walk stops at the first object, a walk error is returned;
//   - AllPaths / AllObjectInfos: exactly the objects under the prefix, sorted by path, whatever the walk order; errors kept;
//   - WalkReadObjects: walks the GIVEN prefix of the given bucket, hands out each object's bytes, closes every object;
//   - ReadPath / PutPath / ForReadObject / ForWriteObject / CopyReader: exact path, exact bytes, options forwarded, closed once;
//   - Copy / CopyPath / CopyReadObject / copy*: Get exactly the source path, Put exactly the destination path (the object's
//     Path(), never its external path), atomic put option iff CopyWithAtomic, external/local paths set iff
//     CopyWithExternalAndLocalPaths, bytes equal; the two copy options set exactly their own flag;
//   - PutWithAtomic / PutWithSuggestedChunkSize / newPutOptions: what a bucket decodes from the option list;
//   - LimitWriteBucket: all write sequences over sizes {0,1,3,5} up to length 3 on two objects under limits {-5,0,1,4,10}:
//     a write is accepted exactly when the running total stays within max(limit,0); a refused write returns a
//     write-limit error and NOTHING of it reaches the underlying bucket; put options are forwarded.

import (
	"bytes"
	"context"
	"errors"
	"fmt"
	"io"
	"io/fs"
	"os"
	"path"
	"sort"
	"strings"
	"sync"
	"testing"
)

type vfFault struct {
	mu     sync.Mutex
	failAt int
	n      int
	fired  string
}

func (f *vfFault) hit(what string) error {
	f.mu.Lock()
	defer f.mu.Unlock()
	k := f.n
	f.n++
	if k == f.failAt {
		f.fired = fmt.Sprintf("sink #%d (%s) fails", k, what)
		return errors.New("injected failure at " + what)
	}
	return nil
}

type vfBucket struct {
	f     *vfFault
	files map[string]string
}

type vfInfo struct{ path string }

func (i vfInfo) Path() string         { return i.path }
func (i vfInfo) ExternalPath() string { return i.path }
func (i vfInfo) LocalPath() string    { return "" }

type vfReadObj struct {
	vfInfo
	r *strings.Reader
	f *vfFault
}

func (o *vfReadObj) Read(p []byte) (int, error) {
	if err := o.f.hit("Read " + o.path); err != nil {
		return 0, err
	}
	return o.r.Read(p)
}
func (o *vfReadObj) Close() error { return o.f.hit("ReadObjectCloser.Close " + o.path) }

type vfWriteObj struct {
	path string
	f    *vfFault
}

func (o *vfWriteObj) Write(p []byte) (int, error) {
	if err := o.f.hit("Write " + o.path); err != nil {
		return 0, err
	}
	return len(p), nil
}
func (o *vfWriteObj) Close() error                 { return o.f.hit("WriteObjectCloser.Close " + o.path) }
func (o *vfWriteObj) SetExternalPath(string) error { return o.f.hit("SetExternalPath " + o.path) }
func (o *vfWriteObj) SetLocalPath(string) error    { return o.f.hit("SetLocalPath " + o.path) }

func (b *vfBucket) Get(ctx context.Context, path string) (ReadObjectCloser, error) {
	if err := b.f.hit("Get " + path); err != nil {
		return nil, err
	}
	c, ok := b.files[path]
	if !ok {
		return nil, &os.PathError{Op: "get", Path: path, Err: os.ErrNotExist}
	}
	return &vfReadObj{vfInfo{path}, strings.NewReader(c), b.f}, nil
}
func (b *vfBucket) Stat(ctx context.Context, path string) (ObjectInfo, error) {
	return vfInfo{path}, nil
}
func (b *vfBucket) Walk(ctx context.Context, prefix string, f func(ObjectInfo) error) error {
	for _, p := range []string{"a.txt", "b/c.txt"} {
		if _, ok := b.files[p]; ok {
			if err := f(vfInfo{p}); err != nil {
				return err
			}
		}
	}
	return nil
}
func (b *vfBucket) Put(ctx context.Context, path string, _ ...PutOption) (WriteObjectCloser, error) {
	if err := b.f.hit("Put " + path); err != nil {
		return nil, err
	}
	return &vfWriteObj{path, b.f}, nil
}
func (b *vfBucket) Delete(_ context.Context, p string) error    { return b.f.hit("Delete " + p) }
func (b *vfBucket) DeleteAll(_ context.Context, p string) error { return b.f.hit("DeleteAll " + p) }
func (b *vfBucket) SetExternalAndLocalPathsSupported() bool     { return true }

// The same harness serves the C13 / C14 obligations of these helper functions (registered per property).
func TestVerifReplayC13(t *testing.T) { TestVerifReplayC15(t) }
func TestVerifReplayC14(t *testing.T) { TestVerifReplayC15(t) }

func TestVerifReplayC15(t *testing.T) {
	fn := os.Getenv("VERIF_REPLAY_FUNC")
	ctx := context.Background()
	ops := map[string]func(b *vfBucket) error{
		"copyPath": func(b *vfBucket) error { return copyPath(ctx, b, "a.txt", b, "x.txt", true, false) },
		"CopyPath": func(b *vfBucket) error {
			return CopyPath(ctx, b, "a.txt", b, "x.txt", CopyWithExternalAndLocalPaths())
		},
		"copyReadObject": func(b *vfBucket) error {
			return copyReadObject(ctx, &vfReadObj{vfInfo{"a.txt"}, strings.NewReader("x"), b.f}, b, "x.txt", true, true)
		},
		"CopyReadObject": func(b *vfBucket) error {
			return CopyReadObject(ctx, b, &vfReadObj{vfInfo{"a.txt"}, strings.NewReader("x"), b.f}, CopyWithExternalAndLocalPaths())
		},
		"CopyReader": func(b *vfBucket) error { return CopyReader(ctx, b, strings.NewReader("data"), "x.txt") },
		"Copy":       func(b *vfBucket) error { _, err := Copy(ctx, b, b); return err },
		"copyPaths":  func(b *vfBucket) error { _, err := copyPaths(ctx, b, b, true, false); return err },
		"PutPath":    func(b *vfBucket) error { return PutPath(ctx, b, "x.txt", []byte("data")) },
		"ReadPath":   func(b *vfBucket) error { _, err := ReadPath(ctx, b, "a.txt"); return err },
		"ForWriteObject": func(b *vfBucket) error {
			return ForWriteObject(ctx, b, "x.txt", func(w WriteObject) error { _, err := w.Write([]byte("d")); return err })
		},
		"ForReadObject": func(b *vfBucket) error {
			return ForReadObject(ctx, b, "a.txt", func(r ReadObject) error { _, err := io.ReadAll(r); return err })
		},
		"WalkReadObjects": func(b *vfBucket) error {
			return WalkReadObjects(ctx, b, "", func(r ReadObject) error { _, err := io.ReadAll(r); return err })
		},
		"AllPaths": func(b *vfBucket) error { _, err := AllPaths(ctx, b, ""); return err },
	}
	obl := os.Getenv("VERIF_REPLAY_OBLIGATION")
	// forwarding wrappers: a failure of the wrapped bucket must come back through the view
	for recv, wrapped := range map[string]func(b *vfBucket) error{
		"mapWriteBucketCloser.Put": func(b *vfBucket) error {
			return PutPath(ctx, MapWriteBucket(b, MapOnPrefix("m")), "x.txt", []byte("data"))
		},
		"mapWriteBucketCloser.Delete":    func(b *vfBucket) error { return MapWriteBucket(b, MapOnPrefix("m")).Delete(ctx, "x.txt") },
		"mapWriteBucketCloser.DeleteAll": func(b *vfBucket) error { return MapWriteBucket(b, MapOnPrefix("m")).DeleteAll(ctx, "x") },
		"mapReadBucketCloser.Get": func(b *vfBucket) error {
			_, err := ReadPath(ctx, MapReadBucket(b, MapOnPrefix("b")), "c.txt")
			return err
		},
		"filterReadBucketCloser.Get": func(b *vfBucket) error {
			_, err := ReadPath(ctx, FilterReadBucket(b, MatchPathExt(".txt")), "a.txt")
			return err
		},
		"stripReadBucket.Get": func(b *vfBucket) error {
			_, err := ReadPath(ctx, StripReadBucketExternalPaths(b), "a.txt")
			return err
		},
		"limitedWriteBucket.Put": func(b *vfBucket) error { return PutPath(ctx, LimitWriteBucket(b, 100), "x.txt", []byte("data")) },
		"limitedWriteObjectCloser.Write": func(b *vfBucket) error {
			return PutPath(ctx, LimitWriteBucket(b, 100), "x.txt", []byte("data"))
		},
	} {
		if strings.Contains(obl, "storage."+recv+"#") {
			ops[fn] = wrapped
		}
	}
	found := false
	tried, known := vr4Cases(ctx, fn, obl, func(format string, a ...any) {
		found = true
		fmt.Printf("VERIF-REPLAY FAILING-INPUT "+format+"\n", a...)
	})
	op, ok := ops[fn]
	if !ok {
		if !known {
			fmt.Printf("VERIF-REPLAY no harness for %q\n", fn)
		} else if !found {
			fmt.Printf("VERIF-REPLAY no failing input found for %s (%d inputs against a recording bucket)\n", fn, tried)
		}
		return
	}
	for k := 0; k < 64; k++ {
		f := &vfFault{failAt: k}
		b := &vfBucket{f: f, files: map[string]string{"a.txt": "hello", "b/c.txt": "world"}}
		err := op(b)
		if f.fired == "" {
			break // no more sinks to fail
		}
		if err == nil {
			found = true
			fmt.Printf("VERIF-REPLAY FAILING-INPUT %s: %s, yet the call returned a nil error\n", fn, f.fired)
		}
	}
	if !found {
		fmt.Printf("VERIF-REPLAY no failing input found for %s (every injected failure was reported)\n", fn)
	}
}

// ---------------------------------------------------------------------------------------------------------------
// ca-R4: recording bucket and the documented behaviour of the helper functions

type vr4Obj struct{ data, ext, local string }

type vr4PutRec struct {
	path             string
	atomic           bool
	chunk            int
	nopts            int
	data             bytes.Buffer
	ext, local       string
	setExt, setLocal bool
	closed           int
	b                *vr4Bucket
}

func (w *vr4PutRec) Write(p []byte) (int, error) {
	if err := w.b.errs["Write "+w.path]; err != nil {
		return 0, err
	}
	return w.data.Write(p)
}
func (w *vr4PutRec) Close() error {
	w.closed++
	return w.b.errs["WriteClose "+w.path]
}
func (w *vr4PutRec) SetExternalPath(p string) error { w.ext, w.setExt = p, true; return nil }
func (w *vr4PutRec) SetLocalPath(p string) error    { w.local, w.setLocal = p, true; return nil }

type vr4Bucket struct {
	mu      sync.Mutex // Copy works concurrently
	name    string
	objects map[string]vr4Obj
	order   []string // the order in which Walk hands the objects out (deliberately not sorted)
	errs    map[string]error
	log     []string
	puts    []*vr4PutRec
	opened  int
	closed  int
	visits  int
}

type vr4Read struct {
	vr4Info
	r *strings.Reader
	b *vr4Bucket
}

type vr4Info struct{ path, ext, local string }

func (i vr4Info) Path() string         { return i.path }
func (i vr4Info) ExternalPath() string { return i.ext }
func (i vr4Info) LocalPath() string    { return i.local }

func (r *vr4Read) Read(p []byte) (int, error) { return r.r.Read(p) }
func (r *vr4Read) Close() error {
	r.b.mu.Lock()
	defer r.b.mu.Unlock()
	r.b.closed++
	return nil
}

func vr4New(name string, order ...string) *vr4Bucket {
	b := &vr4Bucket{name: name, objects: map[string]vr4Obj{}, order: order, errs: map[string]error{}}
	for _, p := range order {
		b.objects[p] = vr4Obj{"data of " + p, "/ext/" + name + "/" + p, "/local/" + name + "/" + p}
	}
	return b
}

func (b *vr4Bucket) String() string { return fmt.Sprintf("bucket %s%q", b.name, b.order) }

func (b *vr4Bucket) Get(_ context.Context, p string) (ReadObjectCloser, error) {
	b.mu.Lock()
	defer b.mu.Unlock()
	b.log = append(b.log, "Get "+p)
	if err := b.errs["Get "+p]; err != nil {
		return nil, err
	}
	o, ok := b.objects[p]
	if !ok {
		return nil, &fs.PathError{Op: "read", Path: p, Err: fs.ErrNotExist}
	}
	b.opened++
	return &vr4Read{vr4Info{p, o.ext, o.local}, strings.NewReader(o.data), b}, nil
}

func (b *vr4Bucket) Stat(_ context.Context, p string) (ObjectInfo, error) {
	b.mu.Lock()
	defer b.mu.Unlock()
	b.log = append(b.log, "Stat "+p)
	if err := b.errs["Stat "+p]; err != nil {
		return nil, err
	}
	o, ok := b.objects[p]
	if !ok {
		return nil, &fs.PathError{Op: "stat", Path: p, Err: fs.ErrNotExist}
	}
	return vr4Info{p, o.ext, o.local}, nil
}

func vr4Under(prefix, p string) bool {
	return prefix == "" || prefix == "." || p == prefix || strings.HasPrefix(p, prefix+"/")
}

func (b *vr4Bucket) Walk(_ context.Context, prefix string, f func(ObjectInfo) error) error {
	b.mu.Lock()
	b.log = append(b.log, "Walk "+prefix)
	b.mu.Unlock()
	if err := b.errs["Walk "+prefix]; err != nil {
		return err
	}
	for _, p := range b.order {
		if o, ok := b.objects[p]; ok && vr4Under(prefix, p) {
			b.mu.Lock()
			b.visits++
			b.mu.Unlock()
			if err := f(vr4Info{p, o.ext, o.local}); err != nil {
				return err
			}
		}
	}
	return b.errs["WalkEnd "+prefix]
}

func (b *vr4Bucket) Put(_ context.Context, p string, opts ...PutOption) (WriteObjectCloser, error) {
	b.mu.Lock()
	defer b.mu.Unlock()
	b.log = append(b.log, "Put "+p)
	if err := b.errs["Put "+p]; err != nil {
		return nil, err
	}
	decoded := NewPutOptions(opts)
	rec := &vr4PutRec{path: p, atomic: decoded.Atomic(), chunk: decoded.SuggestedChunkSize(), nopts: len(opts), b: b}
	b.puts = append(b.puts, rec)
	return rec, nil
}
func (b *vr4Bucket) Delete(context.Context, string) error    { return nil }
func (b *vr4Bucket) DeleteAll(context.Context, string) error { return nil }
func (b *vr4Bucket) SetExternalAndLocalPathsSupported() bool { return true }

func (b *vr4Bucket) under(prefix string) []string {
	var out []string
	for p := range b.objects {
		if vr4Under(prefix, p) {
			out = append(out, p)
		}
	}
	sort.Strings(out)
	return out
}

var vr4Marker = errors.New("marker failure of the underlying bucket")

func vr4Cases(ctx context.Context, fn, obl string, report func(string, ...any)) (int, bool) {
	tried := 0
	orders := [][]string{nil, {"a.txt"}, {"b/c.txt", "a.txt", "b/a.txt", "a/z.txt", "a-b/c.txt"}, {"z", "y", "x"}}
	prefixes := []string{"", "a", "b", "zz", "a.txt"}
	checkPut := func(input string, to *vr4Bucket, wantPath, wantData string, wantAtomic, wantPaths bool, src vr4Obj) {
		if len(to.puts) != 1 || to.puts[0].path != wantPath {
			var got []string
			for _, p := range to.puts {
				got = append(got, p.path)
			}
			report("%s: the destination received Put for %q; documented: exactly one Put, for %q", input, got, wantPath)
			return
		}
		p := to.puts[0]
		switch {
		case p.data.String() != wantData:
			report("%s: %q was written to %s; documented: the source bytes %q", input, p.data.String(), wantPath, wantData)
		case p.atomic != wantAtomic:
			report("%s: the destination Put carries atomic=%v (%d options); documented: atomic=%v", input, p.atomic, p.nopts, wantAtomic)
		case p.closed != 1:
			report("%s: the written object was closed %d times; documented: once", input, p.closed)
		case wantPaths && (!p.setExt || !p.setLocal || p.ext != src.ext || p.local != src.local):
			report("%s: external/local path set to %q/%q (set=%v/%v); documented: the source's %q/%q", input, p.ext, p.local, p.setExt, p.setLocal, src.ext, src.local)
		case !wantPaths && (p.setExt || p.setLocal):
			report("%s: external/local path set to %q/%q although CopyWithExternalAndLocalPaths was not given", input, p.ext, p.local)
		}
	}
	switch fn {
	case "Exists":
		for _, order := range orders {
			for _, path := range []string{"a.txt", "b/c.txt", "b", "zz"} {
				for _, fail := range []bool{false, true} {
					tried++
					b := vr4New("B", order...)
					if fail {
						b.errs["Stat "+path] = vr4Marker
					}
					got, err := Exists(ctx, b, path)
					_, present := b.objects[path]
					input := fmt.Sprintf("Exists(%s, %q)", b, path)
					if fail {
						if !errors.Is(err, vr4Marker) || got {
							report("%s where Stat fails with a marker error (not a not-exist error) returns %v, %v; documented: false and that error", input, got, err)
						}
					} else if err != nil || got != present {
						report("%s returns %v, %v; documented %v, nil", input, got, err, present)
					}
				}
			}
		}
	case "IsEmpty":
		for _, order := range orders {
			for _, prefix := range prefixes {
				for _, fail := range []string{"", "Walk ", "WalkEnd "} {
					tried++
					b := vr4New("B", order...)
					if fail != "" {
						b.errs[fail+prefix] = vr4Marker
					}
					got, err := IsEmpty(ctx, b, prefix)
					want := len(b.under(prefix)) == 0
					input := fmt.Sprintf("IsEmpty(%s, %q)", b, prefix)
					switch {
					case fail == "Walk " || (fail == "WalkEnd " && want):
						if !errors.Is(err, vr4Marker) {
							report("%s where the walk fails with a marker error returns %v, %v; documented: that error", input, got, err)
						}
					case err != nil || got != want:
						report("%s returns %v, %v; documented %v, nil (objects under the prefix: %q)", input, got, err, want, b.under(prefix))
					case b.visits > 1:
						report("%s is handed %d objects by the walk; documented: the walk stops at the first object", input, b.visits)
					}
				}
			}
		}
	case "AllPaths", "AllObjectInfos", "allObjectInfos", "sortObjectInfos", "pathToObjectInfo":
		for _, order := range orders {
			for _, prefix := range prefixes {
				for _, fail := range []string{"", "Walk ", "WalkEnd "} {
					tried++
					b := vr4New("B", order...)
					if fail != "" {
						b.errs[fail+prefix] = vr4Marker
					}
					want := b.under(prefix)
					paths, err := AllPaths(ctx, b, prefix)
					infos, err2 := AllObjectInfos(ctx, b, prefix)
					var infoPaths []string
					for _, i := range infos {
						infoPaths = append(infoPaths, i.Path())
						if o := b.objects[i.Path()]; i.ExternalPath() != o.ext || i.LocalPath() != o.local {
							report("AllObjectInfos(%s, %q): %s has external/local %q/%q instead of %q/%q", b, prefix, i.Path(), i.ExternalPath(), i.LocalPath(), o.ext, o.local)
						}
					}
					input := fmt.Sprintf("AllPaths/AllObjectInfos(%s (walk order as listed), %q)", b, prefix)
					if fail != "" {
						if !errors.Is(err, vr4Marker) || !errors.Is(err2, vr4Marker) {
							report("%s where the walk fails with a marker error return %v / %v; documented: that error", input, err, err2)
						}
					} else if err != nil || err2 != nil || fmt.Sprint(paths) != fmt.Sprint(want) || fmt.Sprint(infoPaths) != fmt.Sprint(want) {
						report("%s return %q, %v / %q, %v; documented: the objects under the prefix sorted by path: %q", input, paths, err, infoPaths, err2, want)
					}
					if fail == "" {
						m := pathToObjectInfo(infos)
						if len(m) != len(want) {
							report("pathToObjectInfo(infos of %s under %q) has %d keys; documented %d", b, prefix, len(m), len(want))
						}
						for k, i := range m {
							if i.Path() != k {
								report("pathToObjectInfo(infos of %s under %q): key %q maps to the object %q", b, prefix, k, i.Path())
							}
						}
					}
				}
			}
		}
		tried++
		shuffled := []ObjectInfo{vr4Info{"b", "3", ""}, vr4Info{"a/b", "2", ""}, vr4Info{"a-b", "1", ""}, vr4Info{"a", "0", ""}}
		sortObjectInfos(shuffled)
		if got := fmt.Sprint(shuffled[0].Path(), shuffled[1].Path(), shuffled[2].Path(), shuffled[3].Path()); got != fmt.Sprint("a", "a-b", "a/b", "b") {
			report("sortObjectInfos([b a/b a-b a]) = %s; documented: ascending by path [a a-b a/b b]", got)
		}
	case "WalkReadObjects":
		for _, order := range orders {
			for _, prefix := range prefixes {
				tried++
				b := vr4New("B", order...)
				got := map[string]string{}
				var seen []string
				err := WalkReadObjects(ctx, b, prefix, func(o ReadObject) error {
					data, _ := io.ReadAll(o)
					got[o.Path()] = string(data)
					seen = append(seen, o.Path())
					return nil
				})
				sort.Strings(seen)
				want := b.under(prefix)
				input := fmt.Sprintf("WalkReadObjects(%s, prefix %q)", b, prefix)
				switch {
				case err != nil:
					report("%s fails: %v", input, err)
				case fmt.Sprint(seen) != fmt.Sprint(want):
					report("%s hands out %q (bucket calls: %q); documented: exactly the objects under the given prefix: %q", input, seen, b.log, want)
				case b.opened != b.closed:
					report("%s opened %d objects and closed %d", input, b.opened, b.closed)
				}
				for p, d := range got {
					if d != b.objects[p].data {
						report("%s hands out %q for %s; the object holds %q", input, d, p, b.objects[p].data)
					}
				}
				if len(want) > 0 {
					tried++
					b2 := vr4New("B", order...)
					calls := 0
					err := WalkReadObjects(ctx, b2, prefix, func(ReadObject) error { calls++; return vr4Marker })
					if !errors.Is(err, vr4Marker) || calls != 1 || b2.opened != b2.closed {
						report("%s with a callback that fails on the first object returns %v after %d calls (opened %d, closed %d); documented: that error after one call, the object closed", input, err, calls, b2.opened, b2.closed)
					}
				}
			}
		}
	case "ReadPath", "ForReadObject":
		for _, path := range []string{"a.txt", "b/c.txt", "zz"} {
			tried++
			b := vr4New("B", "b/c.txt", "a.txt")
			data, err := ReadPath(ctx, b, path)
			var data2 []byte
			err2 := ForReadObject(ctx, b, path, func(o ReadObject) error { data2, _ = io.ReadAll(o); return nil })
			o, present := b.objects[path]
			input := fmt.Sprintf("ReadPath/ForReadObject(%s, %q)", b, path)
			switch {
			case !present && (!IsNotExist(err) || !IsNotExist(err2)):
				report("%s return %v / %v; documented: the bucket's not-exist error", input, err, err2)
			case present && (err != nil || err2 != nil || string(data) != o.data || string(data2) != o.data):
				report("%s return %q, %v / %q, %v; the object holds %q", input, data, err, data2, err2, o.data)
			case b.opened != b.closed || fmt.Sprint(b.log) != fmt.Sprint([]string{"Get " + path, "Get " + path}):
				report("%s: bucket calls %q, %d objects opened, %d closed; documented: one Get of exactly that path each, every object closed", input, b.log, b.opened, b.closed)
			}
		}
	case "PutPath", "ForWriteObject", "CopyReader":
		for _, path := range []string{"x.txt", "d/y.txt"} {
			for _, data := range []string{"", "payload"} {
				for _, atomic := range []bool{false, true} {
					var opts []PutOption
					if atomic {
						opts = append(opts, PutWithAtomic())
					}
					tried += 3
					to := vr4New("T")
					err := PutPath(ctx, to, path, []byte(data), opts...)
					input := fmt.Sprintf("PutPath(empty bucket, %q, %q, atomic=%v)", path, data, atomic)
					if err != nil {
						report("%s fails: %v", input, err)
					} else {
						checkPut(input, to, path, data, atomic, false, vr4Obj{})
					}
					to = vr4New("T")
					err = ForWriteObject(ctx, to, path, func(w WriteObject) error { _, err := w.Write([]byte(data)); return err }, opts...)
					input = fmt.Sprintf("ForWriteObject(empty bucket, %q, write %q, atomic=%v)", path, data, atomic)
					if err != nil {
						report("%s fails: %v", input, err)
					} else {
						checkPut(input, to, path, data, atomic, false, vr4Obj{})
					}
					if !atomic {
						to = vr4New("T")
						err = CopyReader(ctx, to, strings.NewReader(data), path)
						input = fmt.Sprintf("CopyReader(empty bucket, reader of %q, %q)", data, path)
						if err != nil {
							report("%s fails: %v", input, err)
						} else {
							checkPut(input, to, path, data, false, false, vr4Obj{})
						}
					}
					to = vr4New("T")
					to.errs["WriteClose "+path] = vr4Marker
					if err := PutPath(ctx, to, path, []byte(data), opts...); !errors.Is(err, vr4Marker) {
						report("PutPath(bucket whose writer fails on Close, %q) returns %v; documented: that error", path, err)
					}
				}
			}
		}
	case "Copy", "CopyPath", "CopyReadObject", "copyPath", "copyPaths", "copyReadObject", "CopyWithAtomic", "CopyWithExternalAndLocalPaths":
		for _, atomic := range []bool{false, true} {
			for _, paths := range []bool{false, true} {
				var opts []CopyOption
				if paths {
					opts = append(opts, CopyWithExternalAndLocalPaths())
				}
				if atomic {
					opts = append(opts, CopyWithAtomic())
				}
				desc := fmt.Sprintf("options{externalAndLocalPaths=%v, atomic=%v}", paths, atomic)
				for _, fromPath := range []string{"a.txt", "b/c.txt"} {
					for _, toPath := range []string{"a.txt", "q/r.txt"} {
						tried += 2
						from, to := vr4New("F", "b/c.txt", "a.txt"), vr4New("T")
						src := from.objects[fromPath]
						input := fmt.Sprintf("CopyPath(%s, %q, empty bucket, %q, %s)", from, fromPath, toPath, desc)
						if err := CopyPath(ctx, from, fromPath, to, toPath, opts...); err != nil {
							report("%s fails: %v (source bucket calls: %q)", input, err, from.log)
						} else if fmt.Sprint(from.log) != fmt.Sprint([]string{"Get " + fromPath}) {
							report("%s: source bucket calls %q; documented: one Get of exactly %q", input, from.log, fromPath)
						} else {
							checkPut(input, to, toPath, src.data, atomic, paths, src)
						}
						from, to = vr4New("F", "b/c.txt", "a.txt"), vr4New("T")
						input = fmt.Sprintf("copyPath(%s, %q, empty bucket, %q, externalAndLocalPaths=%v, atomic=%v)", from, fromPath, toPath, paths, atomic)
						if err := copyPath(ctx, from, fromPath, to, toPath, paths, atomic); err != nil {
							report("%s fails: %v (source bucket calls: %q)", input, err, from.log)
						} else if fmt.Sprint(from.log) != fmt.Sprint([]string{"Get " + fromPath}) || from.opened != from.closed {
							report("%s: source bucket calls %q (opened %d, closed %d); documented: one Get of exactly %q, closed", input, from.log, from.opened, from.closed, fromPath)
						} else {
							checkPut(input, to, toPath, src.data, atomic, paths, src)
						}
					}
					tried += 2
					from, to := vr4New("F", "b/c.txt", "a.txt"), vr4New("T")
					src := from.objects[fromPath]
					obj, _ := from.Get(ctx, fromPath)
					input := fmt.Sprintf("CopyReadObject(empty bucket, object %q with external path %q, %s)", fromPath, src.ext, desc)
					if err := CopyReadObject(ctx, to, obj, opts...); err != nil {
						report("%s fails: %v", input, err)
					} else {
						checkPut(input, to, fromPath, src.data, atomic, paths, src)
					}
					to = vr4New("T")
					obj, _ = from.Get(ctx, fromPath)
					input = fmt.Sprintf("copyReadObject(object %q, empty bucket, \"q/r.txt\", externalAndLocalPaths=%v, atomic=%v)", fromPath, paths, atomic)
					if err := copyReadObject(ctx, obj, to, "q/r.txt", paths, atomic); err != nil {
						report("%s fails: %v", input, err)
					} else {
						checkPut(input, to, "q/r.txt", src.data, atomic, paths, src)
					}
				}
				for _, order := range orders {
					tried++
					from, to := vr4New("F", order...), vr4New("T")
					n, err := Copy(ctx, from, to, opts...)
					input := fmt.Sprintf("Copy(%s, empty bucket, %s)", from, desc)
					got := map[string]*vr4PutRec{}
					for _, p := range to.puts {
						got[p.path] = p
					}
					if err != nil || n != len(order) || len(to.puts) != len(order) {
						report("%s returns %d, %v with %d puts; documented: %d objects copied", input, n, err, len(to.puts), len(order))
						continue
					}
					for _, p := range order {
						src := from.objects[p]
						rec, ok := got[p]
						switch {
						case !ok:
							report("%s: no Put for %q", input, p)
						case rec.data.String() != src.data || rec.closed != 1:
							report("%s: %s received %q, closed %d times; the source holds %q", input, p, rec.data.String(), rec.closed, src.data)
						case rec.atomic != atomic:
							report("%s: the Put of %s carries atomic=%v", input, p, rec.atomic)
						case paths != rec.setExt || paths != rec.setLocal || (paths && (rec.ext != src.ext || rec.local != src.local)):
							report("%s: the Put of %s has external/local paths %q/%q (set=%v/%v); the source has %q/%q", input, p, rec.ext, rec.local, rec.setExt, rec.setLocal, src.ext, src.local)
						}
					}
				}
			}
		}
		tried += 3
		if o := newCopyOptions(); o.atomic || o.externalAndLocalPaths {
			report("newCopyOptions() has a flag set")
		}
		o := newCopyOptions()
		CopyWithAtomic()(o)
		if !o.atomic || o.externalAndLocalPaths {
			report("CopyWithAtomic() applied to fresh options gives atomic=%v externalAndLocalPaths=%v; documented: only atomic", o.atomic, o.externalAndLocalPaths)
		}
		o = newCopyOptions()
		CopyWithExternalAndLocalPaths()(o)
		if o.atomic || !o.externalAndLocalPaths {
			report("CopyWithExternalAndLocalPaths() applied to fresh options gives atomic=%v externalAndLocalPaths=%v; documented: only externalAndLocalPaths", o.atomic, o.externalAndLocalPaths)
		}
	case "PutWithAtomic", "PutWithSuggestedChunkSize", "newPutOptions", "NewPutOptions", "Atomic", "SuggestedChunkSize", "SuggestedDisableChunking":
		type want struct {
			atomic, disable bool
			chunk           int
		}
		for _, c := range []struct {
			desc string
			opts []PutOption
			w    want
		}{
			{"no options", nil, want{}},
			{"PutWithAtomic()", []PutOption{PutWithAtomic()}, want{atomic: true}},
			{"PutWithSuggestedChunkSize(7)", []PutOption{PutWithSuggestedChunkSize(7)}, want{chunk: 7}},
			{"PutWithSuggestedChunkSize(0)", []PutOption{PutWithSuggestedChunkSize(0)}, want{disable: true}},
			{"PutWithSuggestedChunkSize(-1)", []PutOption{PutWithSuggestedChunkSize(-1)}, want{}},
			{"PutWithSuggestedChunkSize(7), PutWithAtomic()", []PutOption{PutWithSuggestedChunkSize(7), PutWithAtomic()}, want{atomic: true, chunk: 7}},
			{"PutWithAtomic(), PutWithSuggestedChunkSize(9)", []PutOption{PutWithAtomic(), PutWithSuggestedChunkSize(9)}, want{atomic: true, chunk: 9}},
		} {
			tried++
			got := NewPutOptions(c.opts)
			if got.Atomic() != c.w.atomic || got.SuggestedChunkSize() != c.w.chunk || got.SuggestedDisableChunking() != c.w.disable {
				report("a bucket given the put options [%s] decodes atomic=%v chunk size=%d disable chunking=%v; documented atomic=%v chunk size=%d disable chunking=%v", c.desc, got.Atomic(), got.SuggestedChunkSize(), got.SuggestedDisableChunking(), c.w.atomic, c.w.chunk, c.w.disable)
			}
		}
	case "LimitWriteBucket", "newLimitedWriteBucket", "newLimitedWriteObjectCloser", "Put", "Write":
		if fn == "Put" && strings.Contains(obl, "mapWriteBucketCloser") {
			// a mapped write view hands the caller's put options to the wrapped bucket, with the mapped path
			for _, c := range []struct {
				desc   string
				opts   []PutOption
				atomic bool
				chunk  int
			}{
				{"no options", nil, false, 0},
				{"PutWithAtomic()", []PutOption{PutWithAtomic()}, true, 0},
				{"PutWithSuggestedChunkSize(7)", []PutOption{PutWithSuggestedChunkSize(7)}, false, 7},
				{"PutWithAtomic(), PutWithSuggestedChunkSize(7)", []PutOption{PutWithAtomic(), PutWithSuggestedChunkSize(7)}, true, 7},
			} {
				for _, prefix := range []string{"m", "m/a"} {
					tried++
					under := vr4New("U")
					input := fmt.Sprintf("MapWriteBucket(recording bucket, MapOnPrefix(%q)).Put(\"d/x.txt\", %s)", prefix, c.desc)
					w, err := MapWriteBucket(under, MapOnPrefix(prefix)).Put(ctx, "d/x.txt", c.opts...)
					if err != nil {
						report("%s fails: %v", input, err)
						continue
					}
					_, _ = w.Write([]byte("payload"))
					_ = w.Close()
					if len(under.puts) != 1 || under.puts[0].path != prefix+"/d/x.txt" || under.puts[0].data.String() != "payload" {
						report("%s: the wrapped bucket received %q; documented: one Put of %s/d/x.txt with the payload", input, under.log, prefix)
					} else if rec := under.puts[0]; rec.atomic != c.atomic || rec.chunk != c.chunk || rec.nopts != len(c.opts) {
						report("%s: the wrapped bucket's Put received %d options decoding to atomic=%v chunk size=%d; documented: the caller's options are forwarded (atomic=%v chunk size=%d)", input, rec.nopts, rec.atomic, rec.chunk, c.atomic, c.chunk)
					}
				}
			}
			return tried, true
		}
		if (fn == "Put" || fn == "Write") && !strings.Contains(obl, "limited") {
			return 0, false
		}
		sizes := []int{0, 1, 3, 5}
		type step struct {
			obj  int
			size int
		}
		var seqs [][]step
		for _, a := range sizes {
			seqs = append(seqs, []step{{0, a}})
			for _, b := range sizes {
				for _, ob := range []int{0, 1} {
					seqs = append(seqs, []step{{0, a}, {ob, b}})
					for _, c := range sizes {
						seqs = append(seqs, []step{{0, a}, {ob, b}, {1 - ob, c}})
					}
				}
			}
		}
		sort.SliceStable(seqs, func(i, j int) bool { return len(seqs[i]) < len(seqs[j]) })
		reports := 0
		for _, limit := range []int{-5, 0, 1, 4, 10} {
			for _, atomic := range []bool{false, true} {
				for _, seq := range seqs {
					if reports >= 4 {
						break
					}
					tried++
					under := vr4New("U")
					limited := LimitWriteBucket(under, limit)
					var opts []PutOption
					if atomic {
						opts = append(opts, PutWithAtomic(), PutWithSuggestedChunkSize(7))
					}
					names := []string{"o0", "o1"}
					var ws [2]WriteObjectCloser
					var wantData [2]string
					total := 0
					max := limit
					if max < 0 {
						max = 0
					}
					var trace []string
					ok := true
					for _, st := range seq {
						if ws[st.obj] == nil {
							w, err := limited.Put(ctx, names[st.obj], opts...)
							if err != nil {
								report("LimitWriteBucket(recording bucket, %d).Put(%q) fails: %v", limit, names[st.obj], err)
								ok = false
								break
							}
							ws[st.obj] = w
						}
						chunk := strings.Repeat("x", st.size)
						trace = append(trace, fmt.Sprintf("write %d bytes to %s", st.size, names[st.obj]))
						n, err := ws[st.obj].Write([]byte(chunk))
						accept := total+st.size <= max
						if accept {
							total += st.size
							wantData[st.obj] += chunk
						}
						input := fmt.Sprintf("LimitWriteBucket(recording bucket, limit %d): %s", limit, strings.Join(trace, ", "))
						switch {
						case accept && (err != nil || n != st.size):
							report("%s: the last write returns %d, %v although the total stays at %d <= %d", input, n, err, total, max)
							ok = false
						case !accept && (err == nil || !IsWriteLimitReached(err) || n != 0):
							report("%s: the last write returns %d, %v; documented: 0 and a write-limit error (total %d + %d > limit %d; a negative limit counts as 0)", input, n, err, total, st.size, max)
							ok = false
						}
						if ok {
							for i, rec := range under.puts {
								idx := 0
								if rec.path == "o1" {
									idx = 1
								}
								_ = i
								if rec.data.String() != wantData[idx] {
									report("%s: the underlying bucket holds %d bytes for %s; documented %d (a refused write must not reach the underlying bucket)", input, rec.data.Len(), rec.path, len(wantData[idx]))
									ok = false
								}
							}
						}
						if !ok {
							reports++
							break
						}
					}
					if ok {
						for _, rec := range under.puts {
							if rec.atomic != atomic || (atomic && rec.chunk != 7) || rec.nopts != len(opts) {
								report("LimitWriteBucket(recording bucket, limit %d).Put(%q, options atomic=%v chunk=7 x%d): the underlying bucket received %d options, atomic=%v chunk=%d; documented: the options are forwarded", limit, rec.path, atomic, len(opts), rec.nopts, rec.atomic, rec.chunk)
								reports++
								break
							}
						}
					}
				}
			}
		}
	case "getFullPath":
		// mapped views: the root of the view is not an object (every spelling of it is refused before the wrapped bucket is
		// asked), a hostile path is refused, any other path reaches the wrapped bucket as <prefix>/<normalized path>
		for _, prefix := range []string{"m", "m/a"} {
			for _, in := range []string{".", "", "./", "./.", "a/..", "a/../.", "x.txt", "./x.txt", "d//y.txt", "d/q/../y.txt", "..", "../x", "a/../../x", "/x", "d/../../../m/x"} {
				tried++
				clean := pathClean(in)
				hostile := strings.HasPrefix(in, "/") || clean == ".." || strings.HasPrefix(clean, "../")
				wantFull := ""
				if !hostile && clean != "." {
					wantFull = prefix + "/" + clean
				}
				for _, op := range []string{"Put", "Delete", "Get", "Stat"} {
					under := vr4New("U", prefix+"/x.txt", prefix+"/d/y.txt")
					var err error
					switch op {
					case "Put":
						var w WriteObjectCloser
						if w, err = MapWriteBucket(under, MapOnPrefix(prefix)).Put(ctx, in); err == nil {
							_ = w.Close()
						}
					case "Delete":
						err = MapWriteBucket(&vr4DeleteRec{under}, MapOnPrefix(prefix)).Delete(ctx, in)
					case "Get":
						var r ReadObjectCloser
						if r, err = MapReadBucket(under, MapOnPrefix(prefix)).Get(ctx, in); err == nil {
							_ = r.Close()
						}
					case "Stat":
						_, err = MapReadBucket(under, MapOnPrefix(prefix)).Stat(ctx, in)
					}
					input := fmt.Sprintf("Map%sBucket(recording bucket, MapOnPrefix(%q)).%s(%q)", map[bool]string{true: "Write", false: "Read"}[op == "Put" || op == "Delete"], prefix, op, in)
					switch {
					case wantFull == "" && (err == nil || len(under.log) != 0):
						report("%s returns %v and the wrapped bucket received %q; documented: %s is refused and the wrapped bucket is not asked", input, err, under.log, map[bool]string{true: "a path that leaves the view", false: "the root of the view (it is not an object)"}[hostile])
					case wantFull != "" && fmt.Sprint(under.log) != fmt.Sprint([]string{op + " " + wantFull}):
						report("%s (returned %v): the wrapped bucket received %q; documented: exactly %s %s", input, err, under.log, op, wantFull)
					}
				}
			}
		}
	case "Close", "SetExternalAndLocalPathsSupported", "SetExternalPath", "SetLocalPath", "isPutOptions",
		"NopReadBucketCloser", "NopWriteBucketCloser", "NopReadWriteBucketCloser", "MapReadBucketCloser", "MapWriteBucketCloser", "MapReadWriteBucketCloser", "FilterReadBucketCloser":
		// closing a view closes the wrapped closer exactly once and returns its result; the Nop closers and the plain
		// (non-closer) views close nothing and cannot fail; a mapped write view never accepts external / local paths
		for _, closeErr := range []error{nil, vr4Marker} {
			for _, c := range []struct {
				desc       string
				wrap       func(c *vr4CloserBucket) io.Closer
				wantCloses int
			}{
				{"MapReadBucketCloser(closer, MapOnPrefix(\"a\"))", func(c *vr4CloserBucket) io.Closer { return MapReadBucketCloser(c, MapOnPrefix("a")) }, 1},
				{"MapReadBucketCloser(closer) without mappers", func(c *vr4CloserBucket) io.Closer { return MapReadBucketCloser(c) }, 1},
				{"MapWriteBucketCloser(closer, MapOnPrefix(\"a\"))", func(c *vr4CloserBucket) io.Closer { return MapWriteBucketCloser(c, MapOnPrefix("a")) }, 1},
				{"MapWriteBucketCloser(closer) without mappers", func(c *vr4CloserBucket) io.Closer { return MapWriteBucketCloser(c) }, 1},
				{"MapReadWriteBucketCloser(closer, MapOnPrefix(\"a\"))", func(c *vr4CloserBucket) io.Closer { return MapReadWriteBucketCloser(c, MapOnPrefix("a")) }, 1},
				{"MapReadWriteBucketCloser(closer) without mappers", func(c *vr4CloserBucket) io.Closer { return MapReadWriteBucketCloser(c) }, 1},
				{"FilterReadBucketCloser(closer, MatchPathExt(\".txt\"))", func(c *vr4CloserBucket) io.Closer { return FilterReadBucketCloser(c, MatchPathExt(".txt")) }, 1},
				{"FilterReadBucketCloser(closer) without matchers", func(c *vr4CloserBucket) io.Closer { return FilterReadBucketCloser(c) }, 1},
				{"NopReadBucketCloser(bucket)", func(c *vr4CloserBucket) io.Closer { return NopReadBucketCloser(c) }, 0},
				{"NopWriteBucketCloser(bucket)", func(c *vr4CloserBucket) io.Closer { return NopWriteBucketCloser(c) }, 0},
				{"NopReadWriteBucketCloser(bucket)", func(c *vr4CloserBucket) io.Closer { return NopReadWriteBucketCloser(c) }, 0},
				{"the plain view MapReadBucket(bucket, MapOnPrefix(\"a\"))", func(c *vr4CloserBucket) io.Closer { return MapReadBucket(c, MapOnPrefix("a")).(*mapReadBucketCloser) }, 0},
				{"the plain view MapWriteBucket(bucket, MapOnPrefix(\"a\"))", func(c *vr4CloserBucket) io.Closer { return MapWriteBucket(c, MapOnPrefix("a")).(*mapWriteBucketCloser) }, 0},
				{"the plain view MapReadWriteBucket(bucket, MapOnPrefix(\"a\"))", func(c *vr4CloserBucket) io.Closer {
					return MapReadWriteBucket(c, MapOnPrefix("a")).(compositeReadWriteBucketCloser)
				}, 0},
				{"the plain view FilterReadBucket(bucket, MatchPathExt(\".txt\"))", func(c *vr4CloserBucket) io.Closer {
					return FilterReadBucket(c, MatchPathExt(".txt")).(*filterReadBucketCloser)
				}, 0},
			} {
				tried++
				under := &vr4CloserBucket{vr4Bucket: vr4New("U", "a/b.txt", "c.txt"), closeErr: closeErr}
				err := c.wrap(under).Close()
				var wantErr error
				if c.wantCloses > 0 {
					wantErr = closeErr
				}
				if under.closes != c.wantCloses || !errors.Is(err, wantErr) || (wantErr == nil && err != nil) {
					report("%s.Close() where the wrapped Close returns %v: returns %v and closed the wrapped bucket %d times; documented: returns %v, %d closes", c.desc, closeErr, err, under.closes, wantErr, c.wantCloses)
				}
			}
		}
		for _, supported := range []bool{false, true} {
			tried++
			under := &vr4CloserBucket{vr4Bucket: vr4New("U"), supported: supported}
			view := MapWriteBucket(under, MapOnPrefix("m"))
			input := fmt.Sprintf("MapWriteBucket(bucket with SetExternalAndLocalPathsSupported()=%v, MapOnPrefix(\"m\"))", supported)
			if view.SetExternalAndLocalPathsSupported() {
				report("%s.SetExternalAndLocalPathsSupported() is true; documented: a mapped write view never accepts external/local paths", input)
			}
			w, err := view.Put(ctx, "x.txt", PutWithAtomic())
			if err != nil {
				report("%s.Put(\"x.txt\") fails: %v", input, err)
				continue
			}
			if err := w.SetExternalPath("/e"); err != ErrSetExternalPathUnsupported {
				report("%s.Put(\"x.txt\").SetExternalPath returns %v; documented ErrSetExternalPathUnsupported", input, err)
			}
			if err := w.SetLocalPath("/l"); err != ErrSetLocalPathUnsupported {
				report("%s.Put(\"x.txt\").SetLocalPath returns %v; documented ErrSetLocalPathUnsupported", input, err)
			}
			_, _ = w.Write([]byte("payload"))
			if err := w.Close(); err != nil {
				report("%s.Put(\"x.txt\"): Close fails: %v", input, err)
			}
			if len(under.puts) != 1 || under.puts[0].path != "m/x.txt" || under.puts[0].data.String() != "payload" || !under.puts[0].atomic || under.puts[0].setExt || under.puts[0].setLocal || under.puts[0].closed != 1 {
				report("%s.Put(\"x.txt\", atomic), Write(\"payload\"), Close: the wrapped bucket saw %d puts (first: %+v); documented: one atomic Put of m/x.txt with the payload, no external/local path, closed once", input, len(under.puts), under.log)
			}
		}
	default:
		return 0, false
	}
	return tried, true
}

// vr4DeleteRec records Delete calls in the log of the wrapped recording bucket.
type vr4DeleteRec struct{ *vr4Bucket }

func (d *vr4DeleteRec) Delete(_ context.Context, p string) error {
	d.log = append(d.log, "Delete "+p)
	return nil
}

func pathClean(p string) string { return path.Clean(p) }

type vr4CloserBucket struct {
	*vr4Bucket
	closeErr  error
	closes    int
	supported bool
}

func (c *vr4CloserBucket) Close() error                            { c.closes++; return c.closeErr }
func (c *vr4CloserBucket) SetExternalAndLocalPathsSupported() bool { return c.supported }
