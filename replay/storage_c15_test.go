package storage

// Replay harness for C15 obligations of package storage (injected by gocv with
// `go test -overlay`; never written into /repo). For the function named in
// VERIF_REPLAY_FUNC it injects a failure at the k-th I/O sink (k = 0,1,2,...)
// and reports every k for which the real function returns a nil error although
// a sink reported a failure.

import (
	"context"
	"errors"
	"fmt"
	"io"
	"os"
	"strings"
	"sync"
	"testing"
)

type vfFault struct {
	mu     sync.Mutex
	failAt int
	n      int
	fired  string
}

func (f *vfFault) hit(what string) error {
	f.mu.Lock()
	defer f.mu.Unlock()
	k := f.n
	f.n++
	if k == f.failAt {
		f.fired = fmt.Sprintf("sink #%d (%s) fails", k, what)
		return errors.New("injected failure at " + what)
	}
	return nil
}

type vfBucket struct {
	f     *vfFault
	files map[string]string
}

type vfInfo struct{ path string }

func (i vfInfo) Path() string         { return i.path }
func (i vfInfo) ExternalPath() string { return i.path }
func (i vfInfo) LocalPath() string    { return "" }

type vfReadObj struct {
	vfInfo
	r *strings.Reader
	f *vfFault
}

func (o *vfReadObj) Read(p []byte) (int, error) {
	if err := o.f.hit("Read " + o.path); err != nil {
		return 0, err
	}
	return o.r.Read(p)
}
func (o *vfReadObj) Close() error { return o.f.hit("ReadObjectCloser.Close " + o.path) }

type vfWriteObj struct {
	path string
	f    *vfFault
}

func (o *vfWriteObj) Write(p []byte) (int, error) {
	if err := o.f.hit("Write " + o.path); err != nil {
		return 0, err
	}
	return len(p), nil
}
func (o *vfWriteObj) Close() error                  { return o.f.hit("WriteObjectCloser.Close " + o.path) }
func (o *vfWriteObj) SetExternalPath(string) error { return o.f.hit("SetExternalPath " + o.path) }
func (o *vfWriteObj) SetLocalPath(string) error    { return o.f.hit("SetLocalPath " + o.path) }

func (b *vfBucket) Get(ctx context.Context, path string) (ReadObjectCloser, error) {
	if err := b.f.hit("Get " + path); err != nil {
		return nil, err
	}
	c, ok := b.files[path]
	if !ok {
		return nil, &os.PathError{Op: "get", Path: path, Err: os.ErrNotExist}
	}
	return &vfReadObj{vfInfo{path}, strings.NewReader(c), b.f}, nil
}
func (b *vfBucket) Stat(ctx context.Context, path string) (ObjectInfo, error) {
	return vfInfo{path}, nil
}
func (b *vfBucket) Walk(ctx context.Context, prefix string, f func(ObjectInfo) error) error {
	for _, p := range []string{"a.txt", "b/c.txt"} {
		if _, ok := b.files[p]; ok {
			if err := f(vfInfo{p}); err != nil {
				return err
			}
		}
	}
	return nil
}
func (b *vfBucket) Put(ctx context.Context, path string, _ ...PutOption) (WriteObjectCloser, error) {
	if err := b.f.hit("Put " + path); err != nil {
		return nil, err
	}
	return &vfWriteObj{path, b.f}, nil
}
func (b *vfBucket) Delete(context.Context, string) error    { return nil }
func (b *vfBucket) DeleteAll(context.Context, string) error { return nil }
func (b *vfBucket) SetExternalAndLocalPathsSupported() bool { return true }

func TestVerifReplayC15(t *testing.T) {
	fn := os.Getenv("VERIF_REPLAY_FUNC")
	ctx := context.Background()
	ops := map[string]func(b *vfBucket) error{
		"copyPath": func(b *vfBucket) error { return copyPath(ctx, b, "a.txt", b, "x.txt", true, false) },
		"CopyPath": func(b *vfBucket) error {
			return CopyPath(ctx, b, "a.txt", b, "x.txt", CopyWithExternalAndLocalPaths())
		},
		"copyReadObject": func(b *vfBucket) error {
			return copyReadObject(ctx, &vfReadObj{vfInfo{"a.txt"}, strings.NewReader("x"), b.f}, b, "x.txt", true, true)
		},
		"CopyReadObject": func(b *vfBucket) error {
			return CopyReadObject(ctx, b, &vfReadObj{vfInfo{"a.txt"}, strings.NewReader("x"), b.f}, CopyWithExternalAndLocalPaths())
		},
		"CopyReader": func(b *vfBucket) error { return CopyReader(ctx, b, strings.NewReader("data"), "x.txt") },
		"Copy":       func(b *vfBucket) error { _, err := Copy(ctx, b, b); return err },
		"copyPaths":  func(b *vfBucket) error { _, err := copyPaths(ctx, b, b, true, false); return err },
		"PutPath":    func(b *vfBucket) error { return PutPath(ctx, b, "x.txt", []byte("data")) },
		"ReadPath":   func(b *vfBucket) error { _, err := ReadPath(ctx, b, "a.txt"); return err },
		"ForWriteObject": func(b *vfBucket) error {
			return ForWriteObject(ctx, b, "x.txt", func(w WriteObject) error { _, err := w.Write([]byte("d")); return err })
		},
		"ForReadObject": func(b *vfBucket) error {
			return ForReadObject(ctx, b, "a.txt", func(r ReadObject) error { _, err := io.ReadAll(r); return err })
		},
		"WalkReadObjects": func(b *vfBucket) error {
			return WalkReadObjects(ctx, b, "", func(r ReadObject) error { _, err := io.ReadAll(r); return err })
		},
		"AllPaths": func(b *vfBucket) error { _, err := AllPaths(ctx, b, ""); return err },
	}
	op, ok := ops[fn]
	if !ok {
		fmt.Printf("VERIF-REPLAY no harness for %q\n", fn)
		return
	}
	found := false
	for k := 0; k < 64; k++ {
		f := &vfFault{failAt: k}
		b := &vfBucket{f: f, files: map[string]string{"a.txt": "hello", "b/c.txt": "world"}}
		err := op(b)
		if f.fired == "" {
			break // no more sinks to fail
		}
		if err == nil {
			found = true
			fmt.Printf("VERIF-REPLAY FAILING-INPUT %s: %s, yet the call returned a nil error\n", fn, f.fired)
		}
	}
	if !found {
		fmt.Printf("VERIF-REPLAY no failing input found for %s (every injected failure was reported)\n", fn)
	}
}
