package bufprotopluginexec

// Replay / bounded contract run for the C17 obligations of package bufprotopluginexec written by r4e (injected with
// go test -overlay, never written into /repo). One harness per function family, chosen by VERIF_REPLAY_FUNC:
//   - the version predicates: every version major 0..25 x minor 0..25 x suffix {"", "buf", "rc1"} against the
//     documented thresholds (3.12-3.14 experimental flag, optional from 3.12, kotlin from 3.17, rust from 4.23,
//     js 3.0-3.20, "buf" suffix supports everything and never needs the flag);
//   - versionString / parseVersionForCLIVersion: the documented examples of version_test.go plus an independent
//     reference parser over a small alphabet of version texts;
//   - NewHandler / NewBinaryHandler / unsafeLookPath: a scratch $PATH with / without protoc-gen-NAME and protoc,
//     with / without the plugin path and protoc path options, against the documented search order;
//   - protocGenSwiftStderrWriteCloser: texts with 0..3 warnings in several positions against strings.ReplaceAll;
//   - isTooManyFilesError / handlePotentialTooManyFilesError: a table of error chains.

import (
	"bytes"
	"errors"
	"fmt"
	"io"
	"log/slog"
	"os"
	"path/filepath"
	"strconv"
	"strings"
	"testing"

	"github.com/bufbuild/buf/private/bufpkg/bufconfig"
	"github.com/bufbuild/buf/private/pkg/storage/storageos"
	"google.golang.org/protobuf/types/pluginpb"
)

type r4eReport struct {
	fn           string
	found, tried int
}

func (r *r4eReport) fail(format string, args ...any) {
	if r.found < 4 {
		fmt.Printf("VERIF-REPLAY FAILING-INPUT "+format+"\n", args...)
	}
	r.found++
}

func (r *r4eReport) done() {
	if r.found == 0 {
		fmt.Printf("VERIF-REPLAY no failing input found for %s (%d inputs)\n", r.fn, r.tried)
	} else {
		fmt.Printf("VERIF-REPLAY %d failing inputs in total for %s (%d tried)\n", r.found, r.fn, r.tried)
	}
}

func TestVerifReplayC17R4e(t *testing.T) {
	fn := os.Getenv("VERIF_REPLAY_FUNC")
	obl := os.Getenv("VERIF_REPLAY_OBLIGATION")
	rep := &r4eReport{fn: fn}
	switch {
	case strings.HasPrefix(fn, "get") && strings.Contains(obl, "#post[threshold]"):
		r4eVersionPredicates(rep, fn)
	case fn == "versionString" || fn == "newVersion":
		r4eVersionString(rep)
	case fn == "parseVersionForCLIVersion":
		r4eParseVersion(rep)
	case fn == "NewHandler" || fn == "NewBinaryHandler" || fn == "unsafeLookPath":
		r4eNewHandler(t, rep)
	case strings.Contains(obl, "protocGenSwiftStderrWriteCloser") || fn == "newStderrWriteCloser":
		r4eSwift(rep)
	case fn == "isTooManyFilesError" || fn == "handlePotentialTooManyFilesError":
		r4eTooManyFiles(rep)
	default:
		fmt.Printf("VERIF-REPLAY no harness for %q\n", fn)
		return
	}
	rep.done()
}

func r4eVersionPredicates(rep *r4eReport, fn string) {
	type pred struct {
		f      func(*pluginpb.Version) bool
		oracle func(major, minor int32, buf bool) bool
	}
	atLeast := func(M, m int32) func(int32, int32, bool) bool {
		return func(major, minor int32, buf bool) bool {
			return buf || major > M || (major == M && minor >= m)
		}
	}
	preds := map[string]pred{
		"getSetExperimentalAllowProto3OptionalFlag": {getSetExperimentalAllowProto3OptionalFlag, func(major, minor int32, buf bool) bool {
			return !buf && major == 3 && minor >= 12 && minor <= 14
		}},
		"getFeatureProto3OptionalSupported": {getFeatureProto3OptionalSupported, atLeast(3, 12)},
		"getKotlinSupportedAsBuiltin":       {getKotlinSupportedAsBuiltin, atLeast(3, 17)},
		"getRustSupportedAsBuiltin":         {getRustSupportedAsBuiltin, atLeast(4, 23)},
		"getJSSupportedAsBuiltin": {getJSSupportedAsBuiltin, func(major, minor int32, buf bool) bool {
			return buf || (major == 3 && minor <= 20)
		}},
	}
	p, ok := preds[fn]
	if !ok {
		fmt.Printf("VERIF-REPLAY no harness for %q\n", fn)
		return
	}
	for major := int32(0); major <= 25; major++ {
		for minor := int32(0); minor <= 25; minor++ {
			for _, suffix := range []string{"", "buf", "rc1"} {
				rep.tried++
				got := p.f(newVersion(major, minor, 1, suffix))
				want := p.oracle(major, minor, suffix == "buf")
				if got != want {
					rep.fail("%s(version %d.%d.1 suffix %q) = %v, documented threshold says %v", fn, major, minor, suffix, got, want)
				}
			}
		}
	}
}

func r4eVersionString(rep *r4eReport) {
	for major := int32(0); major <= 22; major++ {
		for _, minor := range []int32{0, 1, 15} {
			for _, patch := range []int32{0, 1} {
				for _, suffix := range []string{"", "buf", "rc-1"} {
					rep.tried++
					want := fmt.Sprintf("%d.%d", major, minor)
					if major <= 3 || patch != 0 {
						want += fmt.Sprintf(".%d", patch)
					}
					if suffix != "" {
						want += "-" + suffix
					}
					if got := versionString(newVersion(major, minor, patch, suffix)); got != want {
						rep.fail("versionString(newVersion(%d, %d, %d, %q)) = %q, documented form is %q", major, minor, patch, suffix, got, want)
					}
				}
			}
		}
	}
}

// reference parser: [libprotoc ]MAJOR.MINOR[.PATCH][-SUFFIX], numbers as strconv.ParseInt(_, 10, 32) reads them
func r4eRefParse(value string) (major, minor, patch int64, suffix string, ok bool) {
	value = strings.TrimPrefix(value, "libprotoc ")
	parts := strings.Split(value, ".")
	if len(parts) != 2 && len(parts) != 3 {
		return 0, 0, 0, "", false
	}
	last := parts[len(parts)-1]
	if i := strings.Index(last, "-"); i >= 0 {
		last, suffix = last[:i], last[i+1:]
	}
	nums := append(append([]string{}, parts[:len(parts)-1]...), last)
	var vals []int64
	for _, n := range nums {
		v, err := strconv.ParseInt(n, 10, 32)
		if err != nil {
			return 0, 0, 0, "", false
		}
		vals = append(vals, v)
	}
	if len(vals) == 2 {
		return vals[0], vals[1], 0, suffix, true
	}
	return vals[0], vals[1], vals[2], suffix, true
}

func r4eParseVersion(rep *r4eReport) {
	var inputs []string
	for _, prefix := range []string{"", "libprotoc ", "libprotoc"} {
		for _, body := range []string{"3.14.0", "3.14", "21.1", "3", "3.14.0.1", "3.x.0", "x.1", "3.14.z", "", "3..1", "4.23.7"} {
			for _, suffix := range []string{"", "-rc1", "-rc-1", "-buf", "-"} {
				inputs = append(inputs, prefix+body+suffix)
			}
		}
	}
	for _, in := range inputs {
		rep.tried++
		got, err := parseVersionForCLIVersion(in)
		major, minor, patch, suffix, ok := r4eRefParse(in)
		switch {
		case ok && err != nil:
			rep.fail("parseVersionForCLIVersion(%q) fails (%v), the documented form reads %d.%d.%d suffix %q", in, err, major, minor, patch, suffix)
		case !ok && err == nil:
			rep.fail("parseVersionForCLIVersion(%q) = %v although the text is not MAJOR.MINOR[.PATCH][-SUFFIX]", in, got)
		case !ok && got != nil:
			rep.fail("parseVersionForCLIVersion(%q) returns a version together with an error", in)
		case ok:
			if int64(got.GetMajor()) != major || int64(got.GetMinor()) != minor || int64(got.GetPatch()) != patch || got.GetSuffix() != suffix || (suffix == "") != (got.Suffix == nil) {
				rep.fail("parseVersionForCLIVersion(%q) = %d.%d.%d suffix %q (set: %v), documented reading is %d.%d.%d suffix %q", in, got.GetMajor(), got.GetMinor(), got.GetPatch(), got.GetSuffix(), got.Suffix != nil, major, minor, patch, suffix)
			}
		}
	}
}

func r4eNewHandler(t *testing.T, rep *r4eReport) {
	logger := slog.New(slog.NewTextHandler(io.Discard, nil))
	provider := storageos.NewProvider()
	base := t.TempDir()
	mk := func(dir, name string) string {
		p := filepath.Join(dir, name)
		if err := os.WriteFile(p, []byte("#!/bin/sh\n"), 0o755); err != nil {
			t.Fatal(err)
		}
		return p
	}
	for _, haveGen := range []bool{false, true} {
		for _, haveProtoc := range []bool{false, true} {
			pathDir, err := os.MkdirTemp(base, "path")
			if err != nil {
				t.Fatal(err)
			}
			otherDir, _ := os.MkdirTemp(base, "other")
			explicit := mk(otherDir, "my-plugin")
			myProtoc := mk(otherDir, "my-protoc")
			for _, name := range []string{"java", "foo"} {
				if haveGen {
					mk(pathDir, "protoc-gen-"+name)
				}
			}
			if haveProtoc {
				mk(pathDir, "protoc")
			}
			t.Setenv("PATH", pathDir)
			for _, name := range []string{"java", "foo"} {
				_, builtin := bufconfig.ProtocProxyPluginNames[name]
				for _, pluginPath := range [][]string{nil, {explicit, "--a", "b"}, {filepath.Join(otherDir, "missing")}} {
					for _, protocPath := range [][]string{nil, {myProtoc, "--x"}, {filepath.Join(otherDir, "no-protoc")}} {
						rep.tried++
						var opts []HandlerOption
						if pluginPath != nil {
							opts = append(opts, HandlerWithPluginPath(pluginPath...))
						}
						if protocPath != nil {
							opts = append(opts, HandlerWithProtocPath(protocPath...))
						}
						h, err := NewHandler(logger, provider, name, opts...)
						desc := fmt.Sprintf("NewHandler(%q, plugin path %q, protoc path %q) with $PATH holding protoc-gen-%s: %v, protoc: %v", name, r4eShort(pluginPath, otherDir), r4eShort(protocPath, otherDir), name, haveGen, haveProtoc)
						var want string
						switch {
						case len(pluginPath) > 0 && pluginPath[0] == explicit:
							want = "binary " + explicit + " [--a b]"
						case len(pluginPath) > 0:
							want = "error"
						case haveGen:
							want = "binary " + filepath.Join(pathDir, "protoc-gen-"+name) + " []"
						case builtin && len(protocPath) > 0 && protocPath[0] == myProtoc:
							want = "protoc " + myProtoc + " [--x] " + name
						case builtin && len(protocPath) > 0:
							want = "error"
						case builtin && haveProtoc:
							want = "protoc " + filepath.Join(pathDir, "protoc") + " [] " + name
						default:
							want = "error"
						}
						got := "error"
						if err == nil {
							switch hh := h.(type) {
							case *binaryHandler:
								got = fmt.Sprintf("binary %s %v", hh.pluginPath, hh.pluginArgs)
							case *protocProxyHandler:
								got = fmt.Sprintf("protoc %s %v %s", hh.protocPath, hh.protocExtraArgs, hh.pluginName)
							default:
								got = fmt.Sprintf("%T", h)
							}
						} else if h != nil {
							got = "error with a handler"
						}
						if got != want {
							rep.fail("%s = %s, the documented search order gives %s", desc, strings.ReplaceAll(got, base, "$TMP"), strings.ReplaceAll(want, base, "$TMP"))
						}
					}
				}
			}
		}
	}
}

func r4eShort(p []string, dir string) []string {
	var r []string
	for _, s := range p {
		r = append(r, strings.Replace(s, dir, "$DIR", 1))
	}
	return r
}

type r4eWriter struct {
	buf   bytes.Buffer
	calls int
	short bool
	err   error
}

func (w *r4eWriter) Write(p []byte) (int, error) {
	w.calls++
	if w.err != nil {
		return 0, w.err
	}
	if w.short && len(p) > 0 {
		w.buf.Write(p[:len(p)-1])
		return len(p) - 1, nil
	}
	return w.buf.Write(p)
}

func r4eSwift(rep *r4eReport) {
	const warning = "protoc-gen-swift: WARNING: unknown version of protoc, use 3.2.x or later to ensure JSON support is correct.\n"
	texts := []string{"", warning, warning + warning, "a\n" + warning, warning + "b\n", "a\n" + warning + "b\n" + warning + "c", "no warning here\n", strings.TrimSuffix(warning, "\n"), "x" + warning + warning + "y" + warning}
	for _, text := range texts {
		for _, chunk := range []int{0, 7} {
			for _, mode := range []string{"ok", "short", "err"} {
				rep.tried++
				w := &r4eWriter{short: mode == "short"}
				if mode == "err" {
					w.err = errors.New("boom")
				}
				c := newStderrWriteCloser(w, "/usr/local/bin/protoc-gen-swift")
				if _, isSwift := c.(*protocGenSwiftStderrWriteCloser); !isSwift {
					rep.fail("newStderrWriteCloser(_, \".../protoc-gen-swift\") is a %T, not the filtering closer", c)
					continue
				}
				rest := text
				for len(rest) > 0 {
					n := len(rest)
					if chunk > 0 && chunk < n {
						n = chunk
					}
					if m, err := c.Write([]byte(rest[:n])); err != nil || m != n {
						rep.fail("Write(%q) = %d, %v: the capture must take everything", rest[:n], m, err)
					}
					rest = rest[n:]
				}
				if w.calls != 0 {
					rep.fail("Write forwards to the delegate before Close (text %q)", text)
				}
				err := c.Close()
				want := strings.ReplaceAll(text, warning, "")
				switch {
				case want == "" && (w.calls != 0 || err != nil):
					rep.fail("Close after %q: %d delegate writes, err %v; nothing is left after filtering, so nothing may be written", text, w.calls, err)
				case want != "" && w.calls != 1:
					rep.fail("Close after %q: %d delegate writes, want exactly one", text, w.calls)
				case want != "" && mode == "ok" && (err != nil || w.buf.String() != want):
					rep.fail("Close after %q wrote %q (err %v), the filtered text is %q", text, w.buf.String(), err, want)
				case want != "" && mode != "ok" && err == nil:
					rep.fail("Close after %q returns nil although the delegate write was %s", text, map[string]string{"short": "incomplete", "err": "failing"}[mode])
				}
			}
		}
	}
	for _, p := range []string{"protoc-gen-go", "/x/protoc-gen-swift2", "swift", "/protoc-gen-swift/protoc-gen-java"} {
		rep.tried++
		if _, isSwift := newStderrWriteCloser(io.Discard, p).(*protocGenSwiftStderrWriteCloser); isSwift {
			rep.fail("newStderrWriteCloser(_, %q) filters although the binary is not called protoc-gen-swift", p)
		}
	}
}

func r4eTooManyFiles(rep *r4eReport) {
	tooMany := &os.SyscallError{Syscall: "pipe", Err: errors.New("too many open files")}
	other := &os.SyscallError{Syscall: "pipe", Err: errors.New("broken pipe")}
	cases := []struct {
		name string
		err  error
		want bool
	}{
		{"nil", nil, false},
		{"plain error", errors.New("too many open files"), false},
		{"syscall error: too many open files", tooMany, true},
		{"wrapped syscall error: too many open files", fmt.Errorf("run: %w", tooMany), true},
		{"syscall error: broken pipe", other, false},
		{"syscall error without cause", &os.SyscallError{Syscall: "pipe"}, false},
		{"path error", &os.PathError{Op: "open", Path: "x", Err: errors.New("too many open files")}, false},
	}
	for _, c := range cases {
		rep.tried++
		if got := isTooManyFilesError(c.err); got != c.want {
			rep.fail("isTooManyFilesError(%s) = %v, want %v", c.name, got, c.want)
		}
		got := handlePotentialTooManyFilesError(c.err)
		switch {
		case c.err == nil && got != nil:
			rep.fail("handlePotentialTooManyFilesError(nil) = %v", got)
		case c.err != nil && got == nil:
			rep.fail("handlePotentialTooManyFilesError(%s) = nil: the error is dropped", c.name)
		case !c.want && got != c.err:
			rep.fail("handlePotentialTooManyFilesError(%s) = %v: an unrelated error must be passed through unchanged", c.name, got)
		case c.want && (!errors.Is(got, c.err) || !strings.Contains(got.Error(), "ulimit")):
			rep.fail("handlePotentialTooManyFilesError(%s) = %v: want the original error plus the help text", c.name, got)
		}
	}
}
