package bufimage

// Replay / bounded contract run for the C01 obligations of package bufimage (and of the bufmodule target
// listing and the bufprotocompile diagnostics that feed BuildImage); injected with go test -overlay.
//
// Inputs: small generated workspaces - 2..5 .proto files in one or two modules, every import DAG on up to four
// files (chains, fans, diamonds), plain / unused / public imports, proto3 / proto2 / no syntax line, a
// well-known-type import that the workspace does or does not supply, one or several target files, a non-target
// module; and single planted compile errors.
//
// Oracle (written from the C01 statement, not from build_image.go): the image holds exactly the targets and
// the files reachable from them through import statements, each path once, every file after the files it
// imports, targets non-import and all others import, the no-syntax and unused-import markers exactly where the
// source text has them, the owning module's name/commit, and a descriptor equal to what an independent
// protocompile run produces for the same text. A planted compile error yields no image and one COMPILE
// diagnostic at the planted file:line:column.
//
// Compile step (getBuildResult / buildImage / newFailedBuildResult, see "compile failures and warnings" below):
// workspaces with 0..3 broken files (syntax error, undefined type, unresolvable import, duplicate message) and
// warning-only files; no image and exactly one COMPILE diagnostic per broken file at the planted position,
// warnings never fail a build, a failed result carries nothing but the error, and the image lists the files in
// protoc's order (targets in sorted path order, imports first).

import (
	"context"
	"errors"
	"fmt"
	"io"
	"log/slog"
	"os"
	"sort"
	"strings"
	"testing"

	"github.com/bufbuild/buf/private/bufpkg/bufanalysis"
	"github.com/bufbuild/buf/private/bufpkg/bufmodule"
	"github.com/bufbuild/buf/private/bufpkg/bufparse"
	"github.com/bufbuild/buf/private/gen/data/datawkt"
	"github.com/bufbuild/buf/private/pkg/storage"
	"github.com/bufbuild/buf/private/pkg/storage/storagemem"
	"github.com/bufbuild/protocompile"
	"github.com/bufbuild/protocompile/linker"
	"github.com/bufbuild/protocompile/protoutil"
	"github.com/google/uuid"
	"google.golang.org/protobuf/proto"
	"google.golang.org/protobuf/types/descriptorpb"
)

const (
	c1Used   = 1
	c1Unused = 2
	c1Public = 3

	c1WKTPath = "google/protobuf/timestamp.proto"
)

type c1Imp struct {
	to   int
	kind int
}

type c1File struct {
	path    string
	module  int
	syntax  string // "proto3", "proto2" or "" (no syntax line: proto2 + warning)
	imports []c1Imp
	wkt     bool   // imports google/protobuf/timestamp.proto and uses Timestamp
	src     string // explicit source text (vendored well-known type, planted error)
}

type c1WS struct {
	files   []c1File
	targets []int
}

var c1Paths = []string{"m/c.proto", "a.proto", "m/b.proto", "z/d.proto", "e.proto"}

var c1Logger = slog.New(slog.NewTextHandler(io.Discard, nil))

func c1ModuleName(m int) string { return fmt.Sprintf("buf.build/acme/m%d", m) }

func c1CommitID(m int) uuid.UUID {
	return uuid.MustParse(fmt.Sprintf("00000000-0000-4000-8000-00000000000%d", m+1))
}

// transitive public imports of file j (not j itself)
func (w *c1WS) publicClosure(j int, out map[int]bool) {
	for _, imp := range w.files[j].imports {
		if imp.kind == c1Public && !out[imp.to] {
			out[imp.to] = true
			w.publicClosure(imp.to, out)
		}
	}
}

func (w *c1WS) source(i int) string {
	f := w.files[i]
	if f.src != "" {
		return f.src
	}
	var b strings.Builder
	if f.syntax != "" {
		fmt.Fprintf(&b, "syntax = %q;\n", f.syntax)
	}
	b.WriteString("package p;\n")
	direct := map[int]bool{}
	for _, imp := range f.imports {
		direct[imp.to] = true
	}
	refs := []string{}
	seenRef := map[int]bool{}
	for _, imp := range f.imports {
		if imp.kind == c1Public {
			fmt.Fprintf(&b, "import public %q;\n", w.files[imp.to].path)
		} else {
			fmt.Fprintf(&b, "import %q;\n", w.files[imp.to].path)
		}
		if imp.kind == c1Unused {
			continue
		}
		if !seenRef[imp.to] {
			seenRef[imp.to] = true
			refs = append(refs, fmt.Sprintf("M%d", imp.to))
		}
		// a type that is only visible through the imported file's public imports
		pub := map[int]bool{}
		w.publicClosure(imp.to, pub)
		var ks []int
		for k := range pub {
			ks = append(ks, k)
		}
		sort.Ints(ks)
		for _, k := range ks {
			if !direct[k] && !seenRef[k] {
				seenRef[k] = true
				refs = append(refs, fmt.Sprintf("M%d", k))
			}
		}
	}
	if f.wkt {
		fmt.Fprintf(&b, "import %q;\n", c1WKTPath)
		refs = append(refs, "google.protobuf.Timestamp")
	}
	label := ""
	if f.syntax != "proto3" {
		label = "optional "
	}
	fmt.Fprintf(&b, "message M%d {\n", i)
	for k, r := range refs {
		fmt.Fprintf(&b, "  %s%s f%d = %d;\n", label, r, k+1, k+1)
	}
	b.WriteString("}\n")
	return b.String()
}

func (w *c1WS) describe() string {
	var parts []string
	isT := map[int]bool{}
	for _, t := range w.targets {
		isT[t] = true
	}
	for i, f := range w.files {
		var imps []string
		for _, imp := range f.imports {
			k := map[int]string{c1Used: "import", c1Unused: "import(unused)", c1Public: "import public"}[imp.kind]
			imps = append(imps, k+" "+w.files[imp.to].path)
		}
		if f.wkt {
			imps = append(imps, "import "+c1WKTPath)
		}
		syn := f.syntax
		if syn == "" {
			syn = "no-syntax-line"
		}
		if f.src != "" {
			syn = "custom-source"
		}
		t := ""
		if isT[i] {
			t = ",TARGET"
		}
		parts = append(parts, fmt.Sprintf("%s(module m%d%s,%s)[%s]", f.path, f.module, t, syn, strings.Join(imps, "; ")))
	}
	return "workspace {" + strings.Join(parts, " ") + "}"
}

func (w *c1WS) sources() map[string]string {
	out := map[string]string{}
	for i, f := range w.files {
		out[f.path] = w.source(i)
	}
	return out
}

// moduleReadBucket builds the module set: a module is targeted iff it holds a target file; if only some of its
// files are targets they are passed as target paths (the --path selection).
func (w *c1WS) moduleReadBucket(ctx context.Context) (bufmodule.ModuleReadBucket, error) {
	nmod := 0
	for _, f := range w.files {
		if f.module+1 > nmod {
			nmod = f.module + 1
		}
	}
	isT := map[int]bool{}
	for _, t := range w.targets {
		isT[t] = true
	}
	builder := bufmodule.NewModuleSetBuilder(ctx, c1Logger, bufmodule.NopModuleDataProvider, bufmodule.NopCommitProvider)
	for m := 0; m < nmod; m++ {
		data := map[string][]byte{}
		var targetPaths []string
		all := true
		for i, f := range w.files {
			if f.module != m {
				continue
			}
			data[f.path] = []byte(w.source(i))
			if isT[i] {
				targetPaths = append(targetPaths, f.path)
			} else {
				all = false
			}
		}
		if len(data) == 0 {
			continue
		}
		bucket, err := storagemem.NewReadBucket(data)
		if err != nil {
			return nil, err
		}
		fullName, err := bufparse.ParseFullName(c1ModuleName(m))
		if err != nil {
			return nil, err
		}
		options := []bufmodule.LocalModuleOption{bufmodule.LocalModuleWithFullNameAndCommitID(fullName, c1CommitID(m))}
		if len(targetPaths) > 0 && !all {
			options = append(options, bufmodule.LocalModuleWithTargetPaths(targetPaths, nil))
		}
		builder.AddLocalModule(bucket, fmt.Sprintf("bucket-%d", m), len(targetPaths) > 0, options...)
	}
	moduleSet, err := builder.Build()
	if err != nil {
		return nil, err
	}
	return bufmodule.ModuleSetToModuleReadBucketWithOnlyProtoFiles(moduleSet), nil
}

type c1Failure struct {
	tag  string
	text string
}

type c1Run struct {
	light      bool // skip the independent compilation (large families)
	obligation string
	failures   []c1Failure
	checked    int
}

func (r *c1Run) fail(tag string, format string, a ...any) {
	r.failures = append(r.failures, c1Failure{tag, fmt.Sprintf(format, a...)})
}

// expected closure of the targets under the import statements (paths)
func (w *c1WS) expectedPaths() (map[string]bool, map[string]int) {
	pathToIndex := map[string]int{}
	for i, f := range w.files {
		pathToIndex[f.path] = i
	}
	out := map[string]bool{}
	var visit func(i int)
	visit = func(i int) {
		if out[w.files[i].path] {
			return
		}
		out[w.files[i].path] = true
		for _, imp := range w.files[i].imports {
			visit(imp.to)
		}
		if w.files[i].wkt {
			if j, ok := pathToIndex[c1WKTPath]; ok {
				visit(j)
			} else {
				out[c1WKTPath] = true
			}
		}
	}
	for _, t := range w.targets {
		visit(t)
	}
	return out, pathToIndex
}

// expectedOrder is protoc's output order: depth first from the targets in sorted path order, a file after its
// imports (in the order of the import statements).
func (w *c1WS) expectedOrder() []string {
	pathToIndex := map[string]int{}
	for i, f := range w.files {
		pathToIndex[f.path] = i
	}
	var targets []string
	for _, t := range w.targets {
		targets = append(targets, w.files[t].path)
	}
	sort.Strings(targets)
	seen := map[string]bool{}
	var out []string
	var visit func(p string)
	visit = func(p string) {
		if seen[p] {
			return
		}
		seen[p] = true
		if i, ok := pathToIndex[p]; ok {
			for _, imp := range w.files[i].imports {
				visit(w.files[imp.to].path)
			}
			if w.files[i].wkt {
				visit(c1WKTPath)
			}
		}
		out = append(out, p)
	}
	for _, t := range targets {
		visit(t)
	}
	return out
}

func c1IndependentCompile(ctx context.Context, sources map[string]string, paths []string) (map[string]*descriptorpb.FileDescriptorProto, error) {
	compiler := protocompile.Compiler{
		Resolver:       protocompile.WithStandardImports(&protocompile.SourceResolver{Accessor: protocompile.SourceAccessorFromMap(sources)}),
		SourceInfoMode: protocompile.SourceInfoExtraOptionLocations,
		MaxParallelism: 1,
	}
	files, err := compiler.Compile(ctx, paths...)
	if err != nil {
		return nil, err
	}
	out := map[string]*descriptorpb.FileDescriptorProto{}
	var add func(f linker.File)
	add = func(f linker.File) {
		if _, ok := out[f.Path()]; ok {
			return
		}
		out[f.Path()] = protoutil.ProtoFromFileDescriptor(f)
		for i := 0; i < f.Imports().Len(); i++ {
			if dep := f.FindImportByPath(f.Imports().Get(i).Path()); dep != nil {
				add(dep)
			}
		}
	}
	for _, f := range files {
		add(f)
	}
	return out, nil
}

var c1CompileCache = map[string]map[string]*descriptorpb.FileDescriptorProto{}

func c1PathsOf(files []ImageFile) []string {
	var out []string
	for _, f := range files {
		p := f.Path()
		if f.IsImport() {
			p += "(import)"
		}
		out = append(out, p)
	}
	return out
}

// checkImage compares a built image with the documented content for the workspace.
func (r *c1Run) checkImage(ctx context.Context, w *c1WS, image Image, how string) {
	expected, pathToIndex := w.expectedPaths()
	isTarget := map[string]bool{}
	for _, t := range w.targets {
		isTarget[w.files[t].path] = true
	}
	files := image.Files()
	got := c1PathsOf(files)
	desc := func() string { return fmt.Sprintf("%s %s: image files %v", w.describe(), how, got) }
	position := map[string]int{}
	for k, f := range files {
		if _, dup := position[f.Path()]; dup {
			r.fail("each-path-once unique", "%s - path %q occurs twice", desc(), f.Path())
			return
		}
		position[f.Path()] = k
	}
	for p := range expected {
		if _, ok := position[p]; !ok {
			tag := "imports-first closed ordered newly-seen-done"
			if isTarget[p] {
				tag = "targets-present targets-done"
			}
			r.fail(tag, "%s - %q (a target or a transitive import of a target) is missing", desc(), p)
		}
	}
	for _, f := range files {
		if !expected[f.Path()] {
			r.fail("only-targets-and-their-imports new-are-needed needed", "%s - %q is neither a target nor imported (transitively) by one", desc(), f.Path())
		}
	}
	if how == "BuildImage" {
		var gotOrder []string
		for _, f := range files {
			gotOrder = append(gotOrder, f.Path())
		}
		if want := w.expectedOrder(); len(want) == len(gotOrder) && fmt.Sprint(want) != fmt.Sprint(gotOrder) {
			r.fail("compiler-gets-exactly-the-target-paths compiler-gets-sorted-non-empty-paths input-path-order", "%s - the files are not in protoc's order %v (the targets in sorted path order, each preceded by those of its imports, in import order, that are not listed yet)", desc(), want)
		}
	}
	for k, f := range files {
		for _, dep := range f.FileDescriptorProto().GetDependency() {
			j, ok := position[dep]
			if !ok || j >= k {
				r.fail("imports-first ordered dependencies-first", "%s - %q is not placed after its import %q", desc(), f.Path(), dep)
			}
		}
		if isTarget[f.Path()] && f.IsImport() {
			r.fail("targets-marked-non-import flags", "%s - target %q is marked import", desc(), f.Path())
		}
		if !isTarget[f.Path()] && !f.IsImport() {
			r.fail("others-marked-import flags", "%s - non-target %q is marked non-import", desc(), f.Path())
		}
		i, inWorkspace := pathToIndex[f.Path()]
		if !inWorkspace {
			// built-in well-known type
			if f.FullName() != nil {
				r.fail("module FullName", "%s - built-in %q carries module name %v", desc(), f.Path(), f.FullName())
			}
			if f.IsSyntaxUnspecified() || len(f.UnusedDependencyIndexes()) != 0 {
				r.fail("syntax-unspecified-marker unused", "%s - built-in %q carries markers", desc(), f.Path())
			}
			continue
		}
		wf := w.files[i]
		wantNoSyntax := wf.src == "" && wf.syntax == ""
		if f.IsSyntaxUnspecified() != wantNoSyntax {
			r.fail("syntax-unspecified-marker flags marks-the-file-of-a-no-syntax-warning", "%s - %q IsSyntaxUnspecified()=%v, the source has syntax line: %v", desc(), f.Path(), f.IsSyntaxUnspecified(), !wantNoSyntax)
		}
		// The compiler reports unused imports for the files it is asked to compile (the targets); for a file
		// that is only imported no marker is required, but a marker must still point at an unused import.
		var wantUnused []int32
		for d, imp := range wf.imports {
			if imp.kind == c1Unused {
				wantUnused = append(wantUnused, int32(d))
			}
		}
		if !isTarget[f.Path()] {
			for _, idx := range f.UnusedDependencyIndexes() {
				if int(idx) >= len(wf.imports) || idx < 0 || wf.imports[idx].kind != c1Unused {
					r.fail("unused-dependency-indexes unused-indexes new-file-unused adds-only-the-reported-import", "%s - %q UnusedDependencyIndexes()=%v but only the imports at %v are unused", desc(), f.Path(), f.UnusedDependencyIndexes(), wantUnused)
				}
			}
		} else if fmt.Sprint(f.UnusedDependencyIndexes()) != fmt.Sprint(wantUnused) {
			r.fail("unused-dependency-indexes unused-indexes new-file-unused adds-only-the-reported-import keeps-earlier-reports", "%s - %q UnusedDependencyIndexes()=%v want %v (positions of the imports nothing is used from)", desc(), f.Path(), f.UnusedDependencyIndexes(), wantUnused)
		}
		if f.FullName() == nil || f.FullName().String() != c1ModuleName(wf.module) || f.CommitID() != c1CommitID(wf.module) {
			r.fail("module FullName CommitID", "%s - %q is labelled module %v commit %v, it belongs to %s commit %v", desc(), f.Path(), f.FullName(), f.CommitID(), c1ModuleName(wf.module), c1CommitID(wf.module))
		}
		if f.ExternalPath() != f.Path() {
			r.fail("module ExternalPath known-or-path", "%s - %q has external path %q (in-memory module: the path itself)", desc(), f.Path(), f.ExternalPath())
		}
	}
	if r.light {
		return
	}
	// descriptors: what the compiler produces for the source text
	var paths []string
	for p := range expected {
		paths = append(paths, p)
	}
	sort.Strings(paths)
	sources := w.sources()
	if _, supplied := sources[c1WKTPath]; !supplied && expected[c1WKTPath] {
		// the built-in copy: the embedded source text
		if data, err := storage.ReadPath(ctx, datawkt.ReadBucket, c1WKTPath); err == nil {
			sources[c1WKTPath] = string(data)
		}
	}
	// compile every file of the workspace once per source set (the target choice does not matter here)
	paths = paths[:0]
	key := ""
	for p := range sources {
		paths = append(paths, p)
	}
	sort.Strings(paths)
	for _, p := range paths {
		key += p + "\x00" + sources[p] + "\x00"
	}
	want, ok := c1CompileCache[key]
	if !ok {
		compiled, err := c1IndependentCompile(ctx, sources, paths)
		if err == nil {
			want = compiled
		}
		c1CompileCache[key] = want
	}
	if want == nil {
		return
	}
	for _, f := range files {
		wantProto, ok := want[f.Path()]
		if !ok {
			continue
		}
		if !proto.Equal(wantProto, f.FileDescriptorProto()) {
			r.fail("descriptor", "%s - descriptor of %q differs from what the compiler produces for its source (dependencies %v public %v messages %d; compiler: dependencies %v public %v messages %d)", desc(), f.Path(),
				f.FileDescriptorProto().GetDependency(), f.FileDescriptorProto().GetPublicDependency(), len(f.FileDescriptorProto().GetMessageType()),
				wantProto.GetDependency(), wantProto.GetPublicDependency(), len(wantProto.GetMessageType()))
		}
	}
	// the image as it is written out
	protoImage, err := ImageToProtoImage(image)
	if err != nil {
		r.fail("proto-image", "%s - ImageToProtoImage: %v", desc(), err)
		return
	}
	for k, protoFile := range protoImage.GetFile() {
		if k >= len(files) {
			break
		}
		data, err := proto.Marshal(protoFile)
		if err != nil {
			continue
		}
		back := &descriptorpb.FileDescriptorProto{}
		if err := proto.Unmarshal(data, back); err != nil {
			continue
		}
		back.ProtoReflect().SetUnknown(nil)
		if !proto.Equal(back, files[k].FileDescriptorProto()) {
			r.fail("proto-image descriptor", "%s - the written image file %q differs from the built descriptor (written: dependencies %v public %v; built: dependencies %v public %v)", desc(), files[k].Path(),
				back.GetDependency(), back.GetPublicDependency(), files[k].FileDescriptorProto().GetDependency(), files[k].FileDescriptorProto().GetPublicDependency())
		}
		if protoFile.GetBufExtension().GetIsImport() != files[k].IsImport() {
			r.fail("proto-image flags", "%s - the written image file %q has is_import=%v, built %v", desc(), files[k].Path(), protoFile.GetBufExtension().GetIsImport(), files[k].IsImport())
		}
	}
}

func (r *c1Run) build(ctx context.Context, w *c1WS) {
	r.checked++
	bucket, err := w.moduleReadBucket(ctx)
	if err != nil {
		fmt.Printf("VERIF-REPLAY generator problem (%s): %v\n", w.describe(), err)
		return
	}
	image, err := BuildImage(ctx, c1Logger, bucket, WithNoParallelism())
	if err != nil {
		r.fail("built err", "%s BuildImage: error %v; the workspace compiles", w.describe(), err)
		return
	}
	r.checkImage(ctx, w, image, "BuildImage")
}

// ---- workspace families

func c1Shape(n int, mask int, kind int) []c1File {
	files := make([]c1File, n)
	bit := 0
	for i := 0; i < n; i++ {
		files[i] = c1File{path: c1Paths[i], syntax: "proto3"}
	}
	for i := 0; i < n; i++ {
		for j := i + 1; j < n; j++ {
			if mask&(1<<bit) != 0 {
				files[i].imports = append(files[i].imports, c1Imp{j, kind})
			}
			bit++
		}
	}
	return files
}

func c1Subsets(n int, maxSize int) [][]int {
	var out [][]int
	for m := 1; m < 1<<n; m++ {
		var s []int
		for i := 0; i < n; i++ {
			if m&(1<<i) != 0 {
				s = append(s, i)
			}
		}
		if len(s) <= maxSize || len(s) == n {
			out = append(out, s)
		}
	}
	return out
}

func c1Edges(files []c1File) [][2]int {
	var out [][2]int
	for i, f := range files {
		for d := range f.imports {
			out = append(out, [2]int{i, d})
		}
	}
	return out
}

func c1Clone(files []c1File) []c1File {
	out := make([]c1File, len(files))
	for i, f := range files {
		out[i] = f
		out[i].imports = append([]c1Imp(nil), f.imports...)
	}
	return out
}

func c1Named(n int, edges ...[2]int) []c1File {
	files := make([]c1File, n)
	for i := 0; i < n; i++ {
		files[i] = c1File{path: c1Paths[i], syntax: "proto3"}
	}
	for _, e := range edges {
		files[e[0]].imports = append(files[e[0]].imports, c1Imp{e[1], c1Used})
	}
	return files
}

func c1NamedShapes() [][]c1File {
	return [][]c1File{
		c1Named(4, [2]int{0, 1}, [2]int{1, 2}, [2]int{2, 3}),                                           // chain
		c1Named(4, [2]int{0, 1}, [2]int{0, 2}, [2]int{1, 3}, [2]int{2, 3}),                             // diamond
		c1Named(4, [2]int{0, 1}, [2]int{0, 2}, [2]int{0, 3}),                                           // fan
		c1Named(5, [2]int{0, 1}, [2]int{0, 2}, [2]int{1, 3}, [2]int{2, 3}, [2]int{3, 4}, [2]int{0, 4}), // diamond + tail
		c1Named(5, [2]int{4, 0}, [2]int{4, 1}, [2]int{0, 2}, [2]int{1, 2}, [2]int{2, 3}),               // importer sorts last
	}
}

func (r *c1Run) familyShapes(ctx context.Context, full bool) {
	for n := 2; n <= 4; n++ {
		nEdges := n * (n - 1) / 2
		maxSize := 3
		if n == 4 {
			maxSize = 2
			if !full {
				maxSize = 1
			}
		}
		for mask := 0; mask < 1<<nEdges; mask++ {
			targetSets := c1Subsets(n, maxSize)
			if n == 4 && !full {
				targetSets = [][]int{{0}, {1}, {3, 0}, {0, 1, 2, 3}}
			}
			for _, targets := range targetSets {
				r.build(ctx, &c1WS{files: c1Shape(n, mask, c1Used), targets: targets})
			}
		}
	}
}

func (r *c1Run) familyKinds(ctx context.Context) {
	for _, shape := range c1NamedShapes() {
		n := len(shape)
		targetSets := [][]int{{0}, {0, n - 1}, {n - 1, 1}}
		all := []int{}
		for i := 0; i < n; i++ {
			all = append(all, i)
		}
		targetSets = append(targetSets, all)
		for _, kind := range []int{c1Unused, c1Public} {
			for _, e := range c1Edges(shape) {
				files := c1Clone(shape)
				files[e[0]].imports[e[1]].kind = kind
				for _, targets := range targetSets {
					r.build(ctx, &c1WS{files: files, targets: targets})
				}
			}
			files := c1Clone(shape)
			for _, e := range c1Edges(shape) {
				files[e[0]].imports[e[1]].kind = kind
			}
			for _, targets := range targetSets {
				r.build(ctx, &c1WS{files: files, targets: targets})
			}
		}
		// syntax variants
		for i := 0; i < n; i++ {
			for _, syntax := range []string{"", "proto2"} {
				files := c1Clone(shape)
				files[i].syntax = syntax
				for _, targets := range targetSets {
					r.build(ctx, &c1WS{files: files, targets: targets})
				}
			}
		}
	}
}

func (r *c1Run) familyModules(ctx context.Context) {
	for _, shape := range c1NamedShapes() {
		n := len(shape)
		for assign := 1; assign < 1<<n-1; assign++ {
			files := c1Clone(shape)
			var module0 []int
			for i := range files {
				if assign&(1<<i) != 0 {
					files[i].module = 1
				} else {
					module0 = append(module0, i)
				}
			}
			// module 0 targeted as a whole, module 1 not targeted
			r.build(ctx, &c1WS{files: files, targets: module0})
			// a single target file of module 0
			r.build(ctx, &c1WS{files: files, targets: module0[:1]})
			if assign%3 == 0 {
				all := []int{}
				for i := 0; i < n; i++ {
					all = append(all, i)
				}
				r.build(ctx, &c1WS{files: files, targets: all})
			}
		}
	}
}

const c1VendoredWKT = "syntax = \"proto3\";\npackage google.protobuf;\nmessage Timestamp {\n  int64 seconds = 1;\n  int32 nanos = 2;\n  string vendored_marker = 3;\n}\n"

func (r *c1Run) familyWKT(ctx context.Context) {
	for _, shape := range c1NamedShapes()[:3] {
		n := len(shape)
		for i := 0; i < n; i++ {
			// not supplied by the workspace: the built-in copy is used
			files := c1Clone(shape)
			files[i].wkt = true
			for _, targets := range [][]int{{0}, {i}} {
				w := &c1WS{files: files, targets: targets}
				r.build(ctx, w)
			}
			// supplied by a non-target module / by the target module itself
			for _, module := range []int{1, 0} {
				files := c1Clone(shape)
				files[i].wkt = true
				files = append(files, c1File{path: c1WKTPath, module: module, src: c1VendoredWKT})
				for _, targets := range [][]int{{0}, {i}} {
					w := &c1WS{files: files, targets: targets}
					r.build(ctx, w)
					r.checkVendored(ctx, w)
				}
				if module == 0 {
					w := &c1WS{files: files, targets: []int{i, n}}
					r.build(ctx, w)
					r.checkVendored(ctx, w)
				}
			}
		}
	}
}

// the workspace-supplied copy of a well-known type wins over the built-in one
func (r *c1Run) checkVendored(ctx context.Context, w *c1WS) {
	expected, _ := w.expectedPaths()
	if !expected[c1WKTPath] {
		return
	}
	bucket, err := w.moduleReadBucket(ctx)
	if err != nil {
		return
	}
	image, err := BuildImage(ctx, c1Logger, bucket, WithNoParallelism())
	if err != nil {
		return
	}
	f := image.GetFile(c1WKTPath)
	if f == nil {
		return
	}
	found := false
	for _, m := range f.FileDescriptorProto().GetMessageType() {
		for _, field := range m.GetField() {
			if field.GetName() == "vendored_marker" {
				found = true
			}
		}
	}
	if !found {
		r.fail("descriptor module FullName known-or-path", "%s BuildImage - %q is supplied by the workspace (with an extra field vendored_marker) but the image holds the built-in copy (module %v)", w.describe(), c1WKTPath, f.FullName())
	}
}

// ---- planted compile errors

func (r *c1Run) familyCompileErrors(ctx context.Context) {
	for _, shape := range c1NamedShapes()[:3] {
		n := len(shape)
		for i := 0; i < n; i++ {
			for _, targets := range [][]int{{0}, {i}, {0, n - 1}} {
				files := c1Clone(shape)
				w0 := &c1WS{files: files, targets: targets}
				reach, _ := w0.expectedPaths()
				if !reach[files[i].path] {
					continue
				}
				src := w0.source(i)
				// plant: a field of an undefined type as the first field of the message
				lines := strings.Split(src, "\n")
				planted := -1
				for k, l := range lines {
					if strings.HasPrefix(l, "message ") {
						planted = k + 1
						break
					}
				}
				if planted < 0 {
					continue
				}
				newLines := append([]string{}, lines[:planted]...)
				newLines = append(newLines, "  Missing planted = 99;")
				newLines = append(newLines, lines[planted:]...)
				files[i].src = strings.Join(newLines, "\n")
				w := &c1WS{files: files, targets: targets}
				r.checked++
				bucket, err := w.moduleReadBucket(ctx)
				if err != nil {
					continue
				}
				image, err := BuildImage(ctx, c1Logger, bucket, WithNoParallelism())
				wantLine, wantCol := planted+1, 3
				what := fmt.Sprintf("%s with the undefined type `Missing` planted at %s:%d:%d", w.describe(), files[i].path, wantLine, wantCol)
				if err == nil {
					if image == nil {
						r.fail("compile-failure-yields-no-image image-or-error built err", "%s - BuildImage returned neither an image nor diagnostics", what)
						continue
					}
					r.fail("compile-failure-yields-no-image built err", "%s - BuildImage returned an image (%v) and no diagnostics", what, c1PathsOf(image.Files()))
					continue
				}
				var set bufanalysis.FileAnnotationSet
				if !errors.As(err, &set) {
					r.fail("fails-only-on-invalid-path no-annotation-on-error", "%s - BuildImage returned the plain error %q, not positioned diagnostics", what, err.Error())
					continue
				}
				ok := false
				var seen []string
				for _, a := range set.FileAnnotations() {
					p, ext := "<none>", "<none>"
					if a.FileInfo() != nil {
						p, ext = a.FileInfo().Path(), a.FileInfo().ExternalPath()
					}
					seen = append(seen, fmt.Sprintf("%s(external %s):%d:%d-%d:%d:%s", p, ext, a.StartLine(), a.StartColumn(), a.EndLine(), a.EndColumn(), a.Type()))
					if p == files[i].path && ext == files[i].path && a.StartLine() == wantLine && a.StartColumn() == wantCol && a.EndLine() == wantLine && a.EndColumn() == wantCol && a.Type() == "COMPILE" {
						ok = true
					}
				}
				if !ok || len(set.FileAnnotations()) != 1 {
					r.fail("line column type-compile file-is-compiler-path external-path-is-resolved no-file-without-filename known-or-path Path ExternalPath newFileInfo", "%s - diagnostics %v; want exactly one COMPILE diagnostic at that position", what, seen)
				}
			}
		}
	}
}

// ---- the internal steps, called directly

func c1Linked(ctx context.Context, w *c1WS, paths []string) (linker.Files, error) {
	compiler := protocompile.Compiler{
		Resolver:       protocompile.WithStandardImports(&protocompile.SourceResolver{Accessor: protocompile.SourceAccessorFromMap(w.sources())}),
		MaxParallelism: 1,
	}
	return compiler.Compile(ctx, paths...)
}

func c1Permutations(n int) [][]int {
	if n == 1 {
		return [][]int{{0}}
	}
	var out [][]int
	for _, p := range c1Permutations(n - 1) {
		for pos := 0; pos <= len(p); pos++ {
			q := append([]int{}, p[:pos]...)
			q = append(q, n-1)
			q = append(q, p[pos:]...)
			out = append(out, q)
		}
	}
	return out
}

func (r *c1Run) familyCheckAndSort(ctx context.Context) {
	for _, shape := range c1NamedShapes()[:3] {
		w := &c1WS{files: shape}
		var paths []string
		for _, f := range shape {
			paths = append(paths, f.path)
		}
		sort.Strings(paths)
		compiled, err := c1Linked(ctx, w, paths)
		if err != nil {
			fmt.Printf("VERIF-REPLAY generator problem: %v\n", err)
			return
		}
		for _, perm := range c1Permutations(len(compiled)) {
			r.checked++
			in := make(linker.Files, len(compiled))
			var inNames []string
			for k, p := range perm {
				in[k] = compiled[p]
				inNames = append(inNames, compiled[p].Path())
			}
			out, err := checkAndSortFiles(in, paths)
			if err != nil {
				r.fail("complete", "checkAndSortFiles(compiled files %v, requested paths %v): error %v; every requested path was compiled exactly once", inNames, paths, err)
				continue
			}
			var outNames []string
			for _, f := range out {
				outNames = append(outNames, f.Path())
			}
			if fmt.Sprint(outNames) != fmt.Sprint(paths) {
				r.fail("input-path-order same-length from-compiled", "checkAndSortFiles(compiled files %v, requested paths %v) = %v; want the order of the requested paths", inNames, paths, outNames)
			}
		}
		// duplicate, missing and surplus files are errors
		r.checked += 3
		dup := append(linker.Files{}, compiled...)
		dup[len(dup)-1] = dup[0]
		if _, err := checkAndSortFiles(dup, paths); err == nil {
			r.fail("duplicates-rejected complete", "checkAndSortFiles: compiled files contain %q twice (and lack %q), requested paths %v: no error", compiled[0].Path(), compiled[len(compiled)-1].Path(), paths)
		}
		if _, err := checkAndSortFiles(compiled[:len(compiled)-1], paths); err == nil {
			r.fail("length-mismatch-rejected", "checkAndSortFiles: %d compiled files for the %d requested paths %v: no error", len(compiled)-1, len(paths), paths)
		}
		if _, err := checkAndSortFiles(compiled, paths[:len(paths)-1]); err == nil {
			r.fail("length-mismatch-rejected", "checkAndSortFiles: %d compiled files for the %d requested paths %v: no error", len(compiled), len(paths)-1, paths[:len(paths)-1])
		}
	}
}

// getImage on the linker's files directly, with the targets in every order
func (r *c1Run) familyGetImage(ctx context.Context) {
	for _, shape := range c1NamedShapes() {
		n := len(shape)
		for _, targets := range [][]int{{0}, {n - 1, 0}, {1, 0, n - 1}, {n - 1, 1}} {
			files := c1Clone(shape)
			files[1].syntax = ""
			if len(files[0].imports) > 1 {
				files[0].imports[1].kind = c1Unused
			}
			w := &c1WS{files: files, targets: targets}
			var paths []string
			for _, t := range targets {
				paths = append(paths, files[t].path)
			}
			r.checked++
			bucket, err := w.moduleReadBucket(ctx)
			if err != nil {
				continue
			}
			handler := newParserAccessorHandler(ctx, bufmodule.ModuleReadBucketWithOnlyProtoFiles(bucket))
			result := getBuildResult(ctx, handler, paths, false, true)
			if result.Err != nil {
				r.fail("warnings-do-not-fail success-exactly-when-clean one-compile-of-exactly-the-paths", "%s getBuildResult(paths %v): error %q; every file compiles (one has no syntax line, one an unused import: warnings)", w.describe(), paths, result.Err.Error())
				continue
			}
			sorted, err := checkAndSortFiles(result.Files, paths)
			if err != nil {
				r.fail("complete", "%s checkAndSortFiles(paths %v): %v", w.describe(), paths, err)
				continue
			}
			image, err := getImage(ctx, false, sorted, result.Symbols, handler, result.SyntaxUnspecifiedFilenames, result.FilenameToUnusedDependencyFilenames)
			if err != nil {
				r.fail("built each-path-once", "%s getImage(target order %v) returned the error %q; the workspace compiles", w.describe(), paths, err.Error())
				continue
			}
			r.checkImage(ctx, w, image, fmt.Sprintf("getImage(target order %v)", paths))
			// the accessor labels
			for _, f := range files {
				if got := handler.ExternalPath(f.path); got != f.path {
					r.fail("known-or-path ExternalPath", "%s parserAccessorHandler.ExternalPath(%q) = %q", w.describe(), f.path, got)
				}
			}
			if got := handler.ExternalPath("never/opened.proto"); got != "never/opened.proto" {
				r.fail("known-or-path ExternalPath", "parserAccessorHandler.ExternalPath of a path that was never opened = %q, want the path itself", got)
			}
			if got := handler.LocalPath("never/opened.proto"); got != "" {
				r.fail("LocalPath", "parserAccessorHandler.LocalPath of a path that was never opened = %q, want \"\"", got)
			}
			if got := handler.FullName("never/opened.proto"); got != nil {
				r.fail("FullName", "parserAccessorHandler.FullName of a path that was never opened = %v, want nil", got)
			}
			if got := handler.CommitID("never/opened.proto"); got != uuid.Nil {
				r.fail("CommitID", "parserAccessorHandler.CommitID of a path that was never opened = %v, want the zero ID", got)
			}
		}
	}
}

// newImage / orderImageFiles on hand-made descriptor graphs
func c1ImageFiles(n int, edges [][2]int, extraDeps map[int][]string) ([]ImageFile, error) {
	deps := map[int][]string{}
	for _, e := range edges {
		deps[e[0]] = append(deps[e[0]], c1Paths[e[1]])
	}
	var out []ImageFile
	for i := 0; i < n; i++ {
		fd := &descriptorpb.FileDescriptorProto{
			Name:       proto.String(c1Paths[i]),
			Syntax:     proto.String("proto3"),
			Package:    proto.String("p"),
			Dependency: append(deps[i], extraDeps[i]...),
		}
		f, err := NewImageFile(fd, nil, uuid.Nil, "", "", i%2 == 1, false, nil)
		if err != nil {
			return nil, err
		}
		out = append(out, f)
	}
	return out, nil
}

func c1EdgeNames(edges [][2]int) string {
	var out []string
	for _, e := range edges {
		out = append(out, c1Paths[e[0]]+"->"+c1Paths[e[1]])
	}
	return "[" + strings.Join(out, " ") + " m/c.proto->not/in/image.proto]"
}

func c1EdgeNamesPlain(edges [][2]int) string {
	return strings.Replace(c1EdgeNames(edges), " m/c.proto->not/in/image.proto]", "]", 1)
}

func (r *c1Run) familyNewImage() {
	graphs := [][][2]int{
		{},
		{{0, 1}, {1, 2}, {2, 3}},
		{{0, 1}, {0, 2}, {1, 3}, {2, 3}},
		{{3, 0}, {3, 1}, {0, 2}, {1, 2}},
		{{0, 3}, {1, 3}, {2, 3}},
	}
	for _, edges := range graphs {
		files, err := c1ImageFiles(4, edges, map[int][]string{0: {"not/in/image.proto"}})
		if err != nil {
			fmt.Printf("VERIF-REPLAY generator problem: %v\n", err)
			return
		}
		for _, perm := range c1Permutations(4) {
			in := make([]ImageFile, 4)
			for k, p := range perm {
				in[k] = files[p]
			}
			inNames := c1PathsOf(in)
			for _, reorder := range []bool{false, true} {
				r.checked++
				img, err := newImage(in, reorder, nil)
				what := fmt.Sprintf("newImage(files %v with dependencies %s, reorder=%v)", inNames, c1EdgeNames(edges), reorder)
				if err != nil {
					r.fail("non-empty", "%s: error %v; the paths are distinct", what, err)
					continue
				}
				r.checkOrdered(what, in, img.Files(), reorder)
				for _, f := range in {
					if img.GetFile(f.Path()) != f {
						r.fail("indexed-by-path GetFile", "%s: GetFile(%q) does not return that file", what, f.Path())
					}
				}
				if img.GetFile("not/in/image.proto") != nil {
					r.fail("index-only-files GetFile", "%s: GetFile of a path that is not in the image is not nil", what)
				}
			}
			r.checked++
			pathToImageFile := map[string]ImageFile{}
			for _, f := range in {
				pathToImageFile[f.Path()] = f
			}
			r.checkOrdered(fmt.Sprintf("orderImageFiles(files %v with dependencies %s)", inNames, c1EdgeNames(edges)), in, orderImageFiles(in, pathToImageFile), true)
			// a sub-list: the dependencies that are in the map are pulled in
			out := orderImageFiles(in[:1], pathToImageFile)
			r.checkSubOrdered(fmt.Sprintf("orderImageFiles(files %v of an image with dependencies %s)", inNames[:1], c1EdgeNames(edges)), out, pathToImageFile)
		}
		// duplicates and the empty list are rejected
		r.checked += 2
		if _, err := newImage([]ImageFile{files[0], files[1], files[0]}, false, nil); err == nil {
			r.fail("duplicates-rejected each-path-once", "newImage(files [%s %s %s]): no error for the duplicate path", files[0].Path(), files[1].Path(), files[0].Path())
		}
		if _, err := newImage(nil, false, nil); err == nil {
			r.fail("empty-rejected non-empty", "newImage(no files): no error")
		}
	}
}

func (r *c1Run) checkOrdered(what string, in []ImageFile, out []ImageFile, reorder bool) {
	position := map[string]int{}
	for k, f := range out {
		if _, dup := position[f.Path()]; dup {
			r.fail("each-path-once", "%s = %v: %q twice", what, c1PathsOf(out), f.Path())
			return
		}
		position[f.Path()] = k
	}
	if len(out) != len(in) {
		r.fail("reordered-keeps-all all-inputs-kept reordered-only-files only-image-files", "%s = %v: %d files, want %d", what, c1PathsOf(out), len(out), len(in))
		return
	}
	for k, f := range in {
		j, ok := position[f.Path()]
		if !ok || out[j] != f {
			r.fail("reordered-keeps-all all-inputs-kept from-map", "%s = %v: input file %q is missing", what, c1PathsOf(out), f.Path())
			return
		}
		if !reorder && j != k {
			r.fail("order-kept", "%s = %v: the order given is not kept", what, c1PathsOf(out))
			return
		}
	}
	if reorder {
		for k, f := range out {
			for _, dep := range f.FileDescriptorProto().GetDependency() {
				if j, ok := position[dep]; ok && j >= k {
					r.fail("reordered-dependencies-first dependencies-first ordered", "%s = %v: %q comes before its dependency %q", what, c1PathsOf(out), f.Path(), dep)
					return
				}
			}
		}
	}
}

func (r *c1Run) checkSubOrdered(what string, out []ImageFile, pathToImageFile map[string]ImageFile) {
	position := map[string]int{}
	for k, f := range out {
		if _, dup := position[f.Path()]; dup {
			r.fail("each-path-once", "%s = %v: %q twice", what, c1PathsOf(out), f.Path())
			return
		}
		position[f.Path()] = k
	}
	for k, f := range out {
		if pathToImageFile[f.Path()] != f {
			r.fail("only-image-files from-map", "%s = %v: %q is not a file of the image", what, c1PathsOf(out), f.Path())
		}
		for _, dep := range f.FileDescriptorProto().GetDependency() {
			if _, inImage := pathToImageFile[dep]; !inImage {
				continue
			}
			if j, ok := position[dep]; !ok || j >= k {
				r.fail("dependencies-first ordered deps-done visited-done", "%s = %v: dependency %q of %q is not placed before it", what, c1PathsOf(out), dep, f.Path())
				return
			}
		}
	}
}

// ---- ls-files (C10): the listing is exactly what build puts into the image

func (r *c1Run) lsFiles(ctx context.Context, w *c1WS) {
	r.checked++
	bucket, err := w.moduleReadBucket(ctx)
	if err != nil {
		return
	}
	fileInfos, err := bufmodule.GetFileInfos(ctx, bufmodule.ModuleReadBucketWithOnlyProtoFiles(bucket))
	if err != nil {
		fmt.Printf("VERIF-REPLAY generator problem: %v\n", err)
		return
	}
	// (ca-R4) FileInfoPaths: the path of every file info, in the order given, nothing else
	listedPaths := bufmodule.FileInfoPaths(fileInfos)
	pathsOK := len(listedPaths) == len(fileInfos)
	for i := 0; pathsOK && i < len(fileInfos); i++ {
		pathsOK = listedPaths[i] == fileInfos[i].Path()
	}
	if !pathsOK {
		var want []string
		for _, fileInfo := range fileInfos {
			want = append(want, fileInfo.Path())
		}
		r.fail("0 paths", "%s: FileInfoPaths(the %d proto file infos of the workspace) = %q; documented: the Path() of each, in order: %q", w.describe(), len(fileInfos), listedPaths, want)
	}
	var imageFileInfos []ImageFileInfo
	for _, fileInfo := range fileInfos {
		imageFileInfos = append(imageFileInfos, ImageFileInfoForModuleFileInfo(fileInfo))
	}
	listed, err := ImageFileInfosWithOnlyTargetsAndTargetImports(ctx, datawkt.ReadBucket, imageFileInfos)
	if err != nil {
		r.fail("added-are-closed missing-import-is-error", "%s ls-files (ImageFileInfosWithOnlyTargetsAndTargetImports): error %v; every import is supplied", w.describe(), err)
		return
	}
	expected, _ := w.expectedPaths()
	isTarget := map[string]bool{}
	for _, t := range w.targets {
		isTarget[w.files[t].path] = true
	}
	var got []string
	gotSet := map[string]bool{}
	for _, info := range listed {
		p := info.Path()
		gotSet[p] = true
		if info.IsImport() {
			p += "(import)"
		}
		got = append(got, p)
		if info.IsImport() == isTarget[info.Path()] {
			r.fail("flags", "%s ls-files = %v: %q IsImport()=%v, target=%v", w.describe(), got, info.Path(), info.IsImport(), isTarget[info.Path()])
		}
	}
	if !sort.StringsAreSorted(got) {
		r.fail("sorted", "%s ls-files = %v: not sorted by path", w.describe(), got)
	}
	for p := range expected {
		if !gotSet[p] {
			r.fail("added-are-closed start-included monotone", "%s ls-files = %v: %q (a target or a transitive import of one; build puts it into the image) is not listed", w.describe(), got, p)
		}
	}
	for p := range gotSet {
		if !expected[p] {
			r.fail("no-junk", "%s ls-files = %v: %q is listed but neither a target nor imported by one (build does not put it into the image)", w.describe(), got, p)
		}
	}
}

func (r *c1Run) familyLsFiles(ctx context.Context) {
	for _, shape := range c1NamedShapes() {
		n := len(shape)
		for assign := 0; assign < 1<<n-1; assign++ {
			files := c1Clone(shape)
			var module0 []int
			for i := range files {
				if assign&(1<<i) != 0 {
					files[i].module = 1
				} else {
					module0 = append(module0, i)
				}
			}
			if assign%2 == 0 {
				files[n-1].wkt = true
			}
			r.lsFiles(ctx, &c1WS{files: files, targets: module0})
			r.lsFiles(ctx, &c1WS{files: files, targets: module0[:1]})
		}
	}
	// the single step on hand-made infos: closure, nothing else, a missing import is an error
	graphs := [][][2]int{{}, {{0, 1}, {1, 2}, {2, 3}}, {{0, 1}, {0, 2}, {1, 3}, {2, 3}}, {{3, 0}, {3, 1}, {0, 2}, {1, 2}}}
	for _, edges := range graphs {
		for _, missing := range []bool{false, true} {
			extra := map[int][]string{}
			if missing {
				extra[2] = []string{"not/in/set.proto"}
			}
			files, err := c1ImageFiles(4, edges, extra)
			if err != nil {
				return
			}
			pathToInfo := map[string]ImageFileInfo{}
			for _, f := range files {
				pathToInfo[f.Path()] = f
			}
			for start := 0; start < 4; start++ {
				r.checked++
				want := map[string]bool{}
				reachesMissing := false
				var visit func(i int)
				visit = func(i int) {
					if want[c1Paths[i]] {
						return
					}
					want[c1Paths[i]] = true
					if i == 2 && missing {
						reachesMissing = true
					}
					for _, e := range edges {
						if e[0] == i {
							visit(e[1])
						}
					}
				}
				visit(start)
				result := map[string]struct{}{"already/there.proto": {}}
				err := imageFileInfosWithOnlyTargetsAndTargetImportsRec(files[start], pathToInfo, result)
				what := fmt.Sprintf("imageFileInfosWithOnlyTargetsAndTargetImportsRec(start %s, files with imports %s, m/b.proto also imports a file that is not in the set: %v)", c1Paths[start], c1EdgeNamesPlain(edges), missing)
				if reachesMissing {
					if err == nil {
						r.fail("missing-import-is-error", "%s: no error although an import is not among the files", what)
					}
					continue
				}
				if err != nil {
					r.fail("added-are-closed", "%s: error %v", what, err)
					continue
				}
				var got []string
				for p := range result {
					got = append(got, p)
				}
				sort.Strings(got)
				if _, ok := result["already/there.proto"]; !ok {
					r.fail("monotone", "%s = %v: a path that was already in the result set was removed", what, got)
				}
				for p := range want {
					if _, ok := result[p]; !ok {
						r.fail("added-are-closed start-included", "%s = %v: %q is missing", what, got, p)
					}
				}
				for p := range result {
					if !want[p] && p != "already/there.proto" {
						r.fail("no-junk", "%s = %v: %q is neither the start file nor imported", what, got, p)
					}
				}
			}
		}
	}
}

// ---- compile failures and warnings (getBuildResult / buildImage / newFailedBuildResult)
//
// Workspaces of five files in one module: a.proto, m/b.proto, z/d.proto (each importing and using e.proto) plus
// e.proto and w.proto; each of the first three is good, warning-only (an import of w.proto nothing is used
// from), or broken in one place: a syntax error, a field of an undefined type, an import of a file that does
// not exist, a message defined twice. All 6 x 6 x 4 assignments x four target selections, built through BuildImage
// and through getBuildResult (paths in sorted or in reverse order); and a good file importing a broken one.
//
// Oracle: the build succeeds iff no broken file is a target or imported by one (a warning never fails it);
// then the image is checked like every other image; otherwise there is NO image and the error is a
// FileAnnotationSet with exactly one COMPILE annotation per broken file, at the line:column where the
// generator planted the breakage (path and external path = the file's path). One reservation, taken from the
// compiler's documentation: an import that cannot be resolved is not reported through the reporter but
// returned as the (positioned) compile error, which the compiler drops in favour of reported errors; its
// annotation is required only when nothing else is broken.

const (
	c1Good = iota
	c1Warn
	c1Syntax
	c1UnknownType
	c1UnknownImport
	c1Duplicate
	c1States
)

var c1StateNames = [...]string{"good", "unused-import(warning)", "syntax-error", "undefined-type", "unresolvable-import", "duplicate-message"}

type c1Site struct {
	path     string
	line     int
	col      int
	needle   string // what the message must mention
	reported bool   // goes through the reporter
}

var c1BrokenPaths = []string{"a.proto", "m/b.proto", "z/d.proto", "e.proto", "w.proto"}

// c1BrokenFile returns the file i of the family in the given state, importing the files in deps (and using a
// message of each), and the planted site.
func c1BrokenFile(i int, state int, deps []int) (c1File, *c1Site) {
	path := c1BrokenPaths[i]
	f := c1File{path: path, syntax: "proto3"}
	var lines []string
	lines = append(lines, "syntax = \"proto3\";", "package p;")
	for _, d := range deps {
		lines = append(lines, fmt.Sprintf("import %q;", c1BrokenPaths[d]))
		f.imports = append(f.imports, c1Imp{d, c1Used})
	}
	var site *c1Site
	switch state {
	case c1Warn:
		lines = append(lines, "import \"w.proto\";")
		f.imports = append(f.imports, c1Imp{4, c1Unused})
	case c1UnknownImport:
		lines = append(lines, "import \"nowhere/none.proto\";")
		site = &c1Site{path, len(lines), 8, "nowhere/none.proto", false}
	}
	lines = append(lines, fmt.Sprintf("message B%d {", i))
	for k, d := range deps {
		lines = append(lines, fmt.Sprintf("  B%d dep%d = %d;", d, k, k+1))
	}
	switch state {
	case c1Syntax:
		lines = append(lines, "  int32 broken = ;")
		site = &c1Site{path, len(lines), 18, "syntax error", true}
	case c1UnknownType:
		lines = append(lines, "  Missing planted = 9;")
		site = &c1Site{path, len(lines), 3, "Missing", true}
	}
	lines = append(lines, "}")
	if state == c1Duplicate {
		lines = append(lines, fmt.Sprintf("message B%d {}", i))
		site = &c1Site{path, len(lines), 9, fmt.Sprintf("B%d", i), true}
	}
	f.src = strings.Join(lines, "\n") + "\n"
	return f, site
}

type c1BrokenWS struct {
	ws     *c1WS
	sites  []*c1Site // per file, nil = not broken
	states []int
}

func (b *c1BrokenWS) describe() string {
	var parts []string
	isT := map[int]bool{}
	for _, t := range b.ws.targets {
		isT[t] = true
	}
	for i, f := range b.ws.files {
		var imps []string
		for _, imp := range f.imports {
			imps = append(imps, b.ws.files[imp.to].path)
		}
		t := ""
		if isT[i] {
			t = ",TARGET"
		}
		s := c1StateNames[b.states[i]]
		if site := b.sites[i]; site != nil {
			s += fmt.Sprintf(" planted at %d:%d", site.line, site.col)
		}
		parts = append(parts, fmt.Sprintf("%s(%s%s; imports %v)", f.path, s, t, imps))
	}
	return "workspace {" + strings.Join(parts, " ") + "}"
}

// the planted sites in files that are targets or imported by one, sorted by path
func (b *c1BrokenWS) reachableSites() []*c1Site {
	reach, pathToIndex := b.ws.expectedPaths()
	var paths []string
	for p := range reach {
		paths = append(paths, p)
	}
	sort.Strings(paths)
	var out []*c1Site
	for _, p := range paths {
		if i, ok := pathToIndex[p]; ok && b.sites[i] != nil {
			out = append(out, b.sites[i])
		}
	}
	return out
}

func c1AnnotationsOf(set bufanalysis.FileAnnotationSet) []string {
	var seen []string
	for _, a := range set.FileAnnotations() {
		p, ext := "<none>", "<none>"
		if a.FileInfo() != nil {
			p, ext = a.FileInfo().Path(), a.FileInfo().ExternalPath()
		}
		seen = append(seen, fmt.Sprintf("%s(external %s):%d:%d-%d:%d:%s:%q", p, ext, a.StartLine(), a.StartColumn(), a.EndLine(), a.EndColumn(), a.Type(), a.Message()))
	}
	return seen
}

func c1Matches(a bufanalysis.FileAnnotation, s *c1Site) bool {
	return a.FileInfo() != nil && a.FileInfo().Path() == s.path && a.FileInfo().ExternalPath() == s.path &&
		a.StartLine() == s.line && a.StartColumn() == s.col && a.EndLine() == s.line && a.EndColumn() == s.col &&
		a.Type() == "COMPILE" && strings.Contains(a.Message(), s.needle)
}

// checkDiagnostics compares the error of a failed build with the planted sites.
func (r *c1Run) checkDiagnostics(what string, err error, sites []*c1Site) {
	var wantAll []string
	nReported := 0
	for _, s := range sites {
		wantAll = append(wantAll, fmt.Sprintf("%s:%d:%d(%s)", s.path, s.line, s.col, s.needle))
		if s.reported {
			nReported++
		}
	}
	var set bufanalysis.FileAnnotationSet
	if !errors.As(err, &set) || set == nil {
		r.fail("positioned-error-gives-its-annotation invalid-source-gives-annotations reported-errors-become-the-diagnostics diagnostics-are-the-reported-errors never-aborts", "%s - the error is the plain %T %q, not a set of positioned diagnostics; want COMPILE diagnostics at %v", what, err, err.Error(), wantAll)
		return
	}
	annotations := set.FileAnnotations()
	used := make([]bool, len(annotations))
	nFound := 0
	for n, s := range sites {
		found := false
		for k, a := range annotations {
			if !used[k] && c1Matches(a, s) {
				used[k] = true
				found = true
				nFound++
				break
			}
		}
		// an unresolvable import is required only if it is the only kind of breakage (then: one of them)
		if !found && (s.reported || nReported == 0 && nFound == 0 && n == len(sites)-1) {
			r.fail("all-reported-errors-converted never-aborts collects reported-errors-become-the-diagnostics diagnostics-are-the-reported-errors invalid-source-gives-annotations positioned-error-gives-its-annotation", "%s - diagnostics %v; the COMPILE diagnostic for %s:%d:%d (%s) is missing; want one per broken file: %v", what, c1AnnotationsOf(set), s.path, s.line, s.col, s.needle, wantAll)
			return
		}
	}
	for k := range annotations {
		if !used[k] {
			r.fail("diagnostics-are-the-reported-errors reported-errors-become-the-diagnostics invalid-source-gives-annotations", "%s - diagnostics %v; %d of them is at none of the planted sites %v", what, c1AnnotationsOf(set), k+1, wantAll)
			return
		}
	}
}

func (r *c1Run) brokenBuildImage(ctx context.Context, b *c1BrokenWS, bucket bufmodule.ModuleReadBucket) {
	r.checked++
	w := b.ws
	sites := b.reachableSites()
	image, err := BuildImage(ctx, c1Logger, bucket, WithNoParallelism())
	what := b.describe() + " BuildImage"
	if len(sites) == 0 {
		if err != nil {
			r.fail("warnings-do-not-fail success-exactly-when-clean one-compile-of-exactly-the-paths built err", "%s: error %q; no target (or import of a target) is broken, warnings do not fail a build", what, err.Error())
			return
		}
		if image == nil {
			r.fail("image-or-error", "%s: neither an image nor an error", what)
			return
		}
		r.light = true
		r.checkImage(ctx, w, image, "BuildImage")
		r.light = false
		return
	}
	if image != nil {
		r.fail("compile-failure-yields-no-image image-only-from-clean-compile success-exactly-when-clean", "%s - returned an image (%v, error %v) although %d file(s) do not compile", what, c1PathsOf(image.Files()), err, len(sites))
		return
	}
	if err == nil {
		r.fail("compile-failure-yields-no-image image-or-error image-only-from-clean-compile", "%s - returned neither an image nor an error although %d file(s) do not compile (%s:%d:%d)", what, len(sites), sites[0].path, sites[0].line, sites[0].col)
		return
	}
	r.checkDiagnostics(what, err, sites)
}

func (r *c1Run) brokenGetBuildResult(ctx context.Context, b *c1BrokenWS, bucket bufmodule.ModuleReadBucket, reverse bool) {
	r.checked++
	w := b.ws
	var paths []string
	for _, t := range w.targets {
		paths = append(paths, w.files[t].path)
	}
	sort.Strings(paths)
	if reverse {
		for i, j := 0, len(paths)-1; i < j; i, j = i+1, j-1 {
			paths[i], paths[j] = paths[j], paths[i]
		}
	}
	handler := newParserAccessorHandler(ctx, bufmodule.ModuleReadBucketWithOnlyProtoFiles(bucket))
	result := getBuildResult(ctx, handler, paths, false, true)
	what := fmt.Sprintf("%s getBuildResult(paths %v)", b.describe(), paths)
	if result == nil {
		r.fail("never-nil", "%s = nil", what)
		return
	}
	sites := b.reachableSites()
	if len(sites) > 0 {
		if result.Err == nil {
			r.fail("success-exactly-when-clean", "%s: no error although %d file(s) do not compile (%s:%d:%d)", what, len(sites), sites[0].path, sites[0].line, sites[0].col)
			return
		}
		if len(result.Files) != 0 || result.Symbols != nil {
			r.fail("no-files-on-failure newFailedBuildResult 0", "%s: the failed result (error %q) carries %d files, symbols set: %v; a failed result carries nothing but the error", what, result.Err.Error(), len(result.Files), result.Symbols != nil)
			return
		}
		r.checkDiagnostics(what, result.Err, sites)
		return
	}
	if result.Err != nil {
		r.fail("warnings-do-not-fail success-exactly-when-clean one-compile-of-exactly-the-paths", "%s: error %q; every path compiles (warnings do not fail a build)", what, result.Err.Error())
		return
	}
	var got []string
	for _, f := range result.Files {
		got = append(got, f.Path())
	}
	if fmt.Sprint(got) != fmt.Sprint(paths) || result.Symbols == nil {
		r.fail("compiled-files-handed-over one-compile-of-exactly-the-paths names-match", "%s: compiled files %v (symbols set: %v); want one file per path, in the order of the paths", what, got, result.Symbols != nil)
		return
	}
	if len(result.SyntaxUnspecifiedFilenames) != 0 {
		r.fail("syntax-unspecified-from-warnings syntax", "%s: SyntaxUnspecifiedFilenames = %v; every file has a syntax line", what, result.SyntaxUnspecifiedFilenames)
	}
	wantUnused := map[string]bool{}
	for _, t := range w.targets {
		if b.states[t] == c1Warn {
			wantUnused[w.files[t].path] = true
		}
	}
	for p, set := range result.FilenameToUnusedDependencyFilenames {
		_, only := set["w.proto"]
		if !wantUnused[p] || len(set) != 1 || !only {
			r.fail("unused-imports-only-from-warnings unused", "%s: FilenameToUnusedDependencyFilenames[%q] = %v; files with an unused import (of w.proto): %v", what, p, set, wantUnused)
		}
	}
	for p := range wantUnused {
		if _, ok := result.FilenameToUnusedDependencyFilenames[p]; !ok {
			r.fail("unused-imports-only-from-warnings unused inner-sets-exist", "%s: FilenameToUnusedDependencyFilenames = %v; the unused import of w.proto in %q is not recorded", what, result.FilenameToUnusedDependencyFilenames, p)
		}
	}
}

func (r *c1Run) familyBroken(ctx context.Context, viaBuildImage bool, viaGetBuildResult bool) {
	run := func(b *c1BrokenWS) {
		bucket, err := b.ws.moduleReadBucket(ctx)
		if err != nil {
			fmt.Printf("VERIF-REPLAY generator problem (%s): %v\n", b.describe(), err)
			return
		}
		n := len(b.ws.targets)
		if viaBuildImage {
			r.brokenBuildImage(ctx, b, bucket)
		}
		if viaGetBuildResult && (n == 2 || n == 3 || !viaBuildImage) {
			r.brokenGetBuildResult(ctx, b, bucket, n == 3)
		}
	}
	targetSets := [][]int{{0, 1, 2}, {0, 1}, {2}, {0, 1, 2, 3, 4}}
	// the third file: good, warning, undefined type, unresolvable import
	third := []int{c1Good, c1Warn, c1UnknownType, c1UnknownImport}
	for code := 0; code < c1States*c1States*len(third); code++ {
		states := []int{code % c1States, code / c1States % c1States, third[code/c1States/c1States], c1Good, c1Good}
		b := &c1BrokenWS{states: states}
		var files []c1File
		for i := 0; i < 5; i++ {
			var deps []int
			if i < 3 {
				deps = []int{3}
			}
			f, site := c1BrokenFile(i, states[i], deps)
			files = append(files, f)
			b.sites = append(b.sites, site)
		}
		for _, targets := range targetSets {
			b.ws = &c1WS{files: files, targets: targets}
			run(b)
		}
	}
	// a good file that imports a broken one
	for _, state := range []int{c1Syntax, c1UnknownType, c1UnknownImport, c1Duplicate} {
		for _, importerState := range []int{c1Good, c1Warn} {
			states := []int{importerState, state, c1Good, c1Good, c1Good}
			b := &c1BrokenWS{states: states}
			var files []c1File
			for i := 0; i < 5; i++ {
				var deps []int
				switch i {
				case 0:
					deps = []int{1, 3}
				case 1, 2:
					deps = []int{3}
				}
				f, site := c1BrokenFile(i, states[i], deps)
				files = append(files, f)
				b.sites = append(b.sites, site)
			}
			for _, targets := range [][]int{{0}, {0, 1}, {0, 2}} {
				b.ws = &c1WS{files: files, targets: targets}
				run(b)
			}
		}
	}
}

// the plain records of a build outcome
func (r *c1Run) familyBuildRecords() {
	errs := []error{errors.New("compile failed"), bufanalysis.NewFileAnnotationSet(bufanalysis.NewFileAnnotation(nil, 1, 2, 1, 2, "COMPILE", "m", "")), io.EOF}
	for _, e := range errs {
		r.checked++
		res := newFailedBuildResult(e)
		if res == nil {
			r.fail("0", "newFailedBuildResult(%q) = nil", e.Error())
			continue
		}
		if res.Err != e || len(res.Files) != 0 || res.Symbols != nil || res.SyntaxUnspecifiedFilenames != nil || res.FilenameToUnusedDependencyFilenames != nil {
			r.fail("0 no-files-on-failure", "newFailedBuildResult(%q) = {Err: %v, Files: %d, Symbols set: %v, SyntaxUnspecifiedFilenames: %v, FilenameToUnusedDependencyFilenames: %v}; a failed result carries the error and nothing else", e.Error(), res.Err, len(res.Files), res.Symbols != nil, res.SyntaxUnspecifiedFilenames, res.FilenameToUnusedDependencyFilenames)
		}
	}
	r.checked++
	symbols := &linker.Symbols{}
	syn := map[string]struct{}{"a.proto": {}}
	unused := map[string]map[string]struct{}{"a.proto": {"w.proto": {}}}
	res := newBuildResult(nil, symbols, syn, unused)
	if res == nil || res.Err != nil || res.Files != nil || res.Symbols != symbols || len(res.SyntaxUnspecifiedFilenames) != 1 || len(res.FilenameToUnusedDependencyFilenames) != 1 {
		r.fail("0", "newBuildResult(no files, symbols, {a.proto}, {a.proto: {w.proto}}) = %+v; want exactly what was given and no error", res)
	}
	r.checked++
	if o := newBuildImageOptions(); o == nil || o.excludeSourceCodeInfo || o.noParallelism {
		r.fail("0", "newBuildImageOptions() = %+v; want fresh options with nothing set", o)
	}
	// (ca-R4) the two build options set exactly their own flag of a fresh options record
	r.checked += 2
	o := newBuildImageOptions()
	WithExcludeSourceCodeInfo()(o)
	if !o.excludeSourceCodeInfo || o.noParallelism {
		r.fail("0", "WithExcludeSourceCodeInfo() applied to fresh options gives %+v; documented: only excludeSourceCodeInfo is set", *o)
	}
	o = newBuildImageOptions()
	WithNoParallelism()(o)
	if o.excludeSourceCodeInfo || !o.noParallelism {
		r.fail("0", "WithNoParallelism() applied to fresh options gives %+v; documented: only noParallelism is set", *o)
	}
}

func TestVerifReplayC01(t *testing.T) {
	fn := os.Getenv("VERIF_REPLAY_FUNC")
	obligation := os.Getenv("VERIF_REPLAY_OBLIGATION")
	ctx := context.Background()
	r := &c1Run{obligation: obligation}
	foreign := strings.HasPrefix(obligation, "bufprotocompile.")
	switch {
	case foreign:
		// FileAnnotationForErrorWithPos, newFileInfo, fileInfo.Path/ExternalPath, newFileAnnotationOptions
		r.familyCompileErrors(ctx)
	case fn == "imageFileInfosWithOnlyTargetsAndTargetImportsRec" || fn == "ImageFileInfosWithOnlyTargetsAndTargetImports" || fn == "appendWellKnownTypeImageFileInfos" || fn == "FileInfoPaths":
		r.familyLsFiles(ctx)
	case fn == "newFailedBuildResult" || fn == "newBuildResult" || fn == "newBuildImageOptions" || fn == "WithExcludeSourceCodeInfo" || fn == "WithNoParallelism":
		r.familyBuildRecords()
		r.familyBroken(ctx, false, true)
	case fn == "checkAndSortFiles":
		r.familyCheckAndSort(ctx)
		r.familyGetImage(ctx)
	case fn == "newImage" || fn == "orderImageFiles" || fn == "orderImageFilesRec" || fn == "Files" || fn == "GetFile":
		r.familyNewImage()
	case fn == "ExternalPath" || fn == "LocalPath" || fn == "FullName" || fn == "CommitID":
		r.familyGetImage(ctx)
		r.familyModules(ctx)
		r.familyWKT(ctx)
		r.familyCompileErrors(ctx)
	case fn == "getImage" || fn == "getImageFilesRec" || fn == "maybeAddSyntaxUnspecified" || fn == "maybeAddUnusedImport" ||
		fn == "GetFileInfos" || fn == "GetTargetFileInfos" || fn == "WalkFileInfosWithOnlyTargetFiles" ||
		fn == "buildImage" || fn == "BuildImage" || fn == "getBuildResult" || fn == "Open" || fn == "addPath" || fn == "NewImageFile" ||
		fn == "fileDescriptorProtoToProtoImageFile" || fn == "imageFileToProtoImageFile" || fn == "ImageToProtoImage" || fn == "newParserAccessorHandler":
		r.familyGetImage(ctx)
		r.familyKinds(ctx)
		r.familyModules(ctx)
		r.familyWKT(ctx)
		r.light = true
		r.familyShapes(ctx, false)
		r.light = false
		if fn == "getBuildResult" || fn == "buildImage" || fn == "BuildImage" {
			r.familyCompileErrors(ctx)
			r.familyBroken(ctx, true, true)
			r.familyBuildRecords()
		}
	default:
		fmt.Printf("VERIF-REPLAY no harness for %q\n", fn)
		return
	}
	// failures whose clause matches the obligation's label first
	label := ""
	if i := strings.LastIndex(obligation, "["); i >= 0 {
		label = strings.TrimSuffix(obligation[i+1:], "]")
		if j := strings.Index(label, "."); j >= 0 && len(label) > j+1 && (label[0] >= '0' && label[0] <= '9') {
			label = label[j+1:]
		}
	}
	sort.SliceStable(r.failures, func(a, b int) bool {
		ma := label != "" && strings.Contains(" "+r.failures[a].tag+" ", " "+label+" ")
		mb := label != "" && strings.Contains(" "+r.failures[b].tag+" ", " "+label+" ")
		return ma && !mb
	})
	printed := map[string]bool{}
	count := 0
	for _, f := range r.failures {
		if count >= 5 {
			break
		}
		// one line per workspace / call
		key := f.text
		if i := strings.Index(key, " - "); i >= 0 {
			key = key[:i]
		}
		if printed[key] {
			continue
		}
		printed[key] = true
		fmt.Printf("VERIF-REPLAY FAILING-INPUT %s\n", f.text)
		count++
	}
	fmt.Printf("VERIF-REPLAY %s: checked %d inputs, %d deviations from the documented behaviour\n", fn, r.checked, len(r.failures))
}
