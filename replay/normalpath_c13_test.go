package normalpath

// Replay harness for C13 obligations of package normalpath (injected with go test -overlay).
// It evaluates the failed contract clause at run time on the real function: first on the
// solver's model (VERIF_REPLAY_MODEL), then on every string over {a . /} up to length 7.

import (
	"fmt"
	"os"
	"regexp"
	"strconv"
	"strings"
	"testing"
)

func vfValidRel(s string) bool {
	if s == "." {
		return true
	}
	if s == "" {
		return false
	}
	for _, c := range strings.Split(s, "/") {
		if c == "" || c == "." || c == ".." {
			return false
		}
	}
	return true
}

var vfModelStr = regexp.MustCompile(`\(\|?([A-Za-z_.$0-9]+)!\d+\|? "((?:[^"]|"")*)"\)`)

func vfDecode(s string) string {
	s = strings.ReplaceAll(s, `""`, `"`)
	re := regexp.MustCompile(`\\u\{([0-9a-fA-F]+)\}`)
	return re.ReplaceAllStringFunc(s, func(m string) string {
		n, _ := strconv.ParseInt(re.FindStringSubmatch(m)[1], 16, 32)
		return string(rune(n))
	})
}

func vfModelStrings() map[string]string {
	out := map[string]string{}
	for _, m := range vfModelStr.FindAllStringSubmatch(os.Getenv("VERIF_REPLAY_MODEL"), -1) {
		out[m[1]] = vfDecode(m[2])
	}
	return out
}

func vfEnum(alpha string, maxLen int, f func(string)) {
	var rec func(prefix string)
	rec = func(prefix string) {
		f(prefix)
		if len(prefix) == maxLen {
			return
		}
		for _, c := range alpha {
			rec(prefix + string(c))
		}
	}
	rec("")
}

func TestVerifReplayC13(t *testing.T) {
	fn := os.Getenv("VERIF_REPLAY_FUNC")
	found := 0
	report := func(format string, a ...any) {
		if found < 5 {
			fmt.Printf("VERIF-REPLAY FAILING-INPUT "+format+"\n", a...)
		}
		found++
	}
	model := vfModelStrings()
	switch fn {
	case "NormalizeAndValidate":
		check := func(p string) {
			r, err := NormalizeAndValidate(p)
			if err == nil && !vfValidRel(r) {
				report("NormalizeAndValidate(%q) = (%q, nil): accepted, but the result is not a valid relative path (it can leave the bucket root)", p, r)
			}
			if err == nil && r != Normalize(p) {
				report("NormalizeAndValidate(%q) = %q differs from Normalize = %q", p, r, Normalize(p))
			}
		}
		if p, ok := model["path"]; ok {
			check(p)
		}
		vfEnum("a./", 7, check)
	case "EqualsOrContainsPath", "MapHasEqualOrContainingPath", "MapAllEqualOrContainingPathMap":
		anc := func(v, p string) bool { return v == "." || v == p || strings.HasPrefix(p, v+"/") }
		var valid []string
		vfEnum("ab/", 5, func(s string) {
			if vfValidRel(s) {
				valid = append(valid, s)
			}
		})
		valid = append(valid, ".")
		for _, v := range valid {
			for _, p := range valid {
				switch fn {
				case "EqualsOrContainsPath":
					if got := EqualsOrContainsPath(v, p, Relative); got != anc(v, p) {
						report("EqualsOrContainsPath(%q, %q, Relative) = %v, want %v (path-wise containment)", v, p, got, anc(v, p))
					}
				case "MapHasEqualOrContainingPath":
					if got := MapHasEqualOrContainingPath(map[string]struct{}{v: {}}, p, Relative); got != anc(v, p) {
						report("MapHasEqualOrContainingPath({%q}, %q, Relative) = %v, want %v", v, p, got, anc(v, p))
					}
				case "MapAllEqualOrContainingPathMap":
					got := MapAllEqualOrContainingPathMap(map[string]struct{}{v: {}}, p, Relative)
					if _, in := got[v]; in != anc(v, p) {
						report("MapAllEqualOrContainingPathMap({%q}, %q, Relative) contains key: %v, want %v", v, p, in, anc(v, p))
					}
				}
			}
		}
	case "Join", "Dir":
		var valid []string
		vfEnum("ab/.", 4, func(s string) {
			if vfValidRel(s) {
				valid = append(valid, s)
			}
		})
		for _, a := range valid {
			if fn == "Dir" {
				if a != "." {
					d := Dir(a)
					if !vfValidRel(d) || !(d == "." && !strings.Contains(a, "/") || strings.HasPrefix(a, d+"/")) {
						report("Dir(%q) = %q is not the parent directory", a, d)
					}
				}
				continue
			}
			for _, b := range valid {
				want := a + "/" + b
				if a == "." {
					want = b
				} else if b == "." {
					want = a
				}
				if got := Join(a, b); got != want {
					report("Join(%q, %q) = %q, want %q", a, b, got, want)
				}
			}
		}
	default:
		fmt.Printf("VERIF-REPLAY no harness for %q\n", fn)
		return
	}
	if found == 0 {
		fmt.Printf("VERIF-REPLAY no failing input found for %s (model and bounded enumeration)\n", fn)
	}
}
