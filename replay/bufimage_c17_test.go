package bufimage

// Replay / bounded contract run for the C17 obligations of package bufimage (injected with go test -overlay).
//
//   - isFileToGenerate: every combination of {target, import} x {plain path, well-known-type path} x
//     used-set {nil, empty, holds the path, holds another path} x non-import-set {nil, empty, holds the path,
//     holds another} x include_imports x include_wkt. Oracle (contract clauses decision / marks / nil-untouched):
//     a target is always generated; an import only with include_imports, not a WKT unless include_wkt, not if
//     already used, not if it is a target elsewhere; the used-set gains exactly the path when (and only when)
//     the file is generated.
//   - imageToCodeGeneratorRequest: the same sets over a five-file image; oracle = clauses all-files-sent,
//     used-monotone, generated-are-marked, non-imports-generated, only-eligible.
//   - ImagesToCodeGeneratorRequests: the image {google/protobuf/timestamp.proto <- dep/d.proto <- a/a1.proto,
//     b/b1.proto <- a/a2.proto, c/c1.proto} with every non-empty subset of {a/*, b/b1, c/c1, dep/d} targeted,
//     split with ImageByDir (and the same split in reverse order), for the four include_imports / include_wkt
//     settings. Oracle (property text): across all requests every targeted file is generated exactly once,
//     every import exactly once if requested (WKT only with include_wkt) and never otherwise; every request
//     carries all transitive dependencies of its files, dependencies first.

import (
	"fmt"
	"os"
	"sort"
	"strings"
	"testing"

	"github.com/google/uuid"
	"google.golang.org/protobuf/proto"
	"google.golang.org/protobuf/types/descriptorpb"
)

type vr17 struct{ found int }

func (v *vr17) report(format string, a ...any) {
	if v.found < 4 {
		fmt.Printf("VERIF-REPLAY FAILING-INPUT "+format+"\n", a...)
	}
	v.found++
}

const vr17WKT = "google/protobuf/timestamp.proto"

var vr17Deps = map[string][]string{
	vr17WKT:      nil,
	"dep/d.proto": {vr17WKT},
	"b/b1.proto":  {"dep/d.proto"},
	"a/a1.proto":  {"dep/d.proto"},
	"a/a2.proto":  {"b/b1.proto"},
	"c/c1.proto":  nil,
}

// DAG order
var vr17Order = []string{vr17WKT, "dep/d.proto", "b/b1.proto", "a/a1.proto", "a/a2.proto", "c/c1.proto"}

func vr17File(path string, isImport bool) (ImageFile, error) {
	pkg := strings.ReplaceAll(strings.TrimSuffix(path, ".proto"), "/", ".")
	fd := &descriptorpb.FileDescriptorProto{
		Name: proto.String(path), Package: proto.String(pkg), Syntax: proto.String("proto3"), Dependency: vr17Deps[path],
		MessageType: []*descriptorpb.DescriptorProto{{Name: proto.String("M")}},
	}
	if path == vr17WKT {
		fd.Package = proto.String("google.protobuf")
		fd.MessageType[0].Name = proto.String("Timestamp")
	}
	return NewImageFile(fd, nil, uuid.Nil, path, "", isImport, false, nil)
}

func vr17Closure(targets map[string]bool) map[string]bool {
	out := map[string]bool{}
	var add func(p string)
	add = func(p string) {
		if out[p] {
			return
		}
		out[p] = true
		for _, d := range vr17Deps[p] {
			add(d)
		}
	}
	for t := range targets {
		add(t)
	}
	return out
}

func vr17Image(targets map[string]bool) (Image, error) {
	closure := vr17Closure(targets)
	var files []ImageFile
	for _, p := range vr17Order {
		if !closure[p] {
			continue
		}
		f, err := vr17File(p, !targets[p])
		if err != nil {
			return nil, err
		}
		files = append(files, f)
	}
	return NewImage(files)
}

func vr17Keys(m map[string]struct{}) string {
	if m == nil {
		return "nil"
	}
	var ks []string
	for k := range m {
		ks = append(ks, k)
	}
	sort.Strings(ks)
	return "{" + strings.Join(ks, " ") + "}"
}

func vr17Copy(m map[string]struct{}) map[string]struct{} {
	if m == nil {
		return nil
	}
	out := map[string]struct{}{}
	for k := range m {
		out[k] = struct{}{}
	}
	return out
}

func vr17Sets(path string) []map[string]struct{} {
	return []map[string]struct{}{nil, {}, {path: {}}, {"other.proto": {}}, {path: {}, "other.proto": {}}}
}

func vr17IsFileToGenerate(v *vr17) int {
	tried := 0
	for _, path := range []string{"a/a1.proto", vr17WKT} {
		for _, isImport := range []bool{false, true} {
			file, err := vr17File(path, isImport)
			if err != nil {
				fmt.Printf("VERIF-REPLAY cannot build image file: %v\n", err)
				return tried
			}
			for _, used0 := range vr17Sets(path) {
				for _, nonImport := range vr17Sets(path) {
					for bits := 0; bits < 4; bits++ {
						includeImports, includeWKT := bits&1 != 0, bits&2 != 0
						tried++
						used := vr17Copy(used0)
						got := isFileToGenerate(file, used, vr17Copy(nonImport), includeImports, includeWKT)
						_, wasUsed := used0[path]
						_, targetElsewhere := nonImport[path]
						want := !isImport || (includeImports && (includeWKT || path != vr17WKT) && !wasUsed && !targetElsewhere)
						input := fmt.Sprintf("isFileToGenerate(file %q import=%v, alreadyUsedPaths=%s, nonImportPaths=%s, includeImports=%v, includeWellKnownTypes=%v)",
							path, isImport, vr17Keys(used0), vr17Keys(nonImport), includeImports, includeWKT)
						if got != want {
							v.report("%s = %v, documented %v", input, got, want)
							continue
						}
						if used0 == nil {
							if used != nil {
								v.report("%s: a nil used-set became %s", input, vr17Keys(used))
							}
							continue
						}
						wantUsed := vr17Copy(used0)
						if want {
							wantUsed[path] = struct{}{}
						}
						if vr17Keys(used) != vr17Keys(wantUsed) {
							v.report("%s = %v leaves alreadyUsedPaths=%s; documented %s (a generated file is marked as used so that no later request generates it again, nothing else changes)", input, got, vr17Keys(used), vr17Keys(wantUsed))
						}
					}
				}
			}
		}
	}
	return tried
}

func vr17DepsFirst(v *vr17, input string, request []*descriptorpb.FileDescriptorProto, generate []string) {
	pos := map[string]int{}
	for i, fd := range request {
		if _, dup := pos[fd.GetName()]; dup {
			v.report("%s: the request carries %q twice", input, fd.GetName())
		}
		pos[fd.GetName()] = i
	}
	for i, fd := range request {
		for _, d := range fd.GetDependency() {
			if j, ok := pos[d]; !ok {
				v.report("%s: the request carries %q but not its dependency %q", input, fd.GetName(), d)
			} else if j > i {
				v.report("%s: the request lists %q before its dependency %q", input, fd.GetName(), d)
			}
		}
	}
	for _, g := range generate {
		if _, ok := pos[g]; !ok {
			v.report("%s: file to generate %q is not among the request's proto files", input, g)
		}
	}
}

func vr17ImageToRequest(v *vr17) int {
	tried := 0
	targets := map[string]bool{"a/a1.proto": true, "a/a2.proto": true}
	image, err := vr17Image(targets)
	if err != nil {
		fmt.Printf("VERIF-REPLAY cannot build image: %v\n", err)
		return 0
	}
	sets := []map[string]struct{}{nil, {}, {"b/b1.proto": {}}, {"dep/d.proto": {}, vr17WKT: {}}, {"a/a1.proto": {}}, {"zz.proto": {}}}
	for _, used0 := range sets {
		for _, nonImport := range sets {
			for bits := 0; bits < 4; bits++ {
				includeImports, includeWKT := bits&1 != 0, bits&2 != 0
				tried++
				used := vr17Copy(used0)
				input := fmt.Sprintf("imageToCodeGeneratorRequest(image with targets [a/a1.proto a/a2.proto] and imports [b/b1.proto dep/d.proto %s], includeImports=%v, includeWellKnownTypes=%v, alreadyUsedPaths=%s, nonImportPaths=%s)",
					vr17WKT, includeImports, includeWKT, vr17Keys(used0), vr17Keys(nonImport))
				request, err := imageToCodeGeneratorRequest(image, "", nil, includeImports, includeWKT, used, vr17Copy(nonImport))
				if err != nil {
					v.report("%s fails: %v", input, err)
					continue
				}
				var want []string
				for _, f := range image.Files() {
					p := f.Path()
					_, wasUsed := used0[p]
					_, elsewhere := nonImport[p]
					if !f.IsImport() || (includeImports && (includeWKT || p != vr17WKT) && !wasUsed && !elsewhere) {
						want = append(want, p)
					}
				}
				if fmt.Sprint(request.FileToGenerate) != fmt.Sprint(want) {
					v.report("%s generates %v, documented %v", input, request.FileToGenerate, want)
					continue
				}
				if len(request.ProtoFile) != len(image.Files()) {
					v.report("%s sends %d proto files for an image of %d files", input, len(request.ProtoFile), len(image.Files()))
				}
				vr17DepsFirst(v, input, request.ProtoFile, request.FileToGenerate)
				if len(request.SourceFileDescriptors) != len(request.FileToGenerate) {
					v.report("%s sends %d source file descriptors for %d files to generate", input, len(request.SourceFileDescriptors), len(request.FileToGenerate))
				}
				if (used0 == nil) != (used == nil) {
					v.report("%s turns the used-set %s into %s", input, vr17Keys(used0), vr17Keys(used))
				}
				if used0 != nil {
					wantUsed := vr17Copy(used0)
					for _, p := range want {
						wantUsed[p] = struct{}{}
					}
					if vr17Keys(used) != vr17Keys(wantUsed) {
						v.report("%s leaves alreadyUsedPaths=%s, documented %s (old entries kept, every generated file marked)", input, vr17Keys(used), vr17Keys(wantUsed))
					}
				}
			}
		}
	}
	return tried
}

func vr17Images(v *vr17) int {
	tried := 0
	candidates := []string{"a/a1.proto", "a/a2.proto", "b/b1.proto", "c/c1.proto", "dep/d.proto"}
	for mask := 1; mask < 1<<len(candidates); mask++ {
		targets := map[string]bool{}
		var targetList []string
		for i, c := range candidates {
			if mask&(1<<i) != 0 {
				targets[c] = true
				targetList = append(targetList, c)
			}
		}
		image, err := vr17Image(targets)
		if err != nil {
			fmt.Printf("VERIF-REPLAY cannot build image: %v\n", err)
			return tried
		}
		byDir, err := ImageByDir(image)
		if err != nil {
			v.report("ImageByDir(image with targets %v) fails: %v", targetList, err)
			continue
		}
		reversed := make([]Image, len(byDir))
		for i, im := range byDir {
			reversed[len(byDir)-1-i] = im
		}
		closure := vr17Closure(targets)
		for _, variant := range []struct {
			desc   string
			images []Image
		}{{"split by directory", byDir}, {"split by directory, requests in reverse order", reversed}, {"as one image", []Image{image}}} {
			for bits := 0; bits < 4; bits++ {
				includeImports, includeWKT := bits&1 != 0, bits&2 != 0
				tried++
				input := fmt.Sprintf("ImagesToCodeGeneratorRequests(image with targets %v (imports: the rest of their dependency closure) %s, includeImports=%v, includeWellKnownTypes=%v)", targetList, variant.desc, includeImports, includeWKT)
				requests, err := ImagesToCodeGeneratorRequests(variant.images, "", nil, includeImports, includeWKT)
				if err != nil {
					v.report("%s fails: %v", input, err)
					continue
				}
				if len(requests) != len(variant.images) {
					v.report("%s returns %d requests for %d images", input, len(requests), len(variant.images))
					continue
				}
				count := map[string]int{}
				var perRequest []string
				for i, r := range requests {
					perRequest = append(perRequest, fmt.Sprint(r.FileToGenerate))
					for _, p := range r.FileToGenerate {
						count[p]++
					}
					vr17DepsFirst(v, fmt.Sprintf("%s, request #%d", input, i), r.ProtoFile, r.FileToGenerate)
					if len(r.ProtoFile) != len(variant.images[i].Files()) {
						v.report("%s: request #%d carries %d proto files for an image of %d files", input, i, len(r.ProtoFile), len(variant.images[i].Files()))
					}
				}
				for _, p := range vr17Order {
					want := 0
					switch {
					case targets[p]:
						want = 1
					case closure[p] && includeImports && (p != vr17WKT || includeWKT):
						want = 1
					}
					if count[p] != want {
						kind := "import"
						if targets[p] {
							kind = "targeted file"
						}
						v.report("%s: %s %q is a file to generate in %d requests, documented %d (files to generate per request: %s)", input, kind, p, count[p], want, strings.Join(perRequest, " "))
						break
					}
				}
			}
		}
	}
	return tried
}

func TestVerifReplayC17(t *testing.T) {
	fn := os.Getenv("VERIF_REPLAY_FUNC")
	v := &vr17{}
	tried := 0
	switch fn {
	case "isFileToGenerate":
		tried += vr17IsFileToGenerate(v)
		if v.found == 0 {
			tried += vr17ImageToRequest(v)
			tried += vr17Images(v)
		}
	case "imageToCodeGeneratorRequest", "ImageToCodeGeneratorRequest":
		tried += vr17ImageToRequest(v)
		if v.found == 0 {
			tried += vr17IsFileToGenerate(v)
			tried += vr17Images(v)
		}
	case "ImagesToCodeGeneratorRequests", "ImageByDir":
		tried += vr17Images(v)
	default:
		fmt.Printf("VERIF-REPLAY no harness for %q\n", fn)
		return
	}
	if v.found == 0 {
		fmt.Printf("VERIF-REPLAY no failing input found for %s (%d inputs)\n", fn, tried)
	} else {
		fmt.Printf("VERIF-REPLAY %d failing inputs in total for %s (%d tried)\n", v.found, fn, tried)
	}
}
