package slicesext

// Replay / bounded contract run for the slicesext helpers that the C06 rule-selection code is built on
// (injected with go test -overlay). Inputs: every slice over {"", a, b, c} up to length 4 (and the maps built from
// them); oracle: the function's documentation, written out with plain loops.

import (
	"errors"
	"fmt"
	"os"
	"sort"
	"testing"
)

func TestVerifReplayC06(t *testing.T) {
	fn := os.Getenv("VERIF_REPLAY_FUNC")
	found := 0
	report := func(format string, a ...any) {
		if found < 4 {
			fmt.Printf("VERIF-REPLAY FAILING-INPUT "+format+"\n", a...)
		}
		found++
	}
	var slices [][]string
	var rec func(cur []string)
	rec = func(cur []string) {
		slices = append(slices, append([]string{}, cur...))
		if len(cur) == 4 {
			return
		}
		for _, e := range []string{"", "a", "b", "c"} {
			rec(append(cur, e))
		}
	}
	rec(nil)
	sort.SliceStable(slices, func(i, j int) bool { return len(slices[i]) < len(slices[j]) }) // shortest failing input first
	sortedSet := func(s []string, omitEmpty bool) []string {
		m := map[string]bool{}
		for _, e := range s {
			if !(omitEmpty && e == "") {
				m[e] = true
			}
		}
		out := []string{}
		for k := range m {
			out = append(out, k)
		}
		sort.Strings(out)
		return out
	}
	boom := errors.New("boom")
	for _, s := range slices {
		switch fn {
		case "ToStructMap":
			got := ToStructMap(s)
			keys := []string{}
			for k := range got {
				keys = append(keys, k)
			}
			sort.Strings(keys)
			if got == nil || fmt.Sprint(keys) != fmt.Sprint(sortedSet(s, false)) {
				report("ToStructMap(%q) has keys %q, documented: exactly the elements %q", s, keys, sortedSet(s, false))
			}
		case "MapKeysToSlice", "MapKeysToSortedSlice":
			m := map[string]int{}
			for i, e := range s {
				m[e] = i
			}
			var got []string
			if fn == "MapKeysToSlice" {
				got = MapKeysToSlice(m)
				sort.Strings(got)
			} else {
				got = MapKeysToSortedSlice(m)
			}
			if fmt.Sprint(got) != fmt.Sprint(sortedSet(s, false)) {
				report("%s(map with keys %q) = %q, documented: every key exactly once (sorted for the sorted variant)", fn, sortedSet(s, false), got)
			}
		case "Filter", "FilterError":
			keep := func(e string) bool { return e != "b" }
			want := []string{}
			failAt := -1
			for i, e := range s {
				if e == "c" && failAt < 0 {
					failAt = i
				}
				if keep(e) {
					want = append(want, e)
				}
			}
			if fn == "Filter" {
				if got := Filter(s, keep); fmt.Sprint(got) != fmt.Sprint(want) {
					report("Filter(%q, keep all but \"b\") = %q, documented %q", s, got, want)
				}
				continue
			}
			calls := 0
			got, err := FilterError(s, func(e string) (bool, error) {
				calls++
				if e == "c" {
					return false, boom
				}
				return keep(e), nil
			})
			if failAt >= 0 {
				if err == nil || len(got) != 0 || calls != failAt+1 {
					report("FilterError(%q, keep all but \"b\", fail on \"c\") = %q, err %v after %d calls; documented: the error of the first failing element, no result", s, got, err, calls)
				}
			} else if err != nil || fmt.Sprint(got) != fmt.Sprint(want) {
				report("FilterError(%q, keep all but \"b\") = %q, err %v; documented %q (order kept, nothing added)", s, got, err, want)
			}
		case "Map", "MapError":
			want := []string{}
			failAt := -1
			for i, e := range s {
				if e == "c" && failAt < 0 {
					failAt = i
				}
				want = append(want, e+"!")
			}
			if fn == "Map" {
				if got := Map(s, func(e string) string { return e + "!" }); fmt.Sprint(got) != fmt.Sprint(want) && len(s) > 0 {
					report("Map(%q, append \"!\") = %q, documented %q", s, got, want)
				}
				continue
			}
			got, err := MapError(s, func(e string) (string, error) {
				if e == "c" {
					return "", boom
				}
				return e + "!", nil
			})
			if failAt >= 0 {
				if err == nil {
					report("MapError(%q, fail on \"c\") = %q without an error", s, got)
				}
			} else if err != nil || (fmt.Sprint(got) != fmt.Sprint(want) && len(s) > 0) {
				report("MapError(%q, append \"!\") = %q, err %v; documented %q", s, got, err, want)
			}
		case "ToUniqueValuesMap", "ToUniqueValuesMapError":
			type val struct {
				key string
				pos int
			}
			var in []val
			seen := map[string]bool{}
			dup := false
			for i, e := range s {
				in = append(in, val{e, i})
				if e != "" {
					dup = dup || seen[e]
					seen[e] = true
				}
			}
			var got map[string]val
			var err error
			if fn == "ToUniqueValuesMap" {
				got, err = ToUniqueValuesMap(in, func(v val) string { return v.key })
			} else {
				got, err = ToUniqueValuesMapError(in, func(v val) (string, error) { return v.key, nil })
			}
			if dup {
				if err == nil {
					report("%s(values with keys %q) = %v: the duplicate key is accepted", fn, s, got)
				}
				continue
			}
			if err != nil || got == nil || len(got) != len(seen) {
				report("%s(values with keys %q) = %v, err %v; documented: one entry per non-empty key", fn, s, got, err)
				continue
			}
			for _, v := range in {
				if v.key != "" && got[v.key] != v {
					report("%s(values with keys %q)[%q] = %v, documented %v", fn, s, v.key, got[v.key], v)
				}
			}
		default:
			fmt.Printf("VERIF-REPLAY no harness for %q\n", fn)
			return
		}
	}
	if found == 0 {
		fmt.Printf("VERIF-REPLAY no failing input found for %s (%d slices over {\"\", a, b, c})\n", fn, len(slices))
	}
}
