package bufprotosource

// Replay harness (ca-r4k) for the C03 / C04 obligations of the element indexes NestedNameTo{Enum,Message,Extension},
// PackageToNestedNameTo{Enum,Message,Extension}, FullNameTo{Enum,Message} and ForEachExtension. Documented: every enum /
// message / extension of EVERY given file (nested ones included) is present under its package and nested (full) name,
// every entry is such an element, duplicates are an error - whatever the number of files per package and their order.
// The expected contents are computed from the descriptor protos directly (not through ForEach*).

import (
	"context"
	"fmt"
	"os"
	"sort"
	"strings"
	"testing"

	"github.com/bufbuild/buf/private/bufpkg/bufparse"
	"github.com/google/uuid"
	"google.golang.org/protobuf/proto"
	"google.golang.org/protobuf/types/descriptorpb"
)

type rkInputFile struct {
	fd       *descriptorpb.FileDescriptorProto
	isImport bool
}

func (f *rkInputFile) Path() string                                         { return f.fd.GetName() }
func (f *rkInputFile) ExternalPath() string                                 { return f.fd.GetName() }
func (f *rkInputFile) FullName() bufparse.FullName                          { return nil }
func (f *rkInputFile) CommitID() uuid.UUID                                  { return uuid.Nil }
func (f *rkInputFile) IsImport() bool                                       { return f.isImport }
func (f *rkInputFile) FileDescriptorProto() *descriptorpb.FileDescriptorProto { return f.fd }
func (f *rkInputFile) IsSyntaxUnspecified() bool                            { return false }
func (f *rkInputFile) UnusedDependencyIndexes() []int32                     { return nil }

func rkEnum(name string) *descriptorpb.EnumDescriptorProto {
	return &descriptorpb.EnumDescriptorProto{Name: proto.String(name), Value: []*descriptorpb.EnumValueDescriptorProto{{Name: proto.String(strings.ToUpper(name) + "_ZERO"), Number: proto.Int32(0)}}}
}

func rkExt(name string, number int32) *descriptorpb.FieldDescriptorProto {
	return &descriptorpb.FieldDescriptorProto{Name: proto.String(name), Number: proto.Int32(number), Extendee: proto.String(".google.protobuf.FileOptions"), Type: descriptorpb.FieldDescriptorProto_TYPE_INT32.Enum(), Label: descriptorpb.FieldDescriptorProto_LABEL_OPTIONAL.Enum()}
}

func rkMsg(name string, enums []string, exts []string, nested ...*descriptorpb.DescriptorProto) *descriptorpb.DescriptorProto {
	m := &descriptorpb.DescriptorProto{Name: proto.String(name), NestedType: nested}
	for _, e := range enums {
		m.EnumType = append(m.EnumType, rkEnum(e))
	}
	for i, x := range exts {
		m.Extension = append(m.Extension, rkExt(x, int32(50000+i)))
	}
	return m
}

// expected (package, nested name) keys of one file, by a direct walk of the descriptor protos
func rkExpected(fd *descriptorpb.FileDescriptorProto) (enums, messages, extensions []string) {
	for _, e := range fd.GetEnumType() {
		enums = append(enums, e.GetName())
	}
	for _, x := range fd.GetExtension() {
		extensions = append(extensions, x.GetName())
	}
	var walk func(prefix string, m *descriptorpb.DescriptorProto)
	walk = func(prefix string, m *descriptorpb.DescriptorProto) {
		name := prefix + m.GetName()
		messages = append(messages, name)
		for _, e := range m.GetEnumType() {
			enums = append(enums, name+"."+e.GetName())
		}
		for _, x := range m.GetExtension() {
			extensions = append(extensions, name+"."+x.GetName())
		}
		for _, n := range m.GetNestedType() {
			walk(name+".", n)
		}
	}
	for _, m := range fd.GetMessageType() {
		walk("", m)
	}
	return
}

func rkKeys2[V any](m map[string]map[string]V) []string {
	var out []string
	for p, inner := range m {
		if len(inner) == 0 {
			out = append(out, p+"|<EMPTY PACKAGE ROW>")
		}
		for k := range inner {
			out = append(out, p+"|"+k)
		}
	}
	sort.Strings(out)
	return out
}

func rkKeys1[V any](m map[string]V) []string {
	var out []string
	for k := range m {
		out = append(out, k)
	}
	sort.Strings(out)
	return out
}

func TestVerifReplayR4kIndexes(t *testing.T) {
	fn := os.Getenv("VERIF_REPLAY_FUNC")
	found, tried := 0, 0
	report := func(format string, a ...any) {
		if found < 4 {
			fmt.Printf("VERIF-REPLAY FAILING-INPUT "+format+"\n", a...)
		}
		found++
	}
	mkFile := func(name, pkg string, isImport bool, enums []string, exts []string, msgs ...*descriptorpb.DescriptorProto) *rkInputFile {
		fd := &descriptorpb.FileDescriptorProto{Name: proto.String(name), Syntax: proto.String("proto2"), MessageType: msgs}
		if pkg != "" {
			fd.Package = proto.String(pkg)
		}
		for _, e := range enums {
			fd.EnumType = append(fd.EnumType, rkEnum(e))
		}
		for i, x := range exts {
			fd.Extension = append(fd.Extension, rkExt(x, int32(51000+i)))
		}
		return &rkInputFile{fd: fd, isImport: isImport}
	}
	pool := []*rkInputFile{
		mkFile("a.proto", "p.v1", false, []string{"TopA"}, []string{"ext_a"}, rkMsg("MA", []string{"InA"}, []string{"in_ext_a"}, rkMsg("Deep", []string{"DeepE"}, []string{"deep_ext"}, rkMsg("Leaf", []string{"LeafE"}, []string{"leaf_ext"})))),
		mkFile("b.proto", "p.v1", false, []string{"TopB"}, []string{"ext_b"}, rkMsg("MB", []string{"InA"}, nil)),
		mkFile("c.proto", "p.v1", true, []string{"TopC"}, nil, rkMsg("MC", nil, []string{"in_ext_c"})),
		mkFile("d.proto", "q", false, []string{"TopA"}, []string{"ext_a"}, rkMsg("MA", []string{"InA"}, nil)),
		mkFile("e.proto", "", false, []string{"NoPkg"}, []string{"ext_nopkg"}, rkMsg("MNoPkg", []string{"In"}, []string{"in_ext"})),
		// duplicates of a.proto's elements in the same package
		mkFile("dup.proto", "p.v1", false, []string{"TopA"}, []string{"ext_a"}, rkMsg("MA", nil, nil)),
	}
	orders := [][]int{{0}, {0, 1}, {1, 0}, {0, 1, 2}, {2, 1, 0}, {0, 3, 1}, {3, 0, 1, 2, 4}, {4, 2, 1, 3, 0}, {1, 4, 0}, {}, {0, 5}, {5, 1, 0}}
	for _, order := range orders {
		tried++
		var inputs []*rkInputFile
		var names []string
		hasDup := false
		for _, i := range order {
			inputs = append(inputs, pool[i])
			names = append(names, pool[i].Path())
			if i == 5 {
				hasDup = true
			}
		}
		files, err := NewFiles(context.Background(), inputs, nil)
		if err != nil {
			t.Fatal(err)
		}
		var wantPE, wantPM, wantPX, wantFE, wantFM []string
		for _, in := range inputs {
			es, ms, xs := rkExpected(in.fd)
			pkg := in.fd.GetPackage()
			dot := pkg
			if dot != "" {
				dot += "."
			}
			for _, e := range es {
				wantPE = append(wantPE, pkg+"|"+e)
				wantFE = append(wantFE, dot+e)
			}
			for _, m := range ms {
				wantPM = append(wantPM, pkg+"|"+m)
				wantFM = append(wantFM, dot+m)
			}
			for _, x := range xs {
				wantPX = append(wantPX, pkg+"|"+x)
			}
		}
		for _, w := range []*[]string{&wantPE, &wantPM, &wantPX, &wantFE, &wantFM} {
			sort.Strings(*w)
		}
		check := func(what string, got []string, gotErr error, want []string) {
			if hasDup {
				if gotErr == nil {
					report("%s(%v) = no error; documented: duplicates (dup.proto repeats elements of a.proto in package p.v1) are an error", what, names)
				}
				return
			}
			if gotErr != nil || strings.Join(got, ",") != strings.Join(want, ",") {
				report("%s(%v) = %v, err %v; documented: exactly the elements of every given file: %v", what, names, got, gotErr, want)
			}
		}
		pe, err := PackageToNestedNameToEnum(files...)
		check("PackageToNestedNameToEnum", rkKeys2(pe), err, wantPE)
		for p, inner := range pe {
			for k, e := range inner {
				if e.NestedName() != k || e.File().Package() != p {
					report("PackageToNestedNameToEnum(%v)[%q][%q] is the enum %q of package %q", names, p, k, e.NestedName(), e.File().Package())
				}
			}
		}
		pm, err := PackageToNestedNameToMessage(files...)
		check("PackageToNestedNameToMessage", rkKeys2(pm), err, wantPM)
		for p, inner := range pm {
			for k, e := range inner {
				if e.NestedName() != k || e.File().Package() != p {
					report("PackageToNestedNameToMessage(%v)[%q][%q] is the message %q of package %q", names, p, k, e.NestedName(), e.File().Package())
				}
			}
		}
		px, err := PackageToNestedNameToExtension(files...)
		check("PackageToNestedNameToExtension", rkKeys2(px), err, wantPX)
		for p, inner := range px {
			for k, e := range inner {
				if e.NestedName() != k || e.File().Package() != p {
					report("PackageToNestedNameToExtension(%v)[%q][%q] is the extension %q of package %q", names, p, k, e.NestedName(), e.File().Package())
				}
			}
		}
		fe, err := FullNameToEnum(files...)
		check("FullNameToEnum", rkKeys1(fe), err, wantFE)
		fm, err := FullNameToMessage(files...)
		check("FullNameToMessage", rkKeys1(fm), err, wantFM)
		// per file: the NestedNameTo* indexes and ForEachExtension
		for i, file := range files {
			es, ms, xs := rkExpected(inputs[i].fd)
			sort.Strings(es)
			sort.Strings(ms)
			sort.Strings(xs)
			ne, err := NestedNameToEnum(file)
			if err != nil || strings.Join(rkKeys1(ne), ",") != strings.Join(es, ",") {
				report("NestedNameToEnum(%s) = %v, err %v; documented: all enums of the file, nested ones included: %v", file.Path(), rkKeys1(ne), err, es)
			}
			nm, err := NestedNameToMessage(file)
			if err != nil || strings.Join(rkKeys1(nm), ",") != strings.Join(ms, ",") {
				report("NestedNameToMessage(%s) = %v, err %v; documented: all messages of the file, nested ones included: %v", file.Path(), rkKeys1(nm), err, ms)
			}
			nx, err := NestedNameToExtension(file)
			if err != nil || strings.Join(rkKeys1(nx), ",") != strings.Join(xs, ",") {
				report("NestedNameToExtension(%s) = %v, err %v; documented: all extensions of the file, nested ones included: %v", file.Path(), rkKeys1(nx), err, xs)
			}
			var seen []string
			_ = ForEachExtension(func(x Field) error { seen = append(seen, x.NestedName()); return nil }, file)
			sort.Strings(seen)
			if strings.Join(seen, ",") != strings.Join(xs, ",") {
				report("ForEachExtension(%s) visited %v; documented: each extension of the file, nested ones included: %v", file.Path(), seen, xs)
			}
		}
	}
	// a container that declares the same nested name twice: "Returns error if ... do not have unique nested names"
	{
		tried++
		selfDup := mkFile("selfdup.proto", "s", false, []string{"Twice", "Twice"}, []string{"twice_ext", "twice_ext"}, rkMsg("TwiceM", nil, nil), rkMsg("TwiceM", nil, nil))
		files, err := NewFiles(context.Background(), []*rkInputFile{selfDup}, nil)
		if err != nil {
			t.Fatal(err)
		}
		if m, err := NestedNameToEnum(files[0]); err == nil {
			report("NestedNameToEnum(selfdup.proto: two enums named Twice) = %v, no error; documented: an error", rkKeys1(m))
		}
		if m, err := NestedNameToMessage(files[0]); err == nil {
			report("NestedNameToMessage(selfdup.proto: two messages named TwiceM) = %v, no error; documented: an error", rkKeys1(m))
		}
		if m, err := NestedNameToExtension(files[0]); err == nil {
			report("NestedNameToExtension(selfdup.proto: two extensions named twice_ext) = %v, no error; documented: an error", rkKeys1(m))
		}
		if m, err := FullNameToEnum(files...); err == nil {
			report("FullNameToEnum(selfdup.proto: two enums named s.Twice) = %v, no error; documented: an error", rkKeys1(m))
		}
		if m, err := FullNameToMessage(files...); err == nil {
			report("FullNameToMessage(selfdup.proto: two messages named s.TwiceM) = %v, no error; documented: an error", rkKeys1(m))
		}
	}
	if found == 0 {
		fmt.Printf("VERIF-REPLAY no failing input found for %s (%d inputs)\n", fn, tried)
	}
}
