package buftarget

// Replay / bounded contract run for the C10 obligations of package buftarget; injected with go test -overlay.
//
// Inputs: in-memory buckets (storagemem.NewReadBucket) over the directories ".", "a", "a/b", "a/b/c" and the
// sibling "a/x", each directory holding one of: no configuration, a v2 buf.yaml (module `path:` lists that do /
// do not contain the chain below, one that lies BELOW an inner chain directory, `path: .`), a v1 buf.work.yaml
// (the same `directories:` lists), a v1 buf.yaml module file, an unreadable buf.yaml, a buf.yaml AND a
// buf.work.yaml.
//   - direct: terminateAtControllingWorkspace / terminateAtV1Module at every directory x every configuration of
//     that directory x every input directory at or below it;
//   - synthetic walk: mapControllingWorkspaceAndPath on every input directory (also un-normalized and invalid
//     spellings, no terminate function) with a recording terminate function that answers / fails / is silent at
//     EVERY subset of the directories on the chain;
//   - walk on buckets: NewBucketTargeting / mapControllingWorkspaceAndPath with the real terminate functions on
//     EVERY combination of the 9..13 configurations per directory of the chains "." - "a" - "a/b" - "a/b/c" and
//     "." - "a" - "a/x", and on every single directory and pair of directories (also with terminateAtV1Module,
//     also without paths), x every input directory, with --path / --exclude-path values below the input directory;
//   - the accessors on values built here.
//
// Oracle (doc comments in terminate.go / bucket_targeting.go / controlling_workspace.go and the contract
// clauses): a directory controls the input iff it holds a v2 buf.yaml and is the input itself, or one of its
// module directories contains (or is) the input, or the input contains one of them; or it holds a buf.work.yaml
// and is the input itself or one of its directories contains (or is) the input; a buf.yaml together with a
// buf.work.yaml, or an unreadable file, is an error; a v1 buf.yaml controls nothing (it is what
// terminateAtV1Module - and only it - answers to). The controlling workspace is the NEAREST such directory going
// up from the input directory to "."; the input directory, target paths and exclude paths are re-based onto it;
// if there is none they are returned as given. All of this is computed by a small model over the planted
// declarations (string prefix tests), neither the YAML readers nor normalpath are consulted.

import (
	"context"
	"errors"
	"fmt"
	"io"
	"log/slog"
	"os"
	"sort"
	"strings"
	"testing"

	"github.com/bufbuild/buf/private/bufpkg/bufconfig"
	"github.com/bufbuild/buf/private/pkg/storage"
	"github.com/bufbuild/buf/private/pkg/storage/storagemem"
)

var c10tLogger = slog.New(slog.NewTextHandler(io.Discard, nil))

const (
	c10tNone = iota
	c10tV2
	c10tWork
	c10tV1Module
	c10tInvalid
	c10tBoth
)

// c10tConfig is what is planted in one directory; entries are relative to that directory.
type c10tConfig struct {
	kind    int
	entries []string
}

type c10tLayout map[string]c10tConfig

type c10tFailure struct {
	tag  string
	text string
}

type c10tRun struct {
	checked  int
	failures []c10tFailure
}

func (r *c10tRun) fail(tag string, format string, args ...any) {
	r.failures = append(r.failures, c10tFailure{tag: tag, text: fmt.Sprintf(format, args...)})
}

var c10tDirs = []string{".", "a", "a/b", "a/b/c", "a/x"}

// *** the model ***

func c10tJoin(dir string, name string) string {
	if dir == "." {
		return name
	}
	if name == "." {
		return dir
	}
	return dir + "/" + name
}

// c10tContains: a equals b or is a parent directory of b (both normalized, relative).
func c10tContains(a string, b string) bool {
	return a == "." || a == b || strings.HasPrefix(b, a+"/")
}

// c10tRebase: p relative to base, base equals or contains p.
func c10tRebase(base string, p string) string {
	if base == "." {
		return p
	}
	if base == p {
		return "."
	}
	return strings.TrimPrefix(p, base+"/")
}

func c10tRebaseAll(base string, paths []string) []string {
	var out []string
	for _, p := range paths {
		out = append(out, c10tRebase(base, p))
	}
	return out
}

func c10tParent(dir string) string {
	if i := strings.LastIndex(dir, "/"); i >= 0 {
		return dir[:i]
	}
	return "."
}

// c10tChain: the input directory, its parent, ... up to ".".
func c10tChain(input string) []string {
	chain := []string{input}
	for input != "." {
		input = c10tParent(input)
		chain = append(chain, input)
	}
	return chain
}

// c10tAnswer: does the configuration planted at dir control the input (v1Module: for terminateAtV1Module)?
func c10tAnswer(config c10tConfig, dir string, input string, v1Module bool) (answers bool, fails bool) {
	if v1Module {
		switch config.kind {
		case c10tInvalid:
			return false, true
		case c10tV1Module:
			return true, false
		}
		return false, false
	}
	rel := c10tRebase(dir, input)
	switch config.kind {
	case c10tInvalid, c10tBoth:
		return false, true
	case c10tV2:
		if dir == input {
			return true, false
		}
		for _, entry := range config.entries {
			if c10tContains(entry, rel) || c10tContains(rel, entry) {
				return true, false
			}
		}
	case c10tWork:
		if dir == input {
			return true, false
		}
		for _, entry := range config.entries {
			if c10tContains(entry, rel) {
				return true, false
			}
		}
	}
	return false, false
}

// c10tExpect: the nearest directory from the input upwards that controls it.
func c10tExpect(layout c10tLayout, input string, v1Module bool) (dir string, found bool, fails bool) {
	for _, cur := range c10tChain(input) {
		answers, fails := c10tAnswer(layout[cur], cur, input, v1Module)
		if fails {
			return cur, false, true
		}
		if answers {
			return cur, true, false
		}
	}
	return "", false, false
}

// *** planting ***

func c10tConfigString(config c10tConfig) string {
	switch config.kind {
	case c10tV2:
		return fmt.Sprintf("buf.yaml v2 modules %v", config.entries)
	case c10tWork:
		return fmt.Sprintf("buf.work.yaml directories %v", config.entries)
	case c10tV1Module:
		return "buf.yaml v1"
	case c10tInvalid:
		return "unreadable buf.yaml"
	case c10tBoth:
		return fmt.Sprintf("buf.work.yaml directories %v AND buf.yaml v2 modules %v", config.entries, config.entries)
	}
	return "nothing"
}

func c10tLayoutString(layout c10tLayout) string {
	var parts []string
	for _, dir := range c10tDirs {
		if config, ok := layout[dir]; ok && config.kind != c10tNone {
			parts = append(parts, fmt.Sprintf("%q: %s", dir, c10tConfigString(config)))
		}
	}
	if len(parts) == 0 {
		return "bucket{no configuration files}"
	}
	return "bucket{" + strings.Join(parts, "; ") + "}"
}

func c10tV2YAML(entries []string) string {
	var b strings.Builder
	b.WriteString("version: v2\nmodules:\n")
	for _, entry := range entries {
		fmt.Fprintf(&b, "  - path: %s\n", entry)
	}
	return b.String()
}

func c10tWorkYAML(entries []string) string {
	var b strings.Builder
	b.WriteString("version: v1\ndirectories:\n")
	for _, entry := range entries {
		fmt.Fprintf(&b, "  - %s\n", entry)
	}
	return b.String()
}

func c10tBucket(layout c10tLayout) storage.ReadBucket {
	files := map[string][]byte{
		"a/b/c/foo.proto": []byte("syntax = \"proto3\";\npackage foo;\n"),
		"a/x/bar.proto":   []byte("syntax = \"proto3\";\npackage bar;\n"),
	}
	for dir, config := range layout {
		switch config.kind {
		case c10tV2:
			files[c10tJoin(dir, "buf.yaml")] = []byte(c10tV2YAML(config.entries))
		case c10tWork:
			files[c10tJoin(dir, "buf.work.yaml")] = []byte(c10tWorkYAML(config.entries))
		case c10tV1Module:
			files[c10tJoin(dir, "buf.yaml")] = []byte("version: v1\n")
		case c10tInvalid:
			files[c10tJoin(dir, "buf.yaml")] = []byte("version: v9\nmodules: [this is not closed\n")
		case c10tBoth:
			files[c10tJoin(dir, "buf.yaml")] = []byte(c10tV2YAML(config.entries))
			files[c10tJoin(dir, "buf.work.yaml")] = []byte(c10tWorkYAML(config.entries))
		}
	}
	bucket, err := storagemem.NewReadBucket(files)
	if err != nil {
		panic(err)
	}
	return bucket
}

// c10tEntrySets: the module / directory lists planted at dir (relative to dir). The first contains the chain below
// dir (from the second directory below dir on, where there is one), the second only the sibling / nothing of it.
func c10tEntrySets(dir string) [][]string {
	switch dir {
	case ".":
		return [][]string{{"zz", "a/b"}, {"a/x"}, {"a"}, {"zz"}}
	case "a":
		return [][]string{{"zz", "b/c"}, {"x"}, {"b"}, {"zz"}}
	case "a/b":
		return [][]string{{"c"}, {"zz"}, {"c/d"}}
	}
	return [][]string{{"d"}, {"zz"}}
}

// c10tOptions: the configurations of dir; full: all of them, otherwise seven of them.
func c10tOptions(dir string, full bool) []c10tConfig {
	sets := c10tEntrySets(dir)
	if !full {
		sets = sets[:2]
	}
	options := []c10tConfig{{kind: c10tNone}}
	for _, set := range sets {
		options = append(options, c10tConfig{kind: c10tV2, entries: set})
	}
	for _, set := range sets {
		options = append(options, c10tConfig{kind: c10tWork, entries: set})
	}
	options = append(options, c10tConfig{kind: c10tV1Module}, c10tConfig{kind: c10tInvalid})
	if full {
		options = append(options, c10tConfig{kind: c10tV2, entries: []string{"."}}, c10tConfig{kind: c10tBoth, entries: sets[0]})
	}
	return options
}

// *** checks ***

func c10tErrString(err error) string {
	if err == nil {
		return "<nil>"
	}
	text := err.Error()
	if len(text) > 90 {
		text = text[:90] + "..."
	}
	return fmt.Sprintf("error %q", text)
}

func c10tWorkspaceString(workspace ControllingWorkspace) string {
	if workspace == nil {
		return "no controlling workspace"
	}
	kind := "neither file"
	switch {
	case workspace.BufYAMLFile() != nil && workspace.BufWorkYAMLFile() != nil:
		kind = "buf.yaml AND buf.work.yaml"
	case workspace.BufYAMLFile() != nil:
		kind = "buf.yaml " + workspace.BufYAMLFile().FileVersion().String()
	case workspace.BufWorkYAMLFile() != nil:
		kind = "buf.work.yaml"
	}
	return fmt.Sprintf("controlling workspace at %q (%s)", workspace.Path(), kind)
}

func c10tWantString(config c10tConfig, dir string, found bool, fails bool) string {
	switch {
	case fails:
		return fmt.Sprintf("an error (%s at %q)", c10tConfigString(config), dir)
	case !found:
		return "no controlling workspace"
	}
	kind := "buf.yaml v2"
	switch config.kind {
	case c10tWork:
		kind = "buf.work.yaml"
	case c10tV1Module:
		kind = "buf.yaml v1"
	}
	return fmt.Sprintf("controlling workspace at %q (%s)", dir, kind)
}

// c10tCheckWorkspace compares a returned workspace with the planted configuration that is to control; "" if equal.
func c10tCheckWorkspace(workspace ControllingWorkspace, config c10tConfig, dir string) string {
	if workspace == nil {
		return "no controlling workspace"
	}
	if workspace.Path() != dir {
		return c10tWorkspaceString(workspace)
	}
	wantWork := config.kind == c10tWork
	if (workspace.BufWorkYAMLFile() != nil) != wantWork || (workspace.BufYAMLFile() != nil) == wantWork {
		return c10tWorkspaceString(workspace)
	}
	if wantWork {
		var got []string
		got = append(got, workspace.BufWorkYAMLFile().DirPaths()...)
		want := append([]string{}, config.entries...)
		sort.Strings(got)
		sort.Strings(want)
		if fmt.Sprint(got) != fmt.Sprint(want) {
			return c10tWorkspaceString(workspace) + fmt.Sprintf(" with directories %v", got)
		}
		return ""
	}
	wantVersion := bufconfig.FileVersionV2
	if config.kind == c10tV1Module {
		wantVersion = bufconfig.FileVersionV1
	}
	if workspace.BufYAMLFile().FileVersion() != wantVersion {
		return c10tWorkspaceString(workspace)
	}
	if config.kind == c10tV2 {
		var got []string
		for _, moduleConfig := range workspace.BufYAMLFile().ModuleConfigs() {
			got = append(got, moduleConfig.DirPath())
		}
		want := append([]string{}, config.entries...)
		sort.Strings(got)
		sort.Strings(want)
		if fmt.Sprint(got) != fmt.Sprint(want) {
			return c10tWorkspaceString(workspace) + fmt.Sprintf(" with modules %v", got)
		}
	}
	return ""
}

func c10tTerminateTag(config c10tConfig, gotWorkspace bool, wantFound bool, wantFails bool) string {
	switch {
	case wantFails:
		return "failure-gives-nil both-files"
	case gotWorkspace && !wantFound:
		if config.kind == c10tWork {
			return "v1-workspace-contains-input 1.no-directory-contains-so-far one-kind-for-this-directory"
		}
		return "v2-workspace-contains-input 0.no-module-related-so-far one-kind-for-this-directory v1-module-here"
	case !gotWorkspace && wantFound:
		if config.kind == c10tWork {
			return "work-file-here-does-not-contain-input 1.no-directory-contains-so-far rebased-input"
		}
		return "v2-file-here-does-not-contain-input 0.no-module-related-so-far rebased-input"
	}
	return "one-kind-for-this-directory v1-module-here as-given 0"
}

// familyDirect: the terminate functions at one directory.
func (r *c10tRun) familyDirect(ctx context.Context, v1Module bool) {
	name := "terminateAtControllingWorkspace"
	terminate := terminateAtControllingWorkspace
	if v1Module {
		name = "terminateAtV1Module"
		terminate = terminateAtV1Module
	}
	inputs := append(append([]string{}, c10tDirs...), "a/b/c/d")
	for _, prefix := range c10tDirs {
		for _, config := range c10tOptions(prefix, true) {
			layout := c10tLayout{prefix: config}
			bucket := c10tBucket(layout)
			for _, input := range inputs {
				if !c10tContains(prefix, input) {
					continue
				}
				r.checked++
				wantFound, wantFails := c10tAnswer(config, prefix, input, v1Module)
				workspace, err := terminate(ctx, bucket, prefix, input)
				got := ""
				switch {
				case wantFails:
					if err == nil || workspace != nil {
						got = c10tWorkspaceString(workspace) + ", " + c10tErrString(err)
					}
				case err != nil:
					got = c10tErrString(err)
				case !wantFound:
					if workspace != nil {
						got = c10tWorkspaceString(workspace)
					}
				default:
					got = c10tCheckWorkspace(workspace, config, prefix)
				}
				if got != "" {
					r.fail(c10tTerminateTag(config, workspace != nil, wantFound, wantFails),
						"%s(%s, prefix=%q, originalInputPath=%q): got %s; want %s",
						name, c10tLayoutString(layout), prefix, input, got, c10tWantString(config, prefix, wantFound, wantFails))
				}
			}
		}
	}
}

const c10tWalkTags = "0.on-the-chain 0.nothing-below-answered"

type c10tSyntheticCall struct {
	prefix string
	input  string
}

// familySynthetic: mapControllingWorkspaceAndPath with a recording terminate function.
func (r *c10tRun) familySynthetic(ctx context.Context) {
	bucket := c10tBucket(c10tLayout{})
	planted := errors.New("terminate function fails (planted)")
	spellings := []struct {
		raw        string
		normalized string // "" = invalid
	}{
		{".", "."}, {"a", "a"}, {"a/b", "a/b"}, {"a/b/c", "a/b/c"}, {"a/x", "a/x"},
		{"a/b/", "a/b"}, {"./a/b/c", "a/b/c"}, {"a//x", "a/x"}, {"a/b/../x", "a/x"}, {"", "."},
		{"../a", ""}, {"/a/b", ""}, {"a/../..", ""},
	}
	for _, spelling := range spellings {
		// no terminate function: nothing is searched
		r.checked++
		workspace, subDirPath, err := mapControllingWorkspaceAndPath(ctx, c10tLogger, bucket, spelling.raw, nil)
		if spelling.normalized == "" {
			if err == nil || workspace != nil {
				r.fail("invalid-input-rejected", "mapControllingWorkspaceAndPath(path=%q, no terminate function): got %s, subDirPath %q, %s; want an error (the path leaves the bucket)",
					spelling.raw, c10tWorkspaceString(workspace), subDirPath, c10tErrString(err))
			}
		} else if err != nil || workspace != nil || subDirPath != spelling.normalized {
			r.fail("no-terminate-func-no-search", "mapControllingWorkspaceAndPath(path=%q, no terminate function): got %s, subDirPath %q, %s; want no controlling workspace, subDirPath %q",
				spelling.raw, c10tWorkspaceString(workspace), subDirPath, c10tErrString(err), spelling.normalized)
		}
		if spelling.normalized == "" {
			r.checked++
			asked := 0
			workspace, subDirPath, err := mapControllingWorkspaceAndPath(ctx, c10tLogger, bucket, spelling.raw,
				func(context.Context, storage.ReadBucket, string, string) (ControllingWorkspace, error) {
					asked++
					return &controllingWorkspace{path: "."}, nil
				})
			if err == nil || workspace != nil {
				r.fail("invalid-input-rejected", "mapControllingWorkspaceAndPath(path=%q, terminate function that always answers): got %s, subDirPath %q, %s; want an error (the path leaves the bucket)",
					spelling.raw, c10tWorkspaceString(workspace), subDirPath, c10tErrString(err))
			}
			continue
		}
		input := spelling.normalized
		chain := c10tChain(input)
		total := 1
		for range chain {
			total *= 3
		}
		for code := 0; code < total; code++ {
			r.checked++
			// behaviour[dir]: 0 silent, 1 answers, 2 fails
			behaviour := map[string]int{}
			var answering, failing []string
			rest := code
			for _, dir := range chain {
				behaviour[dir] = rest % 3
				switch rest % 3 {
				case 1:
					answering = append(answering, dir)
				case 2:
					failing = append(failing, dir)
				}
				rest /= 3
			}
			workspaces := map[string]*controllingWorkspace{}
			for _, dir := range chain {
				workspaces[dir] = &controllingWorkspace{path: dir}
			}
			var calls []c10tSyntheticCall
			foreignBucket := false
			terminate := func(_ context.Context, b storage.ReadBucket, prefix string, originalInputPath string) (ControllingWorkspace, error) {
				calls = append(calls, c10tSyntheticCall{prefix: prefix, input: originalInputPath})
				if b != bucket {
					foreignBucket = true
				}
				if originalInputPath != input {
					return nil, nil
				}
				switch behaviour[prefix] {
				case 1:
					return workspaces[prefix], nil
				case 2:
					return nil, planted
				}
				return nil, nil
			}
			// the model: walk up from the input
			wantDir, wantFound, wantFails := "", false, false
			var wantCalls []c10tSyntheticCall
			for _, dir := range chain {
				wantCalls = append(wantCalls, c10tSyntheticCall{prefix: dir, input: input})
				if behaviour[dir] == 2 {
					wantDir, wantFails = dir, true
					break
				}
				if behaviour[dir] == 1 {
					wantDir, wantFound = dir, true
					break
				}
			}
			workspace, subDirPath, err := mapControllingWorkspaceAndPath(ctx, c10tLogger, bucket, spelling.raw, terminate)
			description := fmt.Sprintf("mapControllingWorkspaceAndPath(path=%q, terminate function answering at %q, failing at %q)", spelling.raw, answering, failing)
			got := fmt.Sprintf("%s, subDirPath %q, %s", c10tWorkspaceString(workspace), subDirPath, c10tErrString(err))
			switch {
			case wantFails:
				if err == nil || workspace != nil {
					r.fail(c10tWalkTags+" found-at-an-ancestor", "%s: got %s; want the error of the terminate function at %q (nothing below it answers)", description, got, wantDir)
					continue
				}
			case wantFound:
				tag := c10tWalkTags + " found-at-an-ancestor"
				if wantDir == input {
					tag = c10tWalkTags + " input-directory-asked-first found-at-an-ancestor"
				}
				if err != nil || workspace == nil || workspace != ControllingWorkspace(workspaces[wantDir]) {
					if workspace == nil && err == nil {
						tag = c10tWalkTags + " none-found-means-none-answers input-directory-asked-first"
					}
					r.fail(tag, "%s: got %s; want the workspace answered at %q (the nearest directory that answers), subDirPath %q",
						description, got, wantDir, c10tRebase(wantDir, input))
					continue
				}
				if subDirPath != c10tRebase(wantDir, input) {
					r.fail(tag, "%s: got %s; want subDirPath %q (the input re-based onto %q)", description, got, c10tRebase(wantDir, input), wantDir)
					continue
				}
			default:
				if err != nil || workspace != nil || subDirPath != input {
					r.fail(c10tWalkTags+" none-found-means-none-answers", "%s: got %s; want no controlling workspace, subDirPath %q", description, got, input)
					continue
				}
			}
			if fmt.Sprint(calls) != fmt.Sprint(wantCalls) || foreignBucket {
				r.fail("calls-in-order", "%s: the terminate function was asked (prefix, originalInputPath) %v; want %v (the input directory first, then each parent, up to the first answer)",
					description, calls, wantCalls)
			}
		}
	}
}

func c10tTargets(input string) ([]string, []string) {
	return []string{c10tJoin(input, "foo.proto"), c10tJoin(input, "sub")}, []string{c10tJoin(input, "sub/ex"), c10tJoin(input, "sub/deep/ex.proto")}
}

// c10tWalkOne: one bucket, one input directory, through NewBucketTargeting (and mapControllingWorkspaceAndPath).
func (r *c10tRun) c10tWalkOne(ctx context.Context, layout c10tLayout, bucket storage.ReadBucket, input string, v1Module bool, withTargets bool) {
	r.checked++
	terminateName := "TerminateAtControllingWorkspace"
	terminate := TerminateFunc(TerminateAtControllingWorkspace)
	if v1Module {
		terminateName = "TerminateAtV1Module"
		terminate = TerminateAtV1Module
	}
	var targets, excludes []string
	if withTargets {
		targets, excludes = c10tTargets(input)
	}
	wantDir, wantFound, wantFails := c10tExpect(layout, input, v1Module)
	wantSubDir, wantTargets, wantExcludes := input, targets, excludes
	if wantFound {
		wantSubDir, wantTargets, wantExcludes = c10tRebase(wantDir, input), c10tRebaseAll(wantDir, targets), c10tRebaseAll(wantDir, excludes)
	}
	want := c10tWantString(layout[wantDir], wantDir, wantFound, wantFails)
	if !wantFails {
		want += fmt.Sprintf(", SubDirPath %q, TargetPaths %q, TargetExcludePaths %q", wantSubDir, wantTargets, wantExcludes)
	}
	description := fmt.Sprintf("NewBucketTargeting(%s, subDirPath=%q, targetPaths=%q, targetExcludePaths=%q, %s)",
		c10tLayoutString(layout), input, targets, excludes, terminateName)
	tag := c10tWalkTags + " found-at-an-ancestor"
	if wantFound && wantDir == input {
		tag += " input-directory-asked-first"
	}
	// the slices are re-based in place: hand over copies
	targeting, err := NewBucketTargeting(ctx, c10tLogger, bucket, input, append([]string(nil), targets...), append([]string(nil), excludes...), terminate)
	if pointer, ok := targeting.(*bucketTargeting); ok && pointer == nil {
		targeting = nil // on failure the interface value wraps a nil pointer
	}
	if wantFails {
		if err == nil || targeting != nil {
			got := "a result"
			if targeting != nil {
				got = c10tWorkspaceString(targeting.ControllingWorkspace())
			}
			r.fail(tag+" failure-gives-nil", "%s: got %s, %s; want %s", description, got, c10tErrString(err), want)
		}
		return
	}
	if err != nil || targeting == nil {
		r.fail(tag, "%s: got %s; want %s", description, c10tErrString(err), want)
		return
	}
	got := fmt.Sprintf("%s, SubDirPath %q, TargetPaths %q, TargetExcludePaths %q",
		c10tWorkspaceString(targeting.ControllingWorkspace()), targeting.SubDirPath(), targeting.TargetPaths(), targeting.TargetExcludePaths())
	workspace := targeting.ControllingWorkspace()
	if !wantFound {
		if workspace != nil {
			config := layout[workspace.Path()]
			r.fail(c10tTerminateTag(config, true, false, false)+" "+c10tWalkTags, "%s: got %s; want %s", description, got, want)
			return
		}
	} else if c10tCheckWorkspace(workspace, layout[wantDir], wantDir) != "" {
		if workspace == nil {
			tag += " none-found-means-none-answers " + c10tTerminateTag(layout[wantDir], false, true, false)
		} else {
			tag += " " + c10tTerminateTag(layout[workspace.Path()], true, false, false)
		}
		r.fail(tag, "%s: got %s; want %s", description, got, want)
		return
	}
	if targeting.SubDirPath() != wantSubDir || fmt.Sprintf("%q", targeting.TargetPaths()) != fmt.Sprintf("%q", wantTargets) ||
		fmt.Sprintf("%q", targeting.TargetExcludePaths()) != fmt.Sprintf("%q", wantExcludes) {
		r.fail(tag, "%s: got %s; want %s", description, got, want)
		return
	}
	// the same through mapControllingWorkspaceAndPath
	mappedWorkspace, mappedSubDir, err := mapControllingWorkspaceAndPath(ctx, c10tLogger, bucket, input, terminate)
	if err != nil || (mappedWorkspace == nil) != (workspace == nil) || mappedSubDir != wantSubDir || (workspace != nil && mappedWorkspace.Path() != workspace.Path()) {
		r.fail(tag, "mapControllingWorkspaceAndPath(%s, path=%q, %s): got %s, subDirPath %q, %s; want %s",
			c10tLayoutString(layout), input, terminateName, c10tWorkspaceString(mappedWorkspace), mappedSubDir, c10tErrString(err), want)
	}
}

// familyWalk: buckets with every combination of configurations.
func (r *c10tRun) familyWalk(ctx context.Context) {
	// every pair of directories, full configuration lists
	for i, first := range c10tDirs {
		for _, firstConfig := range c10tOptions(first, true) {
			// one directory alone
			layout := c10tLayout{first: firstConfig}
			bucket := c10tBucket(layout)
			for _, input := range c10tDirs {
				r.c10tWalkOne(ctx, layout, bucket, input, false, true)
				r.c10tWalkOne(ctx, layout, bucket, input, false, false)
				r.c10tWalkOne(ctx, layout, bucket, input, true, true)
			}
			for _, second := range c10tDirs[i+1:] {
				if firstConfig.kind == c10tNone {
					continue
				}
				for _, secondConfig := range c10tOptions(second, true) {
					if secondConfig.kind == c10tNone {
						continue
					}
					layout := c10tLayout{first: firstConfig, second: secondConfig}
					bucket := c10tBucket(layout)
					for _, input := range c10tDirs {
						r.c10tWalkOne(ctx, layout, bucket, input, false, true)
						r.c10tWalkOne(ctx, layout, bucket, input, true, true)
					}
				}
			}
		}
	}
	// every combination of configurations on the two chains
	for _, chain := range [][]string{{".", "a", "a/b", "a/b/c"}, {".", "a", "a/x"}} {
		options := make([][]c10tConfig, len(chain))
		total := 1
		for i, dir := range chain {
			options[i] = c10tOptions(dir, true)
			total *= len(options[i])
		}
		for code := 0; code < total; code++ {
			layout := c10tLayout{}
			rest := code
			for i, dir := range chain {
				layout[dir] = options[i][rest%len(options[i])]
				rest /= len(options[i])
			}
			bucket := c10tBucket(layout)
			if len(chain) == 4 {
				for _, input := range chain {
					r.c10tWalkOne(ctx, layout, bucket, input, false, true)
				}
			} else {
				r.c10tWalkOne(ctx, layout, bucket, "a/x", false, true)
			}
		}
	}
}

// familyAccessors: the accessors return what the constructor stored.
func (r *c10tRun) familyAccessors(ctx context.Context) {
	bucket := c10tBucket(c10tLayout{".": {kind: c10tV2, entries: []string{"a"}}, "a": {kind: c10tWork, entries: []string{"b"}}})
	bufYAMLFile, err := bufconfig.GetBufYAMLFileForPrefix(ctx, bucket, ".")
	if err != nil {
		panic(err)
	}
	bufWorkYAMLFile, err := bufconfig.GetBufWorkYAMLFileForPrefix(ctx, bucket, "a")
	if err != nil {
		panic(err)
	}
	for _, path := range []string{".", "a", "a/b"} {
		for code := 0; code < 4; code++ {
			r.checked++
			var work bufconfig.BufWorkYAMLFile
			var yaml bufconfig.BufYAMLFile
			if code&1 != 0 {
				work = bufWorkYAMLFile
			}
			if code&2 != 0 {
				yaml = bufYAMLFile
			}
			description := fmt.Sprintf("(path=%q, bufWorkYAMLFile given=%v, bufYAMLFile given=%v)", path, work != nil, yaml != nil)
			for _, workspace := range []ControllingWorkspace{newControllingWorkspace(path, work, yaml), NewControllingWorkspace(path, work, yaml)} {
				if workspace == nil || workspace.Path() != path || workspace.BufWorkYAMLFile() != work || workspace.BufYAMLFile() != yaml {
					r.fail("as-given 0", "newControllingWorkspace%s: got %s; want Path(), BufWorkYAMLFile(), BufYAMLFile() to return the three arguments", description, c10tWorkspaceString(workspace))
				}
			}
			literal := &controllingWorkspace{path: path, bufWorkYAMLFile: work, bufYAMLFile: yaml}
			if literal.Path() != path || literal.BufWorkYAMLFile() != work || literal.BufYAMLFile() != yaml {
				r.fail("0", "controllingWorkspace%s: got %s from the accessors; want the stored fields", description, c10tWorkspaceString(literal))
			}
			targets, excludes := c10tTargets(path)
			targeting := &bucketTargeting{controllingWorkspace: literal, subDirPath: path, targetPaths: targets, targetExcludePaths: excludes}
			if code == 0 {
				targeting.controllingWorkspace = nil
			}
			if targeting.ControllingWorkspace() != targeting.controllingWorkspace || targeting.SubDirPath() != path ||
				fmt.Sprintf("%q", targeting.TargetPaths()) != fmt.Sprintf("%q", targets) || fmt.Sprintf("%q", targeting.TargetExcludePaths()) != fmt.Sprintf("%q", excludes) {
				r.fail("0", "bucketTargeting{controllingWorkspace%s, subDirPath=%q, targetPaths=%q, targetExcludePaths=%q}: got SubDirPath %q, TargetPaths %q, TargetExcludePaths %q from the accessors; want the stored fields",
					description, path, targets, excludes, targeting.SubDirPath(), targeting.TargetPaths(), targeting.TargetExcludePaths())
			}
		}
	}
}

func TestVerifReplayC10(t *testing.T) {
	fn := os.Getenv("VERIF_REPLAY_FUNC")
	obligation := os.Getenv("VERIF_REPLAY_OBLIGATION")
	ctx := context.Background()
	r := &c10tRun{}
	switch fn {
	case "terminateAtControllingWorkspace", "TerminateAtControllingWorkspace":
		r.familyDirect(ctx, false)
		r.familyWalk(ctx)
	case "terminateAtV1Module", "TerminateAtV1Module":
		r.familyDirect(ctx, true)
		r.familyWalk(ctx)
	case "mapControllingWorkspaceAndPath":
		r.familySynthetic(ctx)
		r.familyWalk(ctx)
	case "newBucketTargeting", "NewBucketTargeting":
		r.familyWalk(ctx)
		r.familySynthetic(ctx)
	case "newControllingWorkspace", "NewControllingWorkspace", "Path", "BufYAMLFile", "BufWorkYAMLFile",
		"ControllingWorkspace", "SubDirPath", "TargetPaths", "TargetExcludePaths":
		r.familyAccessors(ctx)
		r.familyDirect(ctx, false)
		r.familyDirect(ctx, true)
		r.familyWalk(ctx)
	default:
		fmt.Printf("VERIF-REPLAY no harness for %q\n", fn)
		return
	}
	label := ""
	if i := strings.LastIndex(obligation, "["); i >= 0 {
		label = strings.TrimSuffix(obligation[i+1:], "]")
	}
	matches := func(f c10tFailure) bool {
		return label != "" && strings.Contains(" "+f.tag+" ", " "+label+" ")
	}
	sort.SliceStable(r.failures, func(a, b int) bool {
		return matches(r.failures[a]) && !matches(r.failures[b])
	})
	for i, f := range r.failures {
		if i >= 5 {
			break
		}
		fmt.Printf("VERIF-REPLAY FAILING-INPUT %s\n", f.text)
	}
	fmt.Printf("VERIF-REPLAY %s: checked %d inputs, %d deviations from the documented behaviour\n", fn, r.checked, len(r.failures))
}
