package bufprotoplugin

// Replay / bounded contract run for the C17 obligation of package bufprotoplugin (injected with go test -overlay):
// ValidatePluginResponses over all lists of one to three plugin responses, each with up to two files drawn from
// a small set of (name, insertion point) pairs - names a.go, b.go, dir/a.go, an equivalent spelling ./a.go;
// insertion point absent, explicitly empty, or set - and output locations gen, gen/, gen2, gen/dir.
// Oracle (contract clause duplicates-rejected and the property text): the call fails exactly when two files that
// are not insertion points (insertion point absent or empty) have the same output path out/name, whether they
// come from two plugins or from one.

import (
	"fmt"
	"os"
	"path"
	"strings"
	"testing"

	"google.golang.org/protobuf/proto"
	"google.golang.org/protobuf/types/pluginpb"
)

type vr17File struct {
	name      string
	insertion *string
}

func (f vr17File) String() string {
	switch {
	case f.insertion == nil:
		return f.name
	case *f.insertion == "":
		return f.name + `(insertion_point:"")`
	}
	return f.name + "(insertion_point:" + *f.insertion + ")"
}

func TestVerifReplayC17(t *testing.T) {
	fn := os.Getenv("VERIF_REPLAY_FUNC")
	if fn != "ValidatePluginResponses" {
		fmt.Printf("VERIF-REPLAY no harness for %q\n", fn)
		return
	}
	files := []vr17File{
		{"a.go", nil}, {"a.go", proto.String("")}, {"a.go", proto.String("imports")}, {"b.go", nil}, {"dir/a.go", nil}, {"./a.go", nil},
	}
	var fileSets [][]vr17File
	fileSets = append(fileSets, nil)
	for i, a := range files {
		fileSets = append(fileSets, []vr17File{a})
		for _, b := range files[i:] {
			fileSets = append(fileSets, []vr17File{a, b})
		}
	}
	outs := []string{"gen", "gen/", "gen2", "gen/dir"}
	type resp struct {
		out   string
		files []vr17File
	}
	var resps []resp
	for _, out := range outs {
		for _, fs := range fileSets {
			if out != "gen" && len(fs) == 2 {
				continue
			}
			resps = append(resps, resp{out, fs})
		}
	}
	found, tried := 0, 0
	check := func(list []resp) {
		tried++
		var in []*PluginResponse
		var desc []string
		seen := map[string]bool{}
		dup := ""
		for i, r := range list {
			cg := &pluginpb.CodeGeneratorResponse{}
			var names []string
			for _, f := range r.files {
				cg.File = append(cg.File, &pluginpb.CodeGeneratorResponse_File{Name: proto.String(f.name), InsertionPoint: f.insertion, Content: proto.String("x")})
				names = append(names, f.String())
				if f.insertion != nil && *f.insertion != "" {
					continue
				}
				full := path.Clean(r.out + "/" + f.name)
				if seen[full] && dup == "" {
					dup = full
				}
				seen[full] = true
			}
			in = append(in, NewPluginResponse(cg, fmt.Sprintf("plugin%d", i), r.out))
			desc = append(desc, fmt.Sprintf("plugin%d{out %q, files [%s]}", i, r.out, strings.Join(names, ", ")))
		}
		err := ValidatePluginResponses(in)
		switch {
		case dup != "" && err == nil:
			if found < 4 {
				fmt.Printf("VERIF-REPLAY FAILING-INPUT ValidatePluginResponses(%s) = nil although the output path %q is produced twice (the same output path produced by two plugins, or twice by one, is an error)\n", strings.Join(desc, ", "), dup)
			}
			found++
		case dup == "" && err != nil:
			if found < 4 {
				fmt.Printf("VERIF-REPLAY FAILING-INPUT ValidatePluginResponses(%s) fails (%v) although no output path is produced twice\n", strings.Join(desc, ", "), err)
			}
			found++
		}
	}
	for _, a := range resps {
		check([]resp{a})
	}
	for _, a := range resps {
		for _, b := range resps {
			check([]resp{a, b})
		}
	}
	small := resps[:0:0]
	for _, r := range resps {
		if len(r.files) == 1 {
			small = append(small, r)
		}
	}
	for _, a := range small {
		for _, b := range small {
			for _, c := range small {
				check([]resp{a, b, c})
			}
		}
	}
	if found == 0 {
		fmt.Printf("VERIF-REPLAY no failing input found for %s (%d response lists)\n", fn, tried)
	} else {
		fmt.Printf("VERIF-REPLAY %d failing inputs in total for %s (%d tried)\n", found, fn, tried)
	}
}
