package app

// Replay harness (ca-r4f) for the C20 obligations app.Run / app.printError / app.NewErrorf / app.appError.Unwrap (injected by
// gocv with `go test -overlay`; never written into /repo). Documented: Run returns the error of the command function
// unchanged (nil for success) and prints its message to stderr exactly once, nothing for an empty message and nothing for a
// success; Unwrap gives the wrapped error.

import (
	"bytes"
	"context"
	"errors"
	"fmt"
	"os"
	"testing"
)

func TestVerifReplayC20R4f(t *testing.T) {
	fn := os.Getenv("VERIF_REPLAY_FUNC")
	switch fn {
	case "Run", "printError", "NewErrorf", "Unwrap":
	default:
		fmt.Printf("VERIF-REPLAY no harness for %q\n", fn)
		return
	}
	found, tried := 0, 0
	report := func(format string, a ...any) {
		if found < 4 {
			fmt.Printf("VERIF-REPLAY FAILING-INPUT "+format+"\n", a...)
		}
		found++
	}
	for _, message := range []string{"boom", "", "two\nlines", "<\"q\"> é"} {
		for _, code := range []int{1, 100} {
			tried++
			cmdErr := NewErrorf(code, "%s", message)
			stderr := bytes.NewBuffer(nil)
			container := NewContainer(nil, nil, nil, stderr)
			got := Run(context.Background(), container, func(context.Context, Container) error { return cmdErr })
			want := ""
			if message != "" {
				want = message + "\n"
			}
			switch {
			case got != cmdErr:
				report("Run(f returning NewErrorf(%d, \"%%s\", %q)) returns %v; documented: the error of f, unchanged", code, message, got)
			case GetExitCode(got) != code:
				report("Run(f returning NewErrorf(%d, \"%%s\", %q)): exit code %d; documented %d", code, message, GetExitCode(got), code)
			case stderr.String() != want:
				report("Run(f returning an error with message %q) writes %q to stderr; documented: the message once, nothing for an empty message", message, stderr.String())
			}
			if u := errors.Unwrap(cmdErr); u == nil || u.Error() != message {
				report("errors.Unwrap(NewErrorf(%d, \"%%s\", %q)) = %v; documented: the wrapped error", code, message, u)
			}
			stderr2 := bytes.NewBuffer(nil)
			printError(NewContainer(nil, nil, nil, stderr2), cmdErr)
			if stderr2.String() != want {
				report("printError(error with message %q) writes %q to stderr; documented: the message once, nothing for an empty message", message, stderr2.String())
			}
		}
	}
	tried++
	stderr := bytes.NewBuffer(nil)
	if got := Run(context.Background(), NewContainer(nil, nil, nil, stderr), func(context.Context, Container) error { return nil }); got != nil || stderr.Len() != 0 {
		report("Run(f returning nil) = %v, stderr %q; documented: nil and no output", got, stderr.String())
	}
	if found == 0 {
		fmt.Printf("VERIF-REPLAY no failing input found for %s (%d inputs)\n", fn, tried)
	}
}
