package bufanalysis

// Replay harness for the C20 obligations of the LIST printers of package bufanalysis (injected by gocv with
// `go test -overlay`; never written into /repo). Author ca-R4. The per-annotation formats are the subject of
// bufanalysis_c20_test.go; here whole lists are printed:
//
//   - printAsText / printAsMSVS / printAsJSON / printAsGithubActions / printEachAnnotationOnNewLine / PrintFileAnnotationSet:
//     all lists of length 0..3 over seven annotations (three files, no file, with/without plugin, empty message, two equal
//     ones) are printed into a writer that records every Write. Documented: exactly one record is handed to the writer
//     per annotation, the i-th record is the rendering of the i-th annotation (text and msvs: the documented line,
//     written out here by hand; json and github-actions: the per-annotation printer on a fresh buffer) followed by "\n"
//     and nothing else. With a writer whose k-th Write fails, or a printer that fails on the j-th annotation, the error
//     is returned, the records before it are exactly the renderings of a prefix, and nothing is written afterwards.
//   - printAsJUnit / printFileAnnotationAsJUnit: the same lists; the output is parsed as XML. Documented: one <testsuite>
//     per path in first-seen order, named by the path without ".proto", tests = failures = the number of annotations of
//     that path, errors = 0; inside it one <testcase> per annotation of that path in order, named TYPE_line_col, with one
//     <failure message="<the text record>" type="TYPE">; a failing writer makes the call fail.

import (
	"bytes"
	"encoding/xml"
	"errors"
	"fmt"
	"os"
	"strconv"
	"strings"
	"testing"
)

type vpInfo struct{ p string }

func (i vpInfo) Path() string         { return i.p }
func (i vpInfo) ExternalPath() string { return i.p }

type vpWriter struct {
	writes [][]byte
	failAt int // the Write with this index fails (-1: never)
}

var vpMarker = errors.New("marker failure of the writer")

func (w *vpWriter) Write(p []byte) (int, error) {
	if len(w.writes) == w.failAt {
		w.writes = append(w.writes, nil)
		return 0, vpMarker
	}
	w.writes = append(w.writes, append([]byte(nil), p...))
	return len(p), nil
}

func (w *vpWriter) all() string {
	var b bytes.Buffer
	for _, p := range w.writes {
		b.Write(p)
	}
	return b.String()
}

type vpAnn struct {
	path               string
	line, col          int
	typ, msg, plugin   string
	text, msvs, tcName string // the documented records, written by hand
}

func vpAlphabet() []vpAnn {
	return []vpAnn{
		{"a.proto", 1, 2, "FIELD_LOWER_SNAKE_CASE", "m1", "", "a.proto:1:2:m1", "a.proto(1,2) : error FIELD_LOWER_SNAKE_CASE : m1", "FIELD_LOWER_SNAKE_CASE_1_2"},
		{"a.proto", 3, 4, "COMPILE", "second message", "plug", "a.proto:3:4:second message (plug)", "a.proto(3,4) : error COMPILE : second message (plug)", "COMPILE_3_4"},
		{"b/c.proto", 0, 0, "COMPILE", "", "", "b/c.proto:1:1:COMPILE", "b/c.proto(1,1) : error COMPILE : COMPILE", "COMPILE"},
		{"", 5, 6, "T", "no file", "", "<input>:5:6:no file", "<input>(5,6) : error T : no file", "T_5_6"},
		{"a.proto", 1, 2, "FIELD_LOWER_SNAKE_CASE", "m1", "", "a.proto:1:2:m1", "a.proto(1,2) : error FIELD_LOWER_SNAKE_CASE : m1", "FIELD_LOWER_SNAKE_CASE_1_2"},
		{"b/c.proto", 7, 0, "T", "line only", "", "b/c.proto:7:1:line only", "b/c.proto(7,1) : error T : line only", "T_7"},
		{"dir/report.proto", 2, 3, "T", "r", "", "dir/report.proto:2:3:r", "dir/report.proto(2,3) : error T : r", "T_2_3"},
	}
}

func (a vpAnn) make() FileAnnotation {
	var info FileInfo
	if a.path != "" {
		info = vpInfo{a.path}
	}
	return NewFileAnnotation(info, a.line, a.col, a.line, a.col, a.typ, a.msg, a.plugin)
}

func (a vpAnn) String() string {
	return fmt.Sprintf("{%s %d:%d %s %q plugin=%q}", a.path, a.line, a.col, a.typ, a.msg, a.plugin)
}

type vpSuite struct {
	Name      string `xml:"name,attr"`
	Tests     string `xml:"tests,attr"`
	Failures  string `xml:"failures,attr"`
	Errors    string `xml:"errors,attr"`
	Testcases []struct {
		Name     string `xml:"name,attr"`
		Failures []struct {
			Message string `xml:"message,attr"`
			Type    string `xml:"type,attr"`
		} `xml:"failure"`
	} `xml:"testcase"`
}

func TestVerifReplayC20(t *testing.T) {
	fn := os.Getenv("VERIF_REPLAY_FUNC")
	found := 0
	report := func(format string, a ...any) {
		if found < 4 {
			fmt.Printf("VERIF-REPLAY FAILING-INPUT "+format+"\n", a...)
		}
		found++
	}
	alphabet := vpAlphabet()
	var lists [][]int
	lists = append(lists, nil)
	for i := range alphabet {
		lists = append(lists, []int{i})
	}
	for i := range alphabet {
		for j := range alphabet {
			lists = append(lists, []int{i, j})
		}
	}
	for i := range alphabet {
		for j := range alphabet {
			for k := range alphabet {
				lists = append(lists, []int{i, j, k})
			}
		}
	}
	type format struct {
		name    string
		print   func(w *vpWriter, anns []FileAnnotation) error
		printer func(*bytes.Buffer, FileAnnotation) error
		record  func(a vpAnn, real FileAnnotation) string
	}
	viaPrinter := func(p func(*bytes.Buffer, FileAnnotation) error) func(a vpAnn, real FileAnnotation) string {
		return func(_ vpAnn, real FileAnnotation) string {
			var b bytes.Buffer
			_ = p(&b, real)
			return b.String()
		}
	}
	formats := map[string]format{
		"printAsText": {"text", func(w *vpWriter, anns []FileAnnotation) error { return printAsText(w, anns) }, printFileAnnotationAsText,
			func(a vpAnn, _ FileAnnotation) string { return a.text }},
		"printAsMSVS": {"msvs", func(w *vpWriter, anns []FileAnnotation) error { return printAsMSVS(w, anns) }, printFileAnnotationAsMSVS,
			func(a vpAnn, _ FileAnnotation) string { return a.msvs }},
		"printAsJSON": {"json", func(w *vpWriter, anns []FileAnnotation) error { return printAsJSON(w, anns) }, printFileAnnotationAsJSON,
			viaPrinter(printFileAnnotationAsJSON)},
		"printAsGithubActions": {"github-actions", func(w *vpWriter, anns []FileAnnotation) error { return printAsGithubActions(w, anns) }, printFileAnnotationAsGithubActions,
			viaPrinter(printFileAnnotationAsGithubActions)},
	}
	var selected []string
	junit := false
	switch fn {
	case "printAsText", "printAsMSVS", "printAsJSON", "printAsGithubActions":
		selected = []string{fn}
	case "printEachAnnotationOnNewLine", "PrintFileAnnotationSet":
		selected = []string{"printAsMSVS", "printAsText", "printAsJSON", "printAsGithubActions"}
		junit = fn == "PrintFileAnnotationSet"
	case "printAsJUnit", "printFileAnnotationAsJUnit", "groupAnnotationsByPath":
		junit = true
	default:
		fmt.Printf("VERIF-REPLAY no harness for %q\n", fn)
		return
	}
	tried := 0
	describe := func(list []int) string {
		var parts []string
		for _, i := range list {
			parts = append(parts, alphabet[i].String())
		}
		return "[" + strings.Join(parts, ", ") + "]"
	}
	for _, name := range selected {
		f := formats[name]
		for _, list := range lists {
			var anns []FileAnnotation
			var want []string
			for _, i := range list {
				real := alphabet[i].make()
				anns = append(anns, real)
				want = append(want, f.record(alphabet[i], real)+"\n")
			}
			// plain run, and the same through the public entry
			for _, public := range []bool{false, true} {
				if public && len(anns) == 0 {
					continue
				}
				tried++
				w := &vpWriter{failAt: -1}
				var err error
				input := fmt.Sprintf("%s(recording writer, %s)", name, describe(list))
				if public {
					// PrintFileAnnotationSet prints the SET: sorted and deduplicated; only lists that are already in set form are used
					set := NewFileAnnotationSet(anns...)
					if len(set.FileAnnotations()) != len(anns) {
						continue
					}
					same := true
					for i, a := range set.FileAnnotations() {
						same = same && a == anns[i]
					}
					if !same {
						continue
					}
					err = PrintFileAnnotationSet(w, set, f.name)
					input = fmt.Sprintf("PrintFileAnnotationSet(recording writer, set of %s, %q)", describe(list), f.name)
				} else {
					err = f.print(w, anns)
				}
				if err != nil {
					report("%s fails: %v", input, err)
					continue
				}
				var got []string
				for _, p := range w.writes {
					got = append(got, string(p))
				}
				if fmt.Sprintf("%q", got) != fmt.Sprintf("%q", want) {
					report("%s hands the writer the records %q; documented: one record per annotation, the i-th from the i-th annotation, each ending its line: %q", input, got, want)
				}
			}
			// the k-th Write fails
			for k := 0; k < len(anns); k++ {
				tried++
				w := &vpWriter{failAt: k}
				err := f.print(w, anns)
				input := fmt.Sprintf("%s(writer whose Write number %d fails, %s)", name, k+1, describe(list))
				var got []string
				for _, p := range w.writes[:min(k, len(w.writes))] {
					got = append(got, string(p))
				}
				switch {
				case !errors.Is(err, vpMarker):
					report("%s returns %v; documented: the writer's failure is returned", input, err)
				case len(w.writes) != k+1:
					report("%s: %d Writes were issued; documented: nothing is written after the failed Write (%d expected)", input, len(w.writes), k+1)
				case fmt.Sprintf("%q", got) != fmt.Sprintf("%q", want[:k]):
					report("%s: the records before the failure are %q; documented: the renderings of the first %d annotations %q", input, got, k, want[:k])
				}
			}
		}
		// a printer that fails on the j-th annotation (printEachAnnotationOnNewLine directly)
		if fn == "printEachAnnotationOnNewLine" {
			for _, list := range lists {
				for j := range list {
					tried++
					var anns []FileAnnotation
					var want []string
					for _, i := range list {
						real := alphabet[i].make()
						anns = append(anns, real)
						want = append(want, f.record(alphabet[i], real)+"\n")
					}
					calls := 0
					w := &vpWriter{failAt: -1}
					err := printEachAnnotationOnNewLine(w, anns, func(b *bytes.Buffer, a FileAnnotation) error {
						calls++
						if calls == j+1 {
							return vpMarker
						}
						return f.printer(b, a)
					})
					var got []string
					for _, p := range w.writes {
						got = append(got, string(p))
					}
					if !errors.Is(err, vpMarker) || fmt.Sprintf("%q", got) != fmt.Sprintf("%q", want[:j]) || calls != j+1 {
						report("printEachAnnotationOnNewLine(recording writer, %s, the %s printer made to fail on annotation number %d) returns %v after %d printer calls with records %q; documented: that error, the first %d records, nothing after", describe(list), f.name, j+1, err, calls, got, j)
					}
				}
			}
		}
	}
	if junit {
		for _, list := range lists {
			tried++
			var anns []FileAnnotation
			for _, i := range list {
				anns = append(anns, alphabet[i].make())
			}
			// documented structure: groups by path in first-seen order
			type group struct {
				name  string
				cases []vpAnn
			}
			var groups []*group
			for _, i := range list {
				a := alphabet[i]
				name := a.path
				if name == "" {
					name = "<input>"
				}
				name = strings.TrimSuffix(name, ".proto")
				var g *group
				for _, have := range groups {
					if have.name == name {
						g = have
					}
				}
				if g == nil {
					g = &group{name: name}
					groups = append(groups, g)
				}
				g.cases = append(g.cases, a)
			}
			w := &vpWriter{failAt: -1}
			input := fmt.Sprintf("printAsJUnit(recording writer, %s)", describe(list))
			if err := printAsJUnit(w, anns); err != nil {
				report("%s fails: %v", input, err)
				continue
			}
			var doc struct {
				Suites []vpSuite `xml:"testsuite"`
			}
			if err := xml.Unmarshal([]byte(w.all()), &doc); err != nil {
				report("%s: the output is not well-formed XML (%v): %q", input, err, w.all())
				continue
			}
			if !strings.HasSuffix(w.all(), "\n") {
				report("%s: the output does not end with a newline", input)
			}
			if len(doc.Suites) != len(groups) {
				report("%s prints %d test suites; documented: one per path, %d", input, len(doc.Suites), len(groups))
				continue
			}
			for gi, g := range groups {
				s := doc.Suites[gi]
				n := strconv.Itoa(len(g.cases))
				switch {
				case s.Name != g.name:
					report("%s: suite %d is named %q; documented: the paths in first-seen order, without .proto: %q", input, gi+1, s.Name, g.name)
				case s.Tests != n || s.Failures != n || s.Errors != "0":
					report("%s: suite %q announces tests=%s failures=%s errors=%s; documented: tests=failures=%s (its own annotations), errors=0", input, s.Name, s.Tests, s.Failures, s.Errors, n)
				case len(s.Testcases) != len(g.cases):
					report("%s: suite %q holds %d test cases; documented: one per annotation of that path, %d", input, s.Name, len(s.Testcases), len(g.cases))
				default:
					for ci, c := range g.cases {
						tc := s.Testcases[ci]
						if tc.Name != c.tcName || len(tc.Failures) != 1 || tc.Failures[0].Message != c.text || tc.Failures[0].Type != c.typ {
							report("%s: test case %d of suite %q is name=%q failures=%+v; documented: name=%q with one failure message=%q type=%q (the text record of annotation %s)", input, ci+1, s.Name, tc.Name, tc.Failures, c.tcName, c.text, c.typ, c)
							break
						}
					}
				}
			}
			// a failing writer fails the call
			if len(list) > 0 {
				tried++
				fw := &vpWriter{failAt: 0}
				if err := printAsJUnit(fw, anns); !errors.Is(err, vpMarker) {
					report("printAsJUnit(writer whose first Write fails, %s) returns %v; documented: the writer's failure is returned", describe(list), err)
				}
			}
		}
	}
	if found == 0 {
		fmt.Printf("VERIF-REPLAY no failing input found for %s (%d printed lists)\n", fn, tried)
	}
}
