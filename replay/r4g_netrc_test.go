package netrc

// Replay / bounded contract run for the C19 obligations of ca-r4g in package netrc (storing and deleting .netrc
// entries). Injected with go test -overlay; evaluates the documented behaviour at run time on the real code and the
// real go-netrc library, on real files in a temporary directory.

import (
	"fmt"
	"os"
	"path/filepath"
	"strings"
	"testing"

	gonetrc "github.com/jdx/go-netrc"
)

type vfR4gEntry struct{ name, login, password string }

// vfR4gRead returns the entries of the file by machine name (the default entry under "default") and the number of
// entries per name; ok is false if there is no file.
func vfR4gRead(path string) (map[string]vfR4gEntry, map[string]int, bool) {
	if _, err := os.Stat(path); err != nil {
		return nil, nil, false
	}
	n, err := gonetrc.Parse(path)
	if err != nil {
		return nil, nil, false
	}
	entries := map[string]vfR4gEntry{}
	counts := map[string]int{}
	for _, m := range n.Machines() {
		counts[m.Name]++
		if _, seen := entries[m.Name]; !seen {
			entries[m.Name] = vfR4gEntry{m.Name, m.Get("login"), m.Get("password")}
		}
	}
	return entries, counts, true
}

func TestVerifReplayC19R4g(t *testing.T) {
	fn := os.Getenv("VERIF_REPLAY_FUNC")
	found := 0
	report := func(format string, a ...any) {
		if found < 5 {
			fmt.Printf("VERIF-REPLAY FAILING-INPUT "+format+"\n", a...)
		}
		found++
	}
	dir := t.TempDir()
	initials := []string{
		"<no file>",
		"",
		"machine a login la password pa\n",
		"machine a login la password pa\nmachine b login lb password pb\n",
		"machine b login lb password pb\ndefault login ld password pd\n",
		// a file that already has two entries of one name: after a put of that name there must be exactly one
		"machine a login la password pa\nmachine b login lb password pb\nmachine a login lx password px\n",
		"machine a login la password pa\nmachine go.a login lg password pg\nmachine b login lb password pb\ndefault login ld password pd\n",
	}
	names := []string{"a", "b", "c", "go.a"}
	env := func(path string) vfR4gEnv { return vfR4gEnv{"NETRC": path} }
	prepare := func(k int, content string) string {
		path := filepath.Join(dir, fmt.Sprintf("netrc-%d", k))
		os.Remove(path)
		if content != "<no file>" {
			if err := os.WriteFile(path, []byte(content), 0o600); err != nil {
				t.Fatal(err)
			}
		}
		return path
	}
	k := 0
	switch fn {
	case "putMachinesForFilePath", "PutMachines", "NewMachine":
		var puts [][]vfR4gEntry
		for _, n1 := range names {
			puts = append(puts, []vfR4gEntry{{n1, "L1", "P1"}})
			for _, n2 := range names {
				if n2 != n1 {
					puts = append(puts, []vfR4gEntry{{n1, "L1", "P1"}, {n2, "L2", "P2"}})
				}
			}
		}
		for _, content := range initials {
			for _, put := range puts {
				k++
				path := prepare(k, content)
				before, _, _ := vfR4gRead(path)
				var machines []Machine
				for _, e := range put {
					machines = append(machines, NewMachine(e.name, e.login, e.password))
				}
				var err error
				if fn == "putMachinesForFilePath" {
					err = putMachinesForFilePath(machines, path)
				} else {
					err = PutMachines(env(path), machines...)
				}
				if err != nil {
					report("file %q, put %v: unexpected error %v", content, put, err)
					continue
				}
				after, counts, ok := vfR4gRead(path)
				if !ok {
					report("file %q, put %v: no readable file afterwards", content, put)
					continue
				}
				given := map[string]vfR4gEntry{}
				for _, e := range put {
					given[e.name] = e
				}
				for name, e := range given {
					if after[name] != e {
						report("file %q, put %v: entry %q is %v afterwards, want %v", content, put, name, after[name], e)
					}
					if counts[name] != 1 {
						report("file %q, put %v: %d entries named %q afterwards (replaced, not duplicated)", content, put, counts[name], name)
					}
				}
				for name, e := range before {
					if _, isGiven := given[name]; !isGiven && after[name] != e {
						report("file %q, put %v: entry of OTHER host %q changed from %v to %v", content, put, name, e, after[name])
					}
				}
				for name := range after {
					if _, isGiven := given[name]; !isGiven {
						if _, was := before[name]; !was {
							report("file %q, put %v: new entry %q that was not given", content, put, name)
						}
					}
				}
			}
		}
	case "deleteMachineForFilePath", "DeleteMachineForName":
		for _, content := range initials {
			for _, name := range names {
				k++
				path := prepare(k, content)
				before, _, existed := vfR4gRead(path)
				var deleted bool
				var err error
				if fn == "deleteMachineForFilePath" {
					deleted, err = deleteMachineForFilePath(name, path)
				} else {
					deleted, err = DeleteMachineForName(env(path), name)
				}
				if err != nil {
					report("file %q, delete %q: unexpected error %v", content, name, err)
					continue
				}
				_, had := before[name]
				if deleted != had {
					report("file %q, delete %q: returned %v, but the file had such an entry: %v", content, name, deleted, had)
				}
				after, _, ok := vfR4gRead(path)
				if ok != existed {
					report("file %q, delete %q: file existed before: %v, after: %v", content, name, existed, ok)
					continue
				}
				if _, still := after[name]; still {
					report("file %q, delete %q: the entry is still there", content, name)
				}
				for other, e := range before {
					if other != name && after[other] != e {
						report("file %q, delete %q: entry of OTHER host %q changed from %v to %v", content, name, other, e, after[other])
					}
				}
				for other := range after {
					if _, was := before[other]; !was {
						report("file %q, delete %q: new entry %q", content, name, other)
					}
				}
				if !had && existed {
					if data, _ := os.ReadFile(path); string(data) != content && strings.TrimSpace(content) != "" {
						report("file %q, delete %q: nothing to delete but the file was rewritten to %q", content, name, string(data))
					}
				}
			}
		}
	default:
		fmt.Printf("VERIF-REPLAY no harness for %q\n", fn)
		return
	}
	if found == 0 {
		fmt.Printf("VERIF-REPLAY no failing input found for %s (bounded enumeration)\n", fn)
	}
}

// vfR4gEnv is an app.EnvContainer over a map.
type vfR4gEnv map[string]string

func (e vfR4gEnv) Env(key string) string { return e[key] }
func (e vfR4gEnv) ForEachEnv(f func(string, string)) {
	for k, v := range e {
		f(k, v)
	}
}
