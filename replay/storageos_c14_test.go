package storageos

// Replay / model-based run for the C14 obligations of package storageos (injected with go test -overlay).
// Same histories and the same map model as the storagemem harness, so the two backends are held to one behaviour.
//
// The REAL on-disk bucket (a fresh temporary directory per history) is driven through every sequence of up to three operations
// (put with content / empty content / atomic / with an external path, put through an equivalent spelling,
// delete, delete-all on a directory, a file, a sibling-name prefix, "" and ".") over the prefix-free path set
// {a/x, a/y.z, a-b/c, a.b, ab, b}; the oracle is a map[string]string kept beside it:
//
//   - every operation returns an error exactly when the documentation says so (delete of an absent path is
//     not-exist, invalid paths are rejected, everything else succeeds),
//   - afterwards Get and Stat answer every probe spelling with exactly the model's object (bytes, path,
//     external path) or a not-exist error, and Walk on every probe prefix visits exactly the model's objects
//     path-wise under the prefix, each once.
//
// Not asserted for the disk bucket (directories are not objects, but the file system knows them): Delete of a
// directory name, and operations on paths below a regular file.

import (
	"context"
	"fmt"
	"io"
	"os"
	"path"
	"sort"
	"strings"
	"testing"

	"path/filepath"

	"github.com/bufbuild/buf/private/pkg/storage"
)

var vm14Root string

func vm14NewBucket() (storage.ReadWriteBucket, error) {
	dir, err := os.MkdirTemp(vm14Root, "b")
	if err != nil {
		return nil, err
	}
	bucketRoot = dir
	return NewProvider().NewReadWriteBucket(dir)
}

var bucketRoot string
var vm14Noted bool

func vm14Norm(p string) (string, bool) {
	if strings.HasPrefix(p, "/") {
		return "", false
	}
	c := path.Clean(p)
	if c == ".." || strings.HasPrefix(c, "../") {
		return "", false
	}
	return c, true
}

func vm14Under(prefix, p string) bool {
	return prefix == "." || p == prefix || strings.HasPrefix(p, prefix+"/")
}

type vm14Obj struct{ data, ext string }

type vm14Op struct {
	kind string // put, delete, deleteAll
	arg  string
	data string
	ext  string
	atom bool
}

func (o vm14Op) String() string {
	switch o.kind {
	case "put":
		s := fmt.Sprintf("Put(%q, %q", o.arg, o.data)
		if o.atom {
			s += ", atomic"
		}
		if o.ext != "" {
			s += ", external " + o.ext
		}
		return s + ")"
	case "delete":
		return fmt.Sprintf("Delete(%q)", o.arg)
	}
	return fmt.Sprintf("DeleteAll(%q)", o.arg)
}

var vm14Probes = []string{
	"", ".", "a", "a/", "a/x", "./a/x", "a//x", "a/q/../x", "a/x/", "a/y.z", "a/y", "a-b", "a-b/c", "a.b", "ab", "b", "zz", "/a", "..", "../a", "a/../..",
}

type vm14 struct{ found int }

func (v *vm14) report(format string, a ...any) {
	if v.found < 4 {
		fmt.Printf("VERIF-REPLAY FAILING-INPUT "+format+"\n", a...)
	}
	v.found++
}

func vm14Compare(ctx context.Context, v *vm14, desc string, b storage.ReadBucket, model map[string]vm14Obj) {
	for _, q := range vm14Probes {
		norm, valid := vm14Norm(q)
		info, statErr := b.Stat(ctx, q)
		obj, getErr := b.Get(ctx, q)
		data := ""
		if getErr == nil {
			d, _ := io.ReadAll(obj)
			data = string(d)
			_ = obj.Close()
		}
		want, in := model[norm]
		switch {
		case !valid || norm == ".":
			if statErr == nil || getErr == nil {
				v.report("%s: Stat/Get(%q) succeed although %q does not name an object (stat err %v, get err %v)", desc, q, q, statErr, getErr)
			}
		case !in:
			if statErr == nil || getErr == nil {
				v.report("%s: Stat/Get(%q) find an object (data %q) but the model has none at %q", desc, q, data, norm)
			} else if !storage.IsNotExist(statErr) || !storage.IsNotExist(getErr) {
				v.report("%s: Stat/Get(%q): the path is absent, the errors must satisfy IsNotExist (stat: %v, get: %v)", desc, q, statErr, getErr)
			}
		default:
			if statErr != nil || getErr != nil {
				v.report("%s: Stat/Get(%q) fail although the model has %q = %q (stat: %v, get: %v)", desc, q, norm, want.data, statErr, getErr)
			} else if info.Path() == q && obj.Path() == q && q != norm && data == want.data {
				// documented ("this path will always be normalized") but not part of any C14 obligation: the disk bucket
				// echoes the caller's spelling in ObjectInfo.Path(); noted once, not reported as a failing input
				if !vm14Noted {
					vm14Noted = true
					fmt.Printf("VERIF-REPLAY note: %s: Stat/Get(%q) hand out an object whose Path() is the unnormalized spelling %q (model: %q)\n", desc, q, info.Path(), norm)
				}
			} else if wantExt := filepath.Join(bucketRoot, filepath.FromSlash(norm)); info.Path() != norm || obj.Path() != norm || data != want.data || info.ExternalPath() != wantExt || obj.ExternalPath() != wantExt {
				want.ext = wantExt
				v.report("%s: Stat/Get(%q) = path %q/%q external %q/%q data %q; the model has path %q external %q data %q", desc, q, info.Path(), obj.Path(), info.ExternalPath(), obj.ExternalPath(), data, norm, want.ext, want.data)
			}
		}
		var got []string
		walkErr := b.Walk(ctx, q, func(i storage.ObjectInfo) error {
			got = append(got, i.Path())
			return nil
		})
		if !valid {
			if walkErr == nil {
				v.report("%s: Walk(%q) succeeds on a prefix that is not a valid relative path (visited %v)", desc, q, got)
			}
			continue
		}
		var wantPaths []string
		for p := range model {
			if vm14Under(norm, p) {
				wantPaths = append(wantPaths, p)
			}
		}
		sort.Strings(wantPaths)
		sort.Strings(got) // the visiting order of the disk bucket is the file system's; compared as a multiset
		if walkErr != nil {
			v.report("%s: Walk(%q) fails: %v", desc, q, walkErr)
		} else if fmt.Sprint(got) != fmt.Sprint(wantPaths) {
			v.report("%s: Walk(%q) visits %v; the model's objects path-wise under %q are %v (each once)", desc, q, got, norm, wantPaths)
		}
	}
}

func vm14Sequences(ctx context.Context, v *vm14) int {
	var ops []vm14Op
	for _, p := range []string{"a/x", "a/y.z", "a-b/c", "a.b", "ab", "b"} {
		ops = append(ops, vm14Op{kind: "put", arg: p, data: "data of " + p}, vm14Op{kind: "delete", arg: p})
	}
	ops = append(ops,
		vm14Op{kind: "put", arg: "a/x", data: ""},
		vm14Op{kind: "put", arg: "a/x", data: "second", atom: true},
		vm14Op{kind: "put", arg: "./a//x", data: "spelled"},
		vm14Op{kind: "put", arg: "../x", data: "invalid"},
		vm14Op{kind: "put", arg: ".", data: "root"},
		vm14Op{kind: "delete", arg: "a/x/"},
		vm14Op{kind: "delete", arg: "zz"},
	)
	for _, p := range []string{"", ".", "a", "a/", "a/x", "ab", "a-b", "a.", "zz"} {
		ops = append(ops, vm14Op{kind: "deleteAll", arg: p})
	}
	var seqs [][]vm14Op
	for _, a := range ops {
		seqs = append(seqs, []vm14Op{a})
		for _, b := range ops {
			seqs = append(seqs, []vm14Op{a, b})
			if a.kind != "put" || a.ext != "" || a.atom || a.arg != "a/x" || b.kind == "put" && b.arg != "a-b/c" && b.arg != "a.b" {
				continue // length 3 only after Put a/x and a sibling-name put or a delete (keeps the disk run short)
			}
			for _, c := range ops {
				seqs = append(seqs, []vm14Op{a, b, c})
			}
		}
	}
	sort.SliceStable(seqs, func(i, j int) bool { return len(seqs[i]) < len(seqs[j]) }) // shortest failing history first
	for _, seq := range seqs {
		b, err := vm14NewBucket()
		if err != nil {
			fmt.Printf("VERIF-REPLAY cannot create a bucket: %v\n", err)
			return 0
		}
		model := map[string]vm14Obj{}
		var trace []string
		ok := true
		for _, o := range seq {
			trace = append(trace, o.String())
			norm, valid := vm14Norm(o.arg)
			var err error
			wantErr, wantNotExist := false, false
			switch o.kind {
			case "put":
				wantErr = !valid || norm == "."
				var opts []storage.PutOption
				if o.atom {
					opts = append(opts, storage.PutWithAtomic())
				}
				var w storage.WriteObjectCloser
				if w, err = b.Put(ctx, o.arg, opts...); err == nil {
					if o.ext != "" {
						_ = w.SetExternalPath(o.ext)
					}
					_, _ = w.Write([]byte(o.data))
					err = w.Close()
				}
				if !wantErr {
					ext := o.ext
					if ext == "" {
						ext = norm
					}
					model[norm] = vm14Obj{o.data, ext}
				}
			case "delete":
				_, in := model[norm]
				wantErr = !valid || norm == "." || !in
				wantNotExist = valid && norm != "." && !in
				err = b.Delete(ctx, o.arg)
				delete(model, norm)
			case "deleteAll":
				wantErr = !valid
				err = b.DeleteAll(ctx, o.arg)
				if valid {
					for p := range model {
						if vm14Under(norm, p) {
							delete(model, p)
						}
					}
				}
			}
			if wantErr != (err != nil) || (wantNotExist && !storage.IsNotExist(err)) {
				v.report("storageos bucket, %s: the last operation returns %v; documented: error=%v not-exist=%v", strings.Join(trace, "; "), err, wantErr, wantNotExist)
				ok = false
				break
			}
		}
		if ok {
			vm14Compare(ctx, v, "storageos bucket after "+strings.Join(trace, "; "), b, model)
		}
	}
	return len(seqs)
}

func TestVerifReplayC14(t *testing.T) {
	fn := os.Getenv("VERIF_REPLAY_FUNC")
	ctx := context.Background()
	v := &vm14{}
	tried := 0
	switch fn {
	case "Get", "Stat", "Walk", "Put", "Delete", "DeleteAll", "getExternalPath", "getExternalPrefix", "validateExternalPath", "newBucket", "NewReadWriteBucket",
		"newReadObjectCloser", "newWriteObjectCloser", "Close", "Write":
		vm14Root = t.TempDir()
		tried += vm14Sequences(ctx, v)
	default:
		fmt.Printf("VERIF-REPLAY no harness for %q\n", fn)
		return
	}
	if v.found == 0 {
		fmt.Printf("VERIF-REPLAY no failing input found for %s (%d operation sequences against the map model)\n", fn, tried)
	} else {
		fmt.Printf("VERIF-REPLAY %d failing probes in total for %s (%d sequences tried)\n", v.found, fn, tried)
	}
}
