package storageos

// Replay / model-based run for the C14 obligations of package storageos (injected with go test -overlay).
// Same histories and the same map model as the storagemem harness, so the two backends are held to one behaviour.
//
// The REAL on-disk bucket (a fresh temporary directory per history) is driven through every sequence of up to three operations
// (put with content / empty content / atomic / with an external path, put through an equivalent spelling,
// delete, delete-all on a directory, a file, a sibling-name prefix, "" and ".") over the prefix-free path set
// {a/x, a/y.z, a-b/c, a.b, ab, b}; the oracle is a map[string]string kept beside it:
//
//   - every operation returns an error exactly when the documentation says so (delete of an absent path is
//     not-exist, invalid paths are rejected, everything else succeeds),
//   - afterwards Get and Stat answer every probe spelling with exactly the model's object (bytes, path,
//     external path) or a not-exist error, and Walk on every probe prefix visits exactly the model's objects
//     path-wise under the prefix, each once.
//
// Targeted disk scenarios (ca-R4, functions vr4*; clauses of the C13/C14/C15 contracts of ca-D2), each on a fresh directory
// tree {a.txt, d/b.txt, emptydir/, linkfile -> ../outside2/p.txt, linkdir -> ../outside, dangling -> nowhere}, with a
// bucket that does not follow symlinks and with one that does (provider option AND bucket option):
//
//   - Put: plain and atomic puts of empty / non-empty data to a new path, an existing path, a path in a directory
//     that does not exist yet; the whole tree (and everything beside the bucket root, including $TMPDIR) is
//     snapshotted around every step. Documented: an atomic put leaves the final path exactly as it was (absent or
//     with its old bytes) until Close succeeds, writes nothing outside the bucket root, and leaves no other file
//     behind; a failed Write (the file is closed under the writer), a failed Close and a failed rename (the final
//     path is a non-empty directory) return an error, leave the final path as it was and no temporary file; a put
//     below a regular file or (without the symlink option) through a symlinked directory fails and writes nothing.
//   - Get/Stat/validateExternalPath: only regular files are objects (a symlink to a file only when symlinks are
//     followed); directories, dangling links, absent paths and paths below a regular file are not-exist errors that
//     name the BUCKET path; a failure yields no object; an object carries path, external path, local path, bytes.
//   - Walk: exactly the regular files under the prefix, symlinks followed exactly when the option is on.
//   - Delete: returns nil exactly when the path existed and is gone afterwards (a non-empty directory is not
//     removed: error); a link is removed, not its target. DeleteAll removes a link, not the target's content.
//   - provider/bucket options: symlinks are followed only if both ask for it; the root must be a directory.
//
// Not asserted for the disk bucket (directories are not objects, but the file system knows them): Delete of a
// directory name, and operations on paths below a regular file.

import (
	"context"
	"errors"
	"fmt"
	"io"
	"io/fs"
	"os"
	"path"
	"sort"
	"strings"
	"testing"

	"path/filepath"

	"github.com/bufbuild/buf/private/pkg/storage"
)

var vm14Root string

func vm14NewBucket() (storage.ReadWriteBucket, error) {
	dir, err := os.MkdirTemp(vm14Root, "b")
	if err != nil {
		return nil, err
	}
	bucketRoot = dir
	return NewProvider().NewReadWriteBucket(dir)
}

var bucketRoot string
var vm14Noted bool

func vm14Norm(p string) (string, bool) {
	if strings.HasPrefix(p, "/") {
		return "", false
	}
	c := path.Clean(p)
	if c == ".." || strings.HasPrefix(c, "../") {
		return "", false
	}
	return c, true
}

func vm14Under(prefix, p string) bool {
	return prefix == "." || p == prefix || strings.HasPrefix(p, prefix+"/")
}

type vm14Obj struct{ data, ext string }

type vm14Op struct {
	kind string // put, delete, deleteAll
	arg  string
	data string
	ext  string
	atom bool
}

func (o vm14Op) String() string {
	switch o.kind {
	case "put":
		s := fmt.Sprintf("Put(%q, %q", o.arg, o.data)
		if o.atom {
			s += ", atomic"
		}
		if o.ext != "" {
			s += ", external " + o.ext
		}
		return s + ")"
	case "delete":
		return fmt.Sprintf("Delete(%q)", o.arg)
	}
	return fmt.Sprintf("DeleteAll(%q)", o.arg)
}

var vm14Probes = []string{
	"", ".", "a", "a/", "a/x", "./a/x", "a//x", "a/q/../x", "a/x/", "a/y.z", "a/y", "a-b", "a-b/c", "a.b", "ab", "b", "zz", "/a", "..", "../a", "a/../..",
}

type vm14 struct{ found int }

func (v *vm14) report(format string, a ...any) {
	if v.found < 4 {
		fmt.Printf("VERIF-REPLAY FAILING-INPUT "+format+"\n", a...)
	}
	v.found++
}

func vm14Compare(ctx context.Context, v *vm14, desc string, b storage.ReadBucket, model map[string]vm14Obj) {
	for _, q := range vm14Probes {
		norm, valid := vm14Norm(q)
		info, statErr := b.Stat(ctx, q)
		obj, getErr := b.Get(ctx, q)
		data := ""
		if getErr == nil {
			d, _ := io.ReadAll(obj)
			data = string(d)
			_ = obj.Close()
		}
		want, in := model[norm]
		switch {
		case !valid || norm == ".":
			if statErr == nil || getErr == nil {
				v.report("%s: Stat/Get(%q) succeed although %q does not name an object (stat err %v, get err %v)", desc, q, q, statErr, getErr)
			}
		case !in:
			if statErr == nil || getErr == nil {
				v.report("%s: Stat/Get(%q) find an object (data %q) but the model has none at %q", desc, q, data, norm)
			} else if !storage.IsNotExist(statErr) || !storage.IsNotExist(getErr) {
				v.report("%s: Stat/Get(%q): the path is absent, the errors must satisfy IsNotExist (stat: %v, get: %v)", desc, q, statErr, getErr)
			}
		default:
			if statErr != nil || getErr != nil {
				v.report("%s: Stat/Get(%q) fail although the model has %q = %q (stat: %v, get: %v)", desc, q, norm, want.data, statErr, getErr)
			} else if info.Path() == q && obj.Path() == q && q != norm && data == want.data {
				// documented ("this path will always be normalized") but not part of any C14 obligation: the disk bucket
				// echoes the caller's spelling in ObjectInfo.Path(); noted once, not reported as a failing input
				if !vm14Noted {
					vm14Noted = true
					fmt.Printf("VERIF-REPLAY note: %s: Stat/Get(%q) hand out an object whose Path() is the unnormalized spelling %q (model: %q)\n", desc, q, info.Path(), norm)
				}
			} else if wantExt := filepath.Join(bucketRoot, filepath.FromSlash(norm)); info.Path() != norm || obj.Path() != norm || data != want.data || info.ExternalPath() != wantExt || obj.ExternalPath() != wantExt {
				want.ext = wantExt
				v.report("%s: Stat/Get(%q) = path %q/%q external %q/%q data %q; the model has path %q external %q data %q", desc, q, info.Path(), obj.Path(), info.ExternalPath(), obj.ExternalPath(), data, norm, want.ext, want.data)
			}
		}
		var got []string
		walkErr := b.Walk(ctx, q, func(i storage.ObjectInfo) error {
			got = append(got, i.Path())
			return nil
		})
		if !valid {
			if walkErr == nil {
				v.report("%s: Walk(%q) succeeds on a prefix that is not a valid relative path (visited %v)", desc, q, got)
			}
			continue
		}
		var wantPaths []string
		for p := range model {
			if vm14Under(norm, p) {
				wantPaths = append(wantPaths, p)
			}
		}
		sort.Strings(wantPaths)
		sort.Strings(got) // the visiting order of the disk bucket is the file system's; compared as a multiset
		if walkErr != nil {
			v.report("%s: Walk(%q) fails: %v", desc, q, walkErr)
		} else if fmt.Sprint(got) != fmt.Sprint(wantPaths) {
			v.report("%s: Walk(%q) visits %v; the model's objects path-wise under %q are %v (each once)", desc, q, got, norm, wantPaths)
		}
	}
}

func vm14Sequences(ctx context.Context, v *vm14) int {
	var ops []vm14Op
	for _, p := range []string{"a/x", "a/y.z", "a-b/c", "a.b", "ab", "b"} {
		ops = append(ops, vm14Op{kind: "put", arg: p, data: "data of " + p}, vm14Op{kind: "delete", arg: p})
	}
	ops = append(ops,
		vm14Op{kind: "put", arg: "a/x", data: ""},
		vm14Op{kind: "put", arg: "a/x", data: "second", atom: true},
		vm14Op{kind: "put", arg: "./a//x", data: "spelled"},
		vm14Op{kind: "put", arg: "../x", data: "invalid"},
		vm14Op{kind: "put", arg: ".", data: "root"},
		vm14Op{kind: "delete", arg: "a/x/"},
		vm14Op{kind: "delete", arg: "zz"},
	)
	for _, p := range []string{"", ".", "a", "a/", "a/x", "ab", "a-b", "a.", "zz"} {
		ops = append(ops, vm14Op{kind: "deleteAll", arg: p})
	}
	var seqs [][]vm14Op
	for _, a := range ops {
		seqs = append(seqs, []vm14Op{a})
		for _, b := range ops {
			seqs = append(seqs, []vm14Op{a, b})
			if a.kind != "put" || a.ext != "" || a.atom || a.arg != "a/x" || b.kind == "put" && b.arg != "a-b/c" && b.arg != "a.b" {
				continue // length 3 only after Put a/x and a sibling-name put or a delete (keeps the disk run short)
			}
			for _, c := range ops {
				seqs = append(seqs, []vm14Op{a, b, c})
			}
		}
	}
	sort.SliceStable(seqs, func(i, j int) bool { return len(seqs[i]) < len(seqs[j]) }) // shortest failing history first
	for _, seq := range seqs {
		b, err := vm14NewBucket()
		if err != nil {
			fmt.Printf("VERIF-REPLAY cannot create a bucket: %v\n", err)
			return 0
		}
		model := map[string]vm14Obj{}
		var trace []string
		ok := true
		for _, o := range seq {
			trace = append(trace, o.String())
			norm, valid := vm14Norm(o.arg)
			var err error
			wantErr, wantNotExist := false, false
			switch o.kind {
			case "put":
				wantErr = !valid || norm == "."
				var opts []storage.PutOption
				if o.atom {
					opts = append(opts, storage.PutWithAtomic())
				}
				var w storage.WriteObjectCloser
				if w, err = b.Put(ctx, o.arg, opts...); err == nil {
					if o.ext != "" {
						_ = w.SetExternalPath(o.ext)
					}
					_, _ = w.Write([]byte(o.data))
					err = w.Close()
				}
				if !wantErr {
					ext := o.ext
					if ext == "" {
						ext = norm
					}
					model[norm] = vm14Obj{o.data, ext}
				}
			case "delete":
				_, in := model[norm]
				wantErr = !valid || norm == "." || !in
				wantNotExist = valid && norm != "." && !in
				err = b.Delete(ctx, o.arg)
				delete(model, norm)
			case "deleteAll":
				wantErr = !valid
				err = b.DeleteAll(ctx, o.arg)
				if valid {
					for p := range model {
						if vm14Under(norm, p) {
							delete(model, p)
						}
					}
				}
			}
			if wantErr != (err != nil) || (wantNotExist && !storage.IsNotExist(err)) {
				v.report("storageos bucket, %s: the last operation returns %v; documented: error=%v not-exist=%v", strings.Join(trace, "; "), err, wantErr, wantNotExist)
				ok = false
				break
			}
		}
		if ok {
			vm14Compare(ctx, v, "storageos bucket after "+strings.Join(trace, "; "), b, model)
		}
	}
	return len(seqs)
}

// The same harness serves the C13 / C14 / C15 obligations of the package (registered per property).
func TestVerifReplayC13(t *testing.T) { TestVerifReplayC14(t) }
func TestVerifReplayC15(t *testing.T) { TestVerifReplayC14(t) }

func TestVerifReplayC14(t *testing.T) {
	fn := os.Getenv("VERIF_REPLAY_FUNC")
	ctx := context.Background()
	v := &vm14{}
	tried := 0
	switch fn {
	case "Get", "Stat", "Walk", "Put", "Delete", "DeleteAll", "getExternalPath", "getExternalPrefix", "validateExternalPath", "newBucket", "NewReadWriteBucket",
		"newReadObjectCloser", "newWriteObjectCloser", "Close", "Write":
		tried += vr4Scenarios(t, ctx, v, fn) // the targeted disk scenarios first: their input is the most specific one
		vm14Root = t.TempDir()
		tried += vm14Sequences(ctx, v)
	case "Read", "SetExternalPath", "SetLocalPath", "SetExternalAndLocalPathsSupported", "ProviderWithSymlinks", "ReadWriteBucketWithSymlinksIfSupported",
		"newProvider", "NewProvider", "newReadWriteBucketOptions", "validateDirPathExists", "newErrNotDir", "toStorageError", "Store", "Load":
		tried += vr4Scenarios(t, ctx, v, fn)
	default:
		fmt.Printf("VERIF-REPLAY no harness for %q\n", fn)
		return
	}
	if v.found == 0 {
		fmt.Printf("VERIF-REPLAY no failing input found for %s (%d operation sequences against the map model)\n", fn, tried)
	} else {
		fmt.Printf("VERIF-REPLAY %d failing probes in total for %s (%d sequences tried)\n", v.found, fn, tried)
	}
}

// ---------------------------------------------------------------------------------------------------------------
// ca-R4: targeted disk scenarios

// vr4Snap lists a directory tree without following links: relative path -> "dir" | "link -> target" | "file <bytes>".
func vr4Snap(root string) map[string]string {
	out := map[string]string{}
	_ = filepath.Walk(root, func(p string, info os.FileInfo, err error) error {
		if err != nil || p == root {
			return nil
		}
		rel, _ := filepath.Rel(root, p)
		rel = filepath.ToSlash(rel)
		switch {
		case info.Mode()&os.ModeSymlink != 0:
			target, _ := os.Readlink(p)
			out[rel] = "link -> " + target
		case info.IsDir():
			out[rel] = "dir"
		default:
			data, _ := os.ReadFile(p)
			out[rel] = fmt.Sprintf("file %q", data)
		}
		return nil
	})
	return out
}

func vr4Diff(want, got map[string]string) string {
	var diffs []string
	for p, w := range want {
		if g, ok := got[p]; !ok {
			diffs = append(diffs, fmt.Sprintf("%s (%s) is gone", p, w))
		} else if g != w {
			diffs = append(diffs, fmt.Sprintf("%s is %s instead of %s", p, g, w))
		}
	}
	for p, g := range got {
		if _, ok := want[p]; !ok {
			diffs = append(diffs, fmt.Sprintf("new entry %s (%s)", p, g))
		}
	}
	sort.Strings(diffs)
	return strings.Join(diffs, ", ")
}

func vr4Copy(m map[string]string) map[string]string {
	out := map[string]string{}
	for k, v := range m {
		out[k] = v
	}
	return out
}

type vr4Env struct {
	base, root string
	symlinks   bool
	b          storage.ReadWriteBucket
}

func (e *vr4Env) String() string {
	if e.symlinks {
		return "bucket following symlinks over {a.txt, d/b.txt, emptydir/, linkfile -> ../outside2/p.txt, linkdir -> ../outside, dangling}"
	}
	return "bucket (no symlinks) over {a.txt, d/b.txt, emptydir/, linkfile -> ../outside2/p.txt, linkdir -> ../outside, dangling}"
}

// vr4NewEnv builds base/{root, outside/o.txt, outside2/p.txt, tmp/} and points $TMPDIR at base/tmp.
func vr4NewEnv(t *testing.T, symlinks bool) *vr4Env {
	base, err := os.MkdirTemp(t.TempDir(), "e")
	if err != nil {
		t.Fatal(err)
	}
	if base, err = filepath.EvalSymlinks(base); err != nil {
		t.Fatal(err)
	}
	root := filepath.Join(base, "root")
	for _, d := range []string{"root/d", "root/emptydir", "outside", "outside2", "tmp"} {
		if err := os.MkdirAll(filepath.Join(base, filepath.FromSlash(d)), 0o755); err != nil {
			t.Fatal(err)
		}
	}
	for p, data := range map[string]string{"root/a.txt": "A", "root/d/b.txt": "B", "outside/o.txt": "O", "outside2/p.txt": "P"} {
		if err := os.WriteFile(filepath.Join(base, filepath.FromSlash(p)), []byte(data), 0o644); err != nil {
			t.Fatal(err)
		}
	}
	for link, target := range map[string]string{"linkfile": "../outside2/p.txt", "linkdir": "../outside", "dangling": "../outside/nothing"} {
		if err := os.Symlink(filepath.FromSlash(target), filepath.Join(root, link)); err != nil {
			t.Fatal(err)
		}
	}
	t.Setenv("TMPDIR", filepath.Join(base, "tmp"))
	var b storage.ReadWriteBucket
	if symlinks {
		b, err = NewProvider(ProviderWithSymlinks()).NewReadWriteBucket(root, ReadWriteBucketWithSymlinksIfSupported())
	} else {
		b, err = NewProvider().NewReadWriteBucket(root)
	}
	if err != nil {
		t.Fatal(err)
	}
	return &vr4Env{base: base, root: root, symlinks: symlinks, b: b}
}

func vr4NotExistNaming(err error, path string) bool {
	var pathErr *fs.PathError
	return err != nil && storage.IsNotExist(err) && errors.As(err, &pathErr) && pathErr.Path == path
}

func vr4Scenarios(t *testing.T, ctx context.Context, v *vm14, fn string) int {
	tried := 0
	groups := map[string]bool{}
	switch fn {
	case "Put", "Write", "newWriteObjectCloser", "SetExternalPath", "SetLocalPath", "newErrNotDir", "Store", "Load", "toStorageError":
		groups["put"] = true
	case "Close":
		groups["put"], groups["read"] = true, true
	case "Get", "Stat", "validateExternalPath", "getExternalPath", "newReadObjectCloser", "Read":
		groups["read"] = true
	case "Walk", "getExternalPrefix":
		groups["walk"] = true
	case "Delete", "DeleteAll":
		groups["delete"] = true
	default:
		groups["provider"] = true
	}
	if strings.Contains(os.Getenv("VERIF_REPLAY_OBLIGATION"), "symlink") || strings.Contains(os.Getenv("VERIF_REPLAY_OBLIGATION"), "follow") {
		groups["provider"] = true
	}
	for _, symlinks := range []bool{false, true} {
		if groups["put"] {
			tried += vr4Put(t, ctx, v, symlinks)
		}
		if groups["read"] {
			tried += vr4Read(t, ctx, v, symlinks)
		}
		if groups["walk"] {
			tried += vr4Walk(t, ctx, v, symlinks)
		}
		if groups["delete"] {
			tried += vr4Delete(t, ctx, v, symlinks)
		}
	}
	if groups["provider"] {
		tried += vr4Provider(t, ctx, v)
	}
	return tried
}

func vr4Put(t *testing.T, ctx context.Context, v *vm14, symlinks bool) int {
	tried := 0
	// successful puts
	for _, path := range []string{"new.txt", "a.txt", "d/b.txt", "d/new.txt", "n/e/w.txt", "emptydir/x"} {
		for _, data := range []string{"", "new data"} {
			for _, atomic := range []bool{false, true} {
				tried++
				e := vr4NewEnv(t, symlinks)
				input := fmt.Sprintf("%s: Put(%q, atomic=%v), Write(%q), Close", e, path, atomic, data)
				before, beside := vr4Snap(e.root), vr4Snap(e.base)
				var opts []storage.PutOption
				if atomic {
					opts = append(opts, storage.PutWithAtomic())
				}
				w, err := e.b.Put(ctx, path, opts...)
				if err != nil || w == nil {
					v.report("%s: Put fails: %v (documented: the parent directories are created as needed and the put succeeds)", input, err)
					continue
				}
				final := filepath.Join(e.root, filepath.FromSlash(path))
				old, hadOld := before[path]
				check := func(when string) bool {
					now, has := vr4Snap(e.root)[path]
					if has != hadOld || now != old {
						if !has {
							now = "absent"
						}
						was := old
						if !hadOld {
							was = "absent"
						}
						v.report("%s: %s the final path %s is %s; an atomic put must leave it as it was (%s) until Close succeeds", input, when, path, now, was)
						return false
					}
					outside := vr4Snap(e.base)
					for p := range outside {
						if p == "root" || strings.HasPrefix(p, "root/") {
							delete(outside, p)
						}
					}
					want := vr4Copy(beside)
					for p := range want {
						if p == "root" || strings.HasPrefix(p, "root/") {
							delete(want, p)
						}
					}
					if d := vr4Diff(want, outside); d != "" {
						v.report("%s: %s files OUTSIDE the bucket root changed (TMPDIR=%s): %s; documented: the temporary file lives beside the final path", input, when, filepath.Join(e.base, "tmp"), d)
						return false
					}
					_, statErr := e.b.Stat(ctx, path)
					if hadOld != (statErr == nil) {
						v.report("%s: %s Stat(%q) returns %v although the object was %v before the put began", input, when, path, statErr, map[bool]string{true: "present", false: "absent"}[hadOld])
						return false
					}
					return true
				}
				if atomic && !check("after Put, before any Write,") {
					_ = w.Close()
					continue
				}
				n, err := w.Write([]byte(data))
				if err != nil || n != len(data) {
					v.report("%s: Write returns %d, %v", input, n, err)
					_ = w.Close()
					continue
				}
				if atomic && !check("after Write, before Close,") {
					_ = w.Close()
					continue
				}
				if err := w.SetExternalPath("x"); err != storage.ErrSetExternalPathUnsupported {
					v.report("%s: SetExternalPath on the disk writer returns %v; documented storage.ErrSetExternalPathUnsupported", input, err)
				}
				if err := w.SetLocalPath("x"); err != storage.ErrSetLocalPathUnsupported {
					v.report("%s: SetLocalPath on the disk writer returns %v; documented storage.ErrSetLocalPathUnsupported", input, err)
				}
				if err := w.Close(); err != nil {
					v.report("%s: Close fails: %v", input, err)
					continue
				}
				want := vr4Copy(before)
				want[path] = fmt.Sprintf("file %q", data)
				for dir := filepath.ToSlash(filepath.Dir(filepath.FromSlash(path))); dir != "."; dir = filepath.ToSlash(filepath.Dir(filepath.FromSlash(dir))) {
					want[dir] = "dir"
				}
				if d := vr4Diff(want, vr4Snap(e.root)); d != "" {
					v.report("%s: afterwards the bucket directory differs from {old tree + %s = %q}: %s", input, path, data, d)
					continue
				}
				if got, err := os.ReadFile(final); err != nil || string(got) != data {
					v.report("%s: the file %s holds %q, %v", input, final, got, err)
				}
				if _, err := w.Write([]byte("more")); err == nil {
					v.report("%s: a Write after Close succeeds", input)
				}
			}
		}
	}
	// failing atomic puts: the final path stays as it was, no temporary file stays behind, the failure is returned
	for _, path := range []string{"a.txt", "d/new.txt"} {
		for _, failure := range []string{"write", "close"} {
			tried++
			e := vr4NewEnv(t, symlinks)
			input := fmt.Sprintf("%s: Put(%q, atomic), the file is closed under the writer, then %s", e, path, map[string]string{"write": "Write(\"new\") and Close", "close": "Close"}[failure])
			before := vr4Snap(e.root)
			w, err := e.b.Put(ctx, path, storage.PutWithAtomic())
			if err != nil {
				v.report("%s: Put fails: %v", input, err)
				continue
			}
			woc, ok := w.(*writeObjectCloser)
			if !ok {
				continue
			}
			_ = woc.file.Close()
			if failure == "write" {
				if _, err := w.Write([]byte("new")); err == nil {
					v.report("%s: Write on the closed file returns a nil error", input)
				}
			}
			if err := w.Close(); err == nil {
				v.report("%s: Close returns nil although the %s failed; documented: the failure is returned and the object is not installed", input, failure)
			}
			if d := vr4Diff(before, vr4Snap(e.root)); d != "" {
				v.report("%s: afterwards the bucket directory is not what it was before the failed put: %s", input, d)
			}
		}
	}
	{
		tried++
		e := vr4NewEnv(t, symlinks)
		input := fmt.Sprintf("%s: Put(\"d\", atomic) (the final path is a non-empty directory, so the rename fails), Write(\"new\"), Close", e)
		before := vr4Snap(e.root)
		if w, err := e.b.Put(ctx, "d", storage.PutWithAtomic()); err == nil {
			_, _ = w.Write([]byte("new"))
			if err := w.Close(); err == nil {
				v.report("%s: Close returns nil although the object could not be installed", input)
			}
		}
		if d := vr4Diff(before, vr4Snap(e.root)); d != "" {
			v.report("%s: afterwards the bucket directory is not what it was before the failed put: %s", input, d)
		}
	}
	// refused puts: below a regular file; through a symlinked directory unless symlinks are followed
	for _, atomic := range []bool{false, true} {
		var opts []storage.PutOption
		if atomic {
			opts = append(opts, storage.PutWithAtomic())
		}
		for _, path := range []string{"a.txt/x", "d/b.txt/y/z", "linkfile/x", "dangling/x"} {
			tried++
			e := vr4NewEnv(t, symlinks)
			input := fmt.Sprintf("%s: Put(%q, atomic=%v)", e, path, atomic)
			before, beside := vr4Snap(e.root), vr4Snap(e.base)
			w, err := e.b.Put(ctx, path, opts...)
			if err == nil {
				_, _ = w.Write([]byte("new"))
				_ = w.Close()
				if path != "dangling/x" || !symlinks { // following a dangling link may create its target directory: not asserted
					v.report("%s succeeds although a parent of the path is not a directory; documented: not-a-directory error, nothing written", input)
				}
				continue
			}
			if d := vr4Diff(before, vr4Snap(e.root)); d != "" {
				v.report("%s fails (%v) but changed the bucket directory: %s", input, err, d)
			} else if d := vr4Diff(beside, vr4Snap(e.base)); d != "" && path != "dangling/x" {
				v.report("%s fails (%v) but changed files beside the bucket: %s", input, err, d)
			}
		}
		tried++
		e := vr4NewEnv(t, symlinks)
		input := fmt.Sprintf("%s: Put(\"linkdir/x\", atomic=%v), Write(\"new\"), Close", e, atomic)
		beside := vr4Snap(e.base)
		w, err := e.b.Put(ctx, "linkdir/x", opts...)
		if err == nil {
			_, _ = w.Write([]byte("new"))
			err = w.Close()
		}
		after := vr4Snap(e.base)
		if !symlinks {
			if err == nil {
				v.report("%s succeeds: a bucket that does not follow symlinks wrote through the symlinked directory linkdir -> ../outside (outside/x is now %s); documented: not a directory", input, after["outside/x"])
			} else if d := vr4Diff(beside, after); d != "" {
				v.report("%s fails (%v) but changed files: %s", input, err, d)
			}
		} else {
			want := vr4Copy(beside)
			want["outside/x"] = `file "new"`
			if err != nil {
				v.report("%s fails: %v; documented: a bucket that follows symlinks writes through the symlinked directory", input, err)
			} else if d := vr4Diff(want, after); d != "" {
				v.report("%s: afterwards the tree differs from {old tree + outside/x}: %s", input, d)
			}
		}
	}
	return tried
}

func vr4Read(t *testing.T, ctx context.Context, v *vm14, symlinks bool) int {
	tried := 0
	e := vr4NewEnv(t, symlinks)
	type want struct {
		data  string
		found bool
	}
	probes := []struct {
		path       string
		nosym, sym want
	}{
		{"a.txt", want{"A", true}, want{"A", true}},
		{"d/b.txt", want{"B", true}, want{"B", true}},
		{"d", want{}, want{}},
		{"emptydir", want{}, want{}},
		{"zz", want{}, want{}},
		{"d/zz", want{}, want{}},
		{"zz/y", want{}, want{}},
		{"a.txt/x", want{}, want{}},
		{"d/b.txt/x/y", want{}, want{}},
		{"linkfile", want{}, want{"P", true}},
		{"linkdir", want{}, want{}},
		{"dangling", want{}, want{}},
		{"dangling/x", want{}, want{}},
	}
	before := vr4Snap(e.base)
	for _, p := range probes {
		tried++
		w := p.nosym
		if symlinks {
			w = p.sym
		}
		input := fmt.Sprintf("%s: Get/Stat(%q)", e, p.path)
		info, statErr := e.b.Stat(ctx, p.path)
		obj, getErr := e.b.Get(ctx, p.path)
		if !w.found {
			switch {
			case statErr == nil || getErr == nil:
				v.report("%s find an object (stat err %v, get err %v); documented: only regular files%s are objects, this path is not one", input, statErr, getErr, map[bool]string{true: " (links followed)", false: ""}[symlinks])
			case !vr4NotExistNaming(statErr, p.path):
				v.report("%s: Stat returns %q; documented: a not-exist *fs.PathError naming the bucket path %q", input, statErr, p.path)
			case !vr4NotExistNaming(getErr, p.path):
				v.report("%s: Get returns %q; documented: a not-exist *fs.PathError naming the bucket path %q", input, getErr, p.path)
			case info != nil || obj != nil:
				v.report("%s fail but return a non-nil object", input)
			}
			if obj != nil && getErr == nil {
				_ = obj.Close()
			}
			continue
		}
		if statErr != nil || getErr != nil {
			v.report("%s fail (stat: %v, get: %v) although the path is a regular file with %q", input, statErr, getErr, w.data)
			continue
		}
		ext := filepath.Join(e.root, filepath.FromSlash(p.path))
		data, readErr := io.ReadAll(obj)
		closeErr := obj.Close()
		if string(data) != w.data || readErr != nil || closeErr != nil {
			v.report("%s: reading the object gives %q, %v, close %v; the file holds %q", input, data, readErr, closeErr, w.data)
		}
		if obj.Path() != p.path || info.Path() != p.path || obj.ExternalPath() != ext || info.ExternalPath() != ext || obj.LocalPath() != ext || info.LocalPath() != ext {
			v.report("%s: path/external/local = %q %q %q (Get) %q %q %q (Stat); documented %q %q %q", input, obj.Path(), obj.ExternalPath(), obj.LocalPath(), info.Path(), info.ExternalPath(), info.LocalPath(), p.path, ext, ext)
		}
		if _, err := obj.Read(make([]byte, 1)); err == nil {
			v.report("%s: Read after Close succeeds", input)
		}
	}
	if d := vr4Diff(before, vr4Snap(e.base)); d != "" {
		v.report("%s: Get/Stat changed files: %s", e, d)
	}
	return tried
}

func vr4Walk(t *testing.T, ctx context.Context, v *vm14, symlinks bool) int {
	tried := 0
	e := vr4NewEnv(t, symlinks)
	for _, c := range []struct {
		prefix     string
		nosym, sym []string
	}{
		{"", []string{"a.txt", "d/b.txt"}, []string{"a.txt", "d/b.txt", "linkdir/o.txt", "linkfile"}},
		{".", []string{"a.txt", "d/b.txt"}, []string{"a.txt", "d/b.txt", "linkdir/o.txt", "linkfile"}},
		{"d", []string{"d/b.txt"}, []string{"d/b.txt"}},
		{"a.txt", []string{"a.txt"}, []string{"a.txt"}},
		{"emptydir", nil, nil},
		{"zz", nil, nil},
		{"zz/y", nil, nil},
		{"dangling", nil, nil},
		{"linkdir", nil, []string{"linkdir/o.txt"}},
		{"linkfile", nil, []string{"linkfile"}},
	} {
		tried++
		want := c.nosym
		if symlinks {
			want = c.sym
		}
		var got []string
		bad := ""
		err := e.b.Walk(ctx, c.prefix, func(info storage.ObjectInfo) error {
			got = append(got, info.Path())
			if ext := filepath.Join(e.root, filepath.FromSlash(info.Path())); info.ExternalPath() != ext && bad == "" {
				bad = fmt.Sprintf("%s has external path %q instead of %q", info.Path(), info.ExternalPath(), ext)
			}
			return nil
		})
		sort.Strings(got)
		input := fmt.Sprintf("%s: Walk(%q)", e, c.prefix)
		if err != nil {
			v.report("%s fails: %v (visited %v); documented: visits %v", input, err, got, want)
		} else if fmt.Sprint(got) != fmt.Sprint(want) {
			v.report("%s visits %v; documented: exactly the regular files under the prefix, symlinks followed=%v: %v", input, got, symlinks, want)
		} else if bad != "" {
			v.report("%s: %s", input, bad)
		}
	}
	// an error of the callback stops the walk and is returned
	tried++
	stop := errors.New("stop")
	calls := 0
	if err := e.b.Walk(ctx, "", func(storage.ObjectInfo) error { calls++; return stop }); !errors.Is(err, stop) || calls != 1 {
		v.report("%s: Walk(\"\") with a callback that fails on the first object returns %v after %d calls; documented: that error after 1 call", e, err, calls)
	}
	return tried
}

func vr4Delete(t *testing.T, ctx context.Context, v *vm14, symlinks bool) int {
	tried := 0
	for _, path := range []string{"a.txt", "d/b.txt", "zz", "d/zz", "d", "emptydir", "linkfile", "linkdir", "dangling"} {
		tried++
		e := vr4NewEnv(t, symlinks)
		input := fmt.Sprintf("%s: Delete(%q)", e, path)
		before := vr4Snap(e.base)
		_, existed := before["root/"+path]
		err := e.b.Delete(ctx, path)
		after := vr4Snap(e.base)
		_, exists := after["root/"+path]
		want := vr4Copy(before)
		if err == nil {
			delete(want, "root/"+path)
		}
		switch {
		case err == nil && (!existed || exists):
			v.report("%s returns nil but the path was %s before and is %s afterwards; documented: nil exactly when the object was removed", input, map[bool]string{true: "present", false: "absent"}[existed], map[bool]string{true: "still present", false: "absent"}[exists])
		case !existed && !vr4NotExistNaming(err, path):
			v.report("%s returns %q; documented: a not-exist *fs.PathError naming the bucket path", input, err)
		case vr4Diff(want, after) != "":
			v.report("%s (returned %v) changed more than the one entry: %s", input, err, vr4Diff(want, after))
		case existed && err != nil && before["root/"+path] != "dir":
			v.report("%s fails: %v although the path is a %s", input, err, before["root/"+path])
		}
	}
	for _, prefix := range []string{"d", "a.txt", "zz", "emptydir", "linkdir", "linkfile", "d/b.txt"} {
		tried++
		e := vr4NewEnv(t, symlinks)
		input := fmt.Sprintf("%s: DeleteAll(%q)", e, prefix)
		before := vr4Snap(e.base)
		err := e.b.DeleteAll(ctx, prefix)
		want := vr4Copy(before)
		for p := range want {
			if p == "root/"+prefix || strings.HasPrefix(p, "root/"+prefix+"/") {
				delete(want, p)
			}
		}
		if err != nil {
			v.report("%s fails: %v", input, err)
		} else if d := vr4Diff(want, vr4Snap(e.base)); d != "" {
			v.report("%s: afterwards the tree differs from {old tree minus everything under the prefix; link targets untouched}: %s", input, d)
		}
	}
	return tried
}

func vr4Provider(t *testing.T, ctx context.Context, v *vm14) int {
	tried := 0
	e := vr4NewEnv(t, false)
	for _, providerOpt := range []bool{false, true} {
		for _, bucketOpt := range []bool{false, true} {
			tried++
			var popts []ProviderOption
			if providerOpt {
				popts = append(popts, ProviderWithSymlinks())
			}
			var bopts []ReadWriteBucketOption
			if bucketOpt {
				bopts = append(bopts, ReadWriteBucketWithSymlinksIfSupported())
			}
			input := fmt.Sprintf("NewProvider(symlinks=%v).NewReadWriteBucket(root, symlinksIfSupported=%v)", providerOpt, bucketOpt)
			for _, spelled := range []string{e.root, e.root + "/./", e.root + "/d/.."} {
				rw, err := NewProvider(popts...).NewReadWriteBucket(spelled, bopts...)
				if err != nil {
					v.report("%s with root spelled %q fails: %v", input, spelled, err)
					continue
				}
				b, ok := rw.(*bucket)
				if !ok {
					v.report("%s returns a %T", input, rw)
					continue
				}
				if b.symlinks != (providerOpt && bucketOpt) {
					v.report("%s: the bucket follows symlinks = %v; documented: only if both the provider and the bucket ask for it", input, b.symlinks)
				}
				if b.rootPath != filepath.ToSlash(e.root) {
					v.report("%s with root spelled %q: the bucket is rooted at %q; documented: the normalized root %q", input, spelled, b.rootPath, e.root)
				}
				if rw.SetExternalAndLocalPathsSupported() {
					v.report("%s: SetExternalAndLocalPathsSupported() is true for a disk bucket", input)
				}
				_, err = rw.Stat(ctx, "linkfile")
				if (err == nil) != (providerOpt && bucketOpt) {
					v.report("%s: Stat(\"linkfile\") (a symlink to a regular file) returns %v; documented: an object exactly when symlinks are followed", input, err)
				}
			}
			for _, c := range []struct {
				rootPath string
				ok       bool
			}{
				{filepath.Join(e.root, "a.txt"), false},
				{filepath.Join(e.root, "zz"), false},
				{filepath.Join(e.root, "linkfile"), false},
				{filepath.Join(e.root, "dangling"), false},
				{filepath.Join(e.root, "emptydir"), true},
				{filepath.Join(e.root, "linkdir"), providerOpt && bucketOpt},
			} {
				tried++
				rw, err := NewProvider(popts...).NewReadWriteBucket(c.rootPath, bopts...)
				_ = rw
				if (err == nil) != c.ok {
					rel, _ := filepath.Rel(e.root, c.rootPath)
					v.report("%s with root = %s of {a.txt, emptydir/, linkfile -> file, linkdir -> dir, dangling}: returns %v; documented: success=%v (the root must be a directory, a link to one only when links are followed)", input, rel, err, c.ok)
				}
			}
		}
	}
	if p, ok := NewProvider().(*provider); !ok || p.symlinks {
		v.report("NewProvider() without options follows symlinks")
	}
	if o := newReadWriteBucketOptions(); o == nil || o.symlinksIfSupported {
		v.report("newReadWriteBucketOptions() has symlinksIfSupported set")
	}
	if err := toStorageError(os.ErrClosed); err != storage.ErrClosed {
		v.report("toStorageError(os.ErrClosed) = %v; documented storage.ErrClosed", err)
	}
	other := errors.New("other")
	if err := toStorageError(other); err != other {
		v.report("toStorageError(other error) = %v; documented: unchanged", err)
	}
	if toStorageError(nil) != nil {
		v.report("toStorageError(nil) != nil")
	}
	return tried
}
