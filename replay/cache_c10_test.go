package cache

// Replay / bounded contract run for the C10 obligations of package cache; injected with go test -overlay.
//
// Inputs: EVERY sequence of 1..4 calls on one zero-value Cache[string, int] over two keys, each call with a
// getter of one of three kinds (returns a value / returns an error / returns a value AND an error); every
// getter returns a value and an error object unique to the call and counts its invocations. A second,
// pre-filled Cache is kept next to it. The sequences are driven through GetOrAdd or straight through
// getOrAddInsideWriteLock (single goroutine: the lock is irrelevant), newResult is checked directly.
//
// Oracle (doc comment of Cache.GetOrAdd: "gets the value for the key, or calls getUncached to get a new value,
// and then caches the value"; contract clauses): the first call for a key returns exactly what its getter
// returns (value AND error) and remembers that pair; every later call for that key returns the remembered pair
// (the same error object too) WITHOUT calling its getter; the other key and the other cache are unaffected; the
// zero-value Cache is usable. The model is a plain map written here, the code under test is never consulted.

import (
	"fmt"
	"os"
	"sort"
	"strings"
	"testing"
)

type c10cErr struct{ text string }

func (e *c10cErr) Error() string { return e.text }

type c10cCall struct {
	key  string
	kind int // 0 value, 1 error, 2 value and error
}

type c10cPair struct {
	value int
	err   error
}

type c10cFailure struct {
	tag  string
	text string
}

type c10cRun struct {
	checked  int
	failures []c10cFailure
}

func (r *c10cRun) fail(tag string, format string, args ...any) {
	r.failures = append(r.failures, c10cFailure{tag: tag, text: fmt.Sprintf(format, args...)})
}

var c10cKindNames = []string{"value", "error", "value+error"}

func c10cSeqString(seq []c10cCall, upTo int) string {
	parts := make([]string, 0, len(seq))
	for i, call := range seq {
		if i > upTo {
			break
		}
		parts = append(parts, fmt.Sprintf("%s<-getter#%d(%s)", call.key, i, c10cKindNames[call.kind]))
	}
	return "[" + strings.Join(parts, ", ") + "]"
}

func c10cErrString(err error) string {
	if err == nil {
		return "<nil>"
	}
	return fmt.Sprintf("%q", err.Error())
}

func c10cGetterResult(i int, kind int) c10cPair {
	switch kind {
	case 0:
		return c10cPair{value: 100 + i}
	case 1:
		return c10cPair{err: &c10cErr{text: fmt.Sprintf("error of getter#%d", i)}}
	default:
		return c10cPair{value: 100 + i, err: &c10cErr{text: fmt.Sprintf("error of getter#%d", i)}}
	}
}

// c10cSequence runs one sequence on a fresh zero-value cache. inside: call getOrAddInsideWriteLock directly.
func (r *c10cRun) c10cSequence(seq []c10cCall, inside bool) {
	r.checked++
	api := "GetOrAdd"
	if inside {
		api = "getOrAddInsideWriteLock"
	}
	var cache Cache[string, int]
	otherErr := &c10cErr{text: "error remembered by the other cache"}
	otherK1 := &result[int]{value: 7, err: otherErr}
	otherK2 := &result[int]{value: 8}
	other := Cache[string, int]{store: map[string]*result[int]{"k1": otherK1, "k2": otherK2}}
	storeReported := false
	model := map[string]c10cPair{}
	for i, call := range seq {
		produced := c10cGetterResult(i, call.kind)
		invocations := 0
		getter := func() (int, error) {
			invocations++
			return produced.value, produced.err
		}
		var gotValue int
		var gotErr error
		if inside {
			gotValue, gotErr = cache.getOrAddInsideWriteLock(call.key, getter)
		} else {
			gotValue, gotErr = cache.GetOrAdd(call.key, getter)
		}
		want, hit := model[call.key]
		wantInvocations := 0
		tag := "hit-returns-stored hit-keeps-entry pair-stored"
		what := "a later call for the key returns the remembered value and error"
		if !hit {
			want = produced
			model[call.key] = produced
			wantInvocations = 1
			tag = "miss-returns-uncached"
			what = "the first call for the key returns what its getter returns"
		}
		input := fmt.Sprintf("zero-value Cache[string,int], %s sequence %s", api, c10cSeqString(seq, i))
		if gotValue != want.value || gotErr != want.err {
			r.fail(tag, "%s: call #%d got (%d, %s); want (%d, %s) (%s)",
				input, i, gotValue, c10cErrString(gotErr), want.value, c10cErrString(want.err), what)
			return
		}
		if invocations != wantInvocations {
			r.fail(tag+" only-this-key-added", "%s: call #%d invoked its getter %d times; want %d (the getter runs at most once per key)",
				input, i, invocations, wantInvocations)
			return
		}
		// the stored state, as the contract states it (pair-stored / only-this-key-added)
		if !storeReported && len(cache.store) != len(model) {
			r.fail("only-this-key-added", "%s: after call #%d the cache holds %d keys; want %d", input, i, len(cache.store), len(model))
			storeReported = true
		}
		for _, key := range []string{"k1", "k2"} {
			pair, present := model[key]
			if storeReported || !present {
				continue
			}
			stored, ok := cache.store[key]
			if !ok || stored == nil {
				r.fail("only-this-key-added pair-stored", "%s: after call #%d nothing is stored for key %s; want (%d, %s)",
					input, i, key, pair.value, c10cErrString(pair.err))
				storeReported = true
				break
			}
			if stored.value != pair.value || stored.err != pair.err {
				tag := "hit-keeps-entry"
				if key == call.key {
					tag = "pair-stored"
				}
				r.fail(tag, "%s: after call #%d the cache remembers (%d, %s) for key %s; want (%d, %s) (value AND error of the first getter are remembered)",
					input, i, stored.value, c10cErrString(stored.err), key, pair.value, c10cErrString(pair.err))
				storeReported = true
				break
			}
		}
	}
	// the other cache is untouched
	if len(other.store) != 2 || other.store["k1"] != otherK1 || other.store["k2"] != otherK2 ||
		otherK1.value != 7 || otherK1.err != error(otherErr) || otherK2.value != 8 || otherK2.err != nil {
		r.fail("other-caches-untouched", "zero-value Cache[string,int], %s sequence %s, next to a second cache holding k1->(7, error), k2->(8, <nil>): the second cache changed; want it untouched",
			api, c10cSeqString(seq, len(seq)))
	}
}

func (r *c10cRun) c10cFamilySequences(inside bool) {
	var calls []c10cCall
	for _, key := range []string{"k1", "k2"} {
		for kind := 0; kind < 3; kind++ {
			calls = append(calls, c10cCall{key: key, kind: kind})
		}
	}
	var rec func(seq []c10cCall, n int)
	rec = func(seq []c10cCall, n int) {
		if len(seq) == n {
			r.c10cSequence(seq, inside)
			return
		}
		for _, call := range calls {
			rec(append(append([]c10cCall{}, seq...), call), n)
		}
	}
	for n := 1; n <= 4; n++ {
		rec(nil, n)
	}
}

func (r *c10cRun) c10cFamilyNewResult() {
	for kind := 0; kind < 3; kind++ {
		r.checked++
		pair := c10cGetterResult(kind, kind)
		first := newResult(pair.value, pair.err)
		second := newResult(pair.value, pair.err)
		if first == nil || first.value != pair.value || first.err != pair.err {
			r.fail("0", "newResult(%d, %s): got %+v; want a result holding exactly that value and error", pair.value, c10cErrString(pair.err), first)
			continue
		}
		if first == second {
			r.fail("0", "newResult(%d, %s) twice: got the same pointer; want a fresh result each time", pair.value, c10cErrString(pair.err))
		}
	}
}

func TestVerifReplayC10(t *testing.T) {
	fn := os.Getenv("VERIF_REPLAY_FUNC")
	obligation := os.Getenv("VERIF_REPLAY_OBLIGATION")
	r := &c10cRun{}
	switch fn {
	case "GetOrAdd":
		r.c10cFamilySequences(false)
	case "getOrAddInsideWriteLock":
		r.c10cFamilySequences(true)
		r.c10cFamilySequences(false)
	case "newResult":
		r.c10cFamilyNewResult()
		r.c10cFamilySequences(true)
	default:
		fmt.Printf("VERIF-REPLAY no harness for %q\n", fn)
		return
	}
	label := ""
	if i := strings.LastIndex(obligation, "["); i >= 0 {
		label = strings.TrimSuffix(obligation[i+1:], "]")
	}
	matches := func(f c10cFailure) bool {
		return label != "" && strings.Contains(" "+f.tag+" ", " "+label+" ")
	}
	// most relevant to the obligation's label first, then the shortest input
	sort.SliceStable(r.failures, func(a, b int) bool {
		ma, mb := matches(r.failures[a]), matches(r.failures[b])
		if ma != mb {
			return ma
		}
		return false
	})
	for i, f := range r.failures {
		if i >= 5 {
			break
		}
		fmt.Printf("VERIF-REPLAY FAILING-INPUT %s\n", f.text)
	}
	fmt.Printf("VERIF-REPLAY %s: checked %d inputs, %d deviations from the documented behaviour\n", fn, r.checked, len(r.failures))
}
