package bufimageutil

// Replay harness (r4i) for C12 obligations of transitiveClosure.addExtensions and newImageIndexForImage (injected with
// go test -overlay). addExtensions: the same filter is applied many times to a fresh copy of an image in which a message becomes
// explicitly included only through a known extension (M1 <- e1 : M2, M2 <- e2); the result must be the same every time and must
// contain the known extension of every message it contains (fixed point). newImageIndexForImage: every message / enum / service /
// method / extension found by an independent recursive walk must be in ByName under its full name with its own file, and every
// extension must be listed under its extendee.

import (
	"fmt"
	"os"
	"sort"
	"strings"
	"testing"

	"github.com/bufbuild/buf/private/bufpkg/bufimage"
	"github.com/google/uuid"
	"google.golang.org/protobuf/proto"
	"google.golang.org/protobuf/reflect/protoreflect"
	"google.golang.org/protobuf/types/descriptorpb"
)

func r4iImage(t *testing.T) bufimage.Image {
	lbl := descriptorpb.FieldDescriptorProto_LABEL_OPTIONAL.Enum()
	msgT := descriptorpb.FieldDescriptorProto_TYPE_MESSAGE.Enum()
	strT := descriptorpb.FieldDescriptorProto_TYPE_STRING.Enum()
	rng := []*descriptorpb.DescriptorProto_ExtensionRange{{Start: proto.Int32(100), End: proto.Int32(200)}}
	fd := &descriptorpb.FileDescriptorProto{
		Name: proto.String("a.proto"), Package: proto.String("pkg.sub"), Syntax: proto.String("proto2"),
		MessageType: []*descriptorpb.DescriptorProto{
			{Name: proto.String("M1"), ExtensionRange: rng},
			{Name: proto.String("M2"), ExtensionRange: rng, NestedType: []*descriptorpb.DescriptorProto{{Name: proto.String("In"),
				EnumType: []*descriptorpb.EnumDescriptorProto{{Name: proto.String("E"), Value: []*descriptorpb.EnumValueDescriptorProto{{Name: proto.String("E0"), Number: proto.Int32(0)}}}},
				Extension: []*descriptorpb.FieldDescriptorProto{{Name: proto.String("e3"), Number: proto.Int32(101), Label: lbl, Type: strT, Extendee: proto.String(".pkg.sub.M2")}}}}},
			{Name: proto.String("Req")},
		},
		Service: []*descriptorpb.ServiceDescriptorProto{{Name: proto.String("Svc"), Method: []*descriptorpb.MethodDescriptorProto{{Name: proto.String("Do"), InputType: proto.String(".pkg.sub.Req"), OutputType: proto.String(".pkg.sub.Req")}}}},
		Extension: []*descriptorpb.FieldDescriptorProto{
			{Name: proto.String("e1"), Number: proto.Int32(100), Label: lbl, Type: msgT, TypeName: proto.String(".pkg.sub.M2"), Extendee: proto.String(".pkg.sub.M1")},
			{Name: proto.String("e2"), Number: proto.Int32(100), Label: lbl, Type: strT, Extendee: proto.String(".pkg.sub.M2")},
		},
	}
	f, err := bufimage.NewImageFile(fd, nil, uuid.Nil, fd.GetName(), "", false, false, nil)
	if err != nil {
		t.Fatal(err)
	}
	img, err := bufimage.NewImage([]bufimage.ImageFile{f})
	if err != nil {
		t.Fatal(err)
	}
	return img
}

func r4iSummary(img bufimage.Image) string {
	var names []string
	for _, f := range img.Files() {
		var walk func(prefix string, ms []*descriptorpb.DescriptorProto)
		walk = func(prefix string, ms []*descriptorpb.DescriptorProto) {
			for _, m := range ms {
				names = append(names, "msg:"+prefix+m.GetName())
				for _, x := range m.Extension {
					names = append(names, "ext:"+prefix+m.GetName()+"."+x.GetName())
				}
				walk(prefix+m.GetName()+".", m.NestedType)
			}
		}
		walk("", f.FileDescriptorProto().MessageType)
		for _, x := range f.FileDescriptorProto().Extension {
			names = append(names, "ext:"+x.GetName())
		}
	}
	sort.Strings(names)
	return strings.Join(names, ",")
}

func TestVerifReplayR4iC12(t *testing.T) {
	found := false
	fail := func(format string, a ...any) {
		found = true
		fmt.Printf("VERIF-REPLAY FAILING-INPUT "+format+"\n", a...)
	}
	fn := os.Getenv("VERIF_REPLAY_FUNC")
	// ---- addExtensions: determinism and fixed point
	for _, include := range []string{"pkg.sub.M1", "pkg.sub.M2", "pkg.sub.e1"} {
		outcomes := map[string]int{}
		for i := 0; i < 300; i++ {
			out, err := FilterImage(r4iImage(t), WithIncludeTypes(include))
			if err != nil {
				fail("FilterImage(include %s): %v", include, err)
				break
			}
			s := r4iSummary(out)
			outcomes[s]++
			if strings.Contains(s, "msg:M2") && (!strings.Contains(s, "ext:e2") || !strings.Contains(s, "ext:M2.In.e3")) {
				fail("include %s: the result holds message M2 (explicitly included through extension e1) but not its known extensions: %s", include, s)
				break
			}
		}
		if len(outcomes) > 1 {
			fail("include %s: nondeterministic filter result, %d distinct outcomes for the same image and filter: %v", include, len(outcomes), outcomes)
		}
	}
	// ---- newImageIndexForImage: completeness against an independent walk
	img := r4iImage(t)
	opts := newImageFilterOptions()
	index, err := newImageIndexForImage(img, opts)
	if err != nil {
		fail("newImageIndexForImage: %v", err)
	} else {
		for _, f := range img.Files() {
			fdp := f.FileDescriptorProto()
			pkg := fdp.GetPackage()
			check := func(name string, d namedDescriptor) {
				info, ok := index.ByName[protoreflect.FullName(pkg+"."+name)]
				if !ok || info.element != d || info.file != f {
					fail("index: %s.%s missing from ByName or mapped to another element/file", pkg, name)
				}
				if _, ok := index.ByDescriptor[d]; !ok {
					fail("index: %s.%s missing from ByDescriptor", pkg, name)
				}
			}
			ext := func(x *descriptorpb.FieldDescriptorProto) {
				listed := false
				for _, e := range index.NameToExtensions[protoreflect.FullName(strings.TrimPrefix(x.GetExtendee(), "."))] {
					listed = listed || e == x
				}
				if !listed {
					fail("index: extension %s not listed under its extendee %s", x.GetName(), x.GetExtendee())
				}
			}
			var walk func(prefix string, ms []*descriptorpb.DescriptorProto)
			walk = func(prefix string, ms []*descriptorpb.DescriptorProto) {
				for _, m := range ms {
					check(prefix+m.GetName(), m)
					for _, e := range m.EnumType {
						check(prefix+m.GetName()+"."+e.GetName(), e)
					}
					for _, x := range m.Extension {
						check(prefix+m.GetName()+"."+x.GetName(), x)
						ext(x)
					}
					walk(prefix+m.GetName()+".", m.NestedType)
				}
			}
			walk("", fdp.MessageType)
			for _, s := range fdp.Service {
				check(s.GetName(), s)
				for _, m := range s.Method {
					check(s.GetName()+"."+m.GetName(), m)
				}
			}
			for _, x := range fdp.Extension {
				check(x.GetName(), x)
				ext(x)
			}
			for p := pkg; ; {
				if _, ok := index.Packages[p]; !ok {
					fail("index: package %q of %s (or a parent package) not registered", p, f.Path())
				}
				if p == "" {
					break
				}
				if i := strings.LastIndexByte(p, '.'); i >= 0 {
					p = p[:i]
				} else {
					p = ""
				}
			}
		}
	}
	if !found {
		fmt.Printf("VERIF-REPLAY no failing input found for %s (3 include filters x 300 runs; index of the sample image against an independent walk)\n", fn)
	}
}
