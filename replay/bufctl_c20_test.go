package bufctl

// Replay harness for the C20 (and C01) obligations of package bufctl: the verdict wrappers of the controller
// (injected by gocv with `go test -overlay`; never written into /repo). Author ca-R4.
//
// A REAL controller (nop registry providers, no network, stdout/stderr captured) is pointed at small source
// directories written to a temporary directory:
//
//	clean            a.proto, b.proto (b imports a)
//	warn             like clean, plus an unused import (a compiler WARNING only)
//	broken1          one syntax error (b.proto:4:1 is not where the error is: the error site is computed by hand below)
//	broken2          errors in two files
//	unresolved       an unknown type in one file
//	ws-clean         buf.yaml v2 with modules m1, m2, both clean
//	ws-broken        buf.yaml v2 with modules m1 (clean), m2 (one syntax error)
//	ws-broken-first  buf.yaml v2 with modules m1 (one syntax error), m2 (clean)
//
// and every entry point that builds is called: GetImage, GetImageForWorkspace(GetWorkspace(dir)),
// GetTargetImageWithConfigsAndCheckClient (the lint / breaking entry) and, in-package, buildImage,
// getImageForWorkspace, buildTargetImageWithConfigs. Documented behaviour (oracle):
//
//   - a clean or warning-only input succeeds: an image with exactly the .proto files of the input (one image per
//     module for the lint entry), nothing that looks like an annotation on stderr/stdout;
//   - an input with compile errors fails, yields NO image, and
//       public entries: the error is exactly ErrFileAnnotation (exit code 100), and the annotations were
//         printed: one line "<path>:<line>:<column>:<message>" on stderr per expected error site;
//       internal steps: the error IS the bufanalysis.FileAnnotationSet itself (not wrapped), one annotation per
//         expected error site, nothing printed yet.

import (
	"bytes"
	"context"
	"errors"
	"fmt"
	"log/slog"
	"net/http"
	"os"
	"path/filepath"
	"sort"
	"strings"
	"testing"

	"github.com/bufbuild/buf/private/buf/bufworkspace"
	"github.com/bufbuild/buf/private/bufpkg/bufanalysis"
	"github.com/bufbuild/buf/private/bufpkg/bufimage"
	"github.com/bufbuild/buf/private/bufpkg/bufmodule"
	"github.com/bufbuild/buf/private/bufpkg/bufparse"
	"github.com/bufbuild/buf/private/bufpkg/bufplugin"
	"github.com/bufbuild/buf/private/pkg/app"
	"github.com/bufbuild/buf/private/pkg/git"
	"github.com/bufbuild/buf/private/pkg/httpauth"
	"github.com/bufbuild/buf/private/pkg/wasm"
)

type vr4Site struct {
	path      string // relative to the input directory
	line, col int
}

type vr4Scenario struct {
	name    string
	files   map[string]string
	protos  []string  // the .proto files, relative to the input directory, as image paths (module-relative)
	modules int       // number of target modules
	sites   []vr4Site // expected error sites; none = the build succeeds
}

const (
	vr4A      = "syntax = \"proto3\";\npackage p;\nmessage A {}\n"
	vr4B      = "syntax = \"proto3\";\npackage p;\nimport \"a.proto\";\nmessage B { A a = 1; }\n"
	vr4C      = "syntax = \"proto3\";\npackage q;\nmessage C {}\n"
	vr4Warn   = "syntax = \"proto3\";\npackage p;\nimport \"a.proto\";\nmessage W {}\n"
	vr4Syntax = "syntax = \"proto3\";\npackage p;\nmessage Broken {\n  int32 = 1;\n}\n"        // 4:9: the field name is missing
	vr4Syn2   = "syntax = \"proto3\";\npackage p;\n\nmessage Broken2 {\n\n    int64 = 2;\n}\n" // 6:11: the field name is missing
	vr4Unres  = "syntax = \"proto3\";\npackage p;\nmessage U {\n  Missing m = 1;\n}\n"         // 4:3: unknown type
	vr4WS     = "version: v2\nmodules:\n  - path: m1\n  - path: m2\n"
)

func vr4Scenarios() []vr4Scenario {
	return []vr4Scenario{
		{name: "clean", files: map[string]string{"a.proto": vr4A, "b.proto": vr4B}, protos: []string{"a.proto", "b.proto"}, modules: 1},
		{name: "warn", files: map[string]string{"a.proto": vr4A, "w.proto": vr4Warn}, protos: []string{"a.proto", "w.proto"}, modules: 1},
		{name: "broken1", files: map[string]string{"a.proto": vr4A, "x.proto": vr4Syntax}, modules: 1, sites: []vr4Site{{"x.proto", 4, 9}}},
		{name: "broken2", files: map[string]string{"a.proto": vr4A, "x.proto": vr4Syntax, "y.proto": vr4Syn2}, modules: 1, sites: []vr4Site{{"x.proto", 4, 9}, {"y.proto", 6, 11}}},
		{name: "unresolved", files: map[string]string{"a.proto": vr4A, "u.proto": vr4Unres}, modules: 1, sites: []vr4Site{{"u.proto", 4, 3}}},
		{name: "ws-clean", files: map[string]string{"buf.yaml": vr4WS, "m1/a.proto": vr4A, "m2/c.proto": vr4C}, protos: []string{"a.proto", "c.proto"}, modules: 2},
		{name: "ws-broken", files: map[string]string{"buf.yaml": vr4WS, "m1/a.proto": vr4A, "m2/x.proto": vr4Syntax}, modules: 2, sites: []vr4Site{{"m2/x.proto", 4, 9}}},
		{name: "ws-broken-first", files: map[string]string{"buf.yaml": vr4WS, "m1/x.proto": vr4Syntax, "m2/c.proto": vr4C}, modules: 2, sites: []vr4Site{{"m1/x.proto", 4, 9}}},
	}
}

func (s vr4Scenario) String() string {
	var names []string
	for n := range s.files {
		names = append(names, n)
	}
	sort.Strings(names)
	desc := fmt.Sprintf("input directory %q %v", s.name, names)
	if len(s.sites) > 0 {
		var sites []string
		for _, e := range s.sites {
			sites = append(sites, fmt.Sprintf("%s:%d:%d", e.path, e.line, e.col))
		}
		desc += " with compile errors at " + strings.Join(sites, ", ")
	}
	return desc
}

// vr4NoModuleKeys: no registry in the harness (the inputs have no dependencies).
type vr4NoModuleKeys struct{}

func (vr4NoModuleKeys) GetModuleKeysForModuleRefs(context.Context, []bufparse.Ref, bufmodule.DigestType) ([]bufmodule.ModuleKey, error) {
	return nil, errors.New("no registry in the replay harness")
}

type vr4Env struct {
	c              *controller
	stdout, stderr *bytes.Buffer
	dir            string
}

func vr4Setup(t *testing.T, s vr4Scenario) *vr4Env {
	dir := filepath.Join(t.TempDir(), s.name)
	for name, content := range s.files {
		p := filepath.Join(dir, filepath.FromSlash(name))
		if err := os.MkdirAll(filepath.Dir(p), 0o755); err != nil {
			t.Fatal(err)
		}
		if err := os.WriteFile(p, []byte(content), 0o644); err != nil {
			t.Fatal(err)
		}
	}
	env := &vr4Env{stdout: &bytes.Buffer{}, stderr: &bytes.Buffer{}, dir: dir}
	container := app.NewContainer(map[string]string{}, strings.NewReader(""), env.stdout, env.stderr)
	c, err := newController(
		slog.New(slog.NewTextHandler(&bytes.Buffer{}, nil)),
		container,
		bufmodule.NopGraphProvider,
		vr4NoModuleKeys{},
		bufmodule.NopModuleDataProvider,
		bufmodule.NopCommitProvider,
		bufplugin.NopPluginKeyProvider,
		bufplugin.NopPluginDataProvider,
		nil,
		http.DefaultClient,
		httpauth.NewNopAuthenticator(),
		git.ClonerOptions{},
	)
	if err != nil {
		t.Fatal(err)
	}
	env.c = c
	return env
}

// vr4Printed: the lines of the output that name one of the expected sites as "<...path>:<line>:<col>:".
func vr4Printed(out string, sites []vr4Site) (perSite []int, annotationLines int) {
	perSite = make([]int, len(sites))
	for _, line := range strings.Split(out, "\n") {
		if strings.Contains(line, ".proto:") {
			annotationLines++
		}
		for i, e := range sites {
			if strings.Contains(line, fmt.Sprintf("%s:%d:%d:", e.path, e.line, e.col)) {
				perSite[i]++
			}
		}
	}
	return perSite, annotationLines
}

func vr4ImagePaths(image bufimage.Image) []string {
	var paths []string
	for _, f := range image.Files() {
		paths = append(paths, f.Path())
	}
	sort.Strings(paths)
	return paths
}

func TestVerifReplayC01(t *testing.T) { TestVerifReplayC20(t) }

func TestVerifReplayC20(t *testing.T) {
	fn := os.Getenv("VERIF_REPLAY_FUNC")
	ctx := context.Background()
	found := 0
	report := func(format string, a ...any) {
		if found < 4 {
			fmt.Printf("VERIF-REPLAY FAILING-INPUT "+format+"\n", a...)
		}
		found++
	}
	type outcome struct {
		images [][]string // image paths, one entry per image
		err    error
	}
	type entry struct {
		name     string
		internal bool
		lint     bool
		run      func(e *vr4Env) outcome
	}
	one := func(image bufimage.Image, err error) outcome {
		if image == nil {
			return outcome{err: err}
		}
		return outcome{images: [][]string{vr4ImagePaths(image)}, err: err}
	}
	many := func(iwcs []ImageWithConfig, err error) outcome {
		o := outcome{err: err}
		for _, iwc := range iwcs {
			o.images = append(o.images, vr4ImagePaths(iwc))
		}
		return o
	}
	workspace := func(e *vr4Env) (bufworkspace.Workspace, error) {
		// GetWorkspace itself never compiles; it is the documented way to obtain the argument of GetImageForWorkspace
		return e.c.GetWorkspace(ctx, e.dir)
	}
	entries := map[string]entry{
		"GetImage": {name: "GetImage(dir)", run: func(e *vr4Env) outcome { return one(e.c.GetImage(ctx, e.dir)) }},
		"GetImageForWorkspace": {name: "GetImageForWorkspace(GetWorkspace(dir))", run: func(e *vr4Env) outcome {
			w, err := workspace(e)
			if err != nil {
				return outcome{err: fmt.Errorf("GetWorkspace: %w", err)}
			}
			return one(e.c.GetImageForWorkspace(ctx, w))
		}},
		"GetTargetImageWithConfigsAndCheckClient": {name: "GetTargetImageWithConfigsAndCheckClient(dir) (the lint/breaking entry)", lint: true, run: func(e *vr4Env) outcome {
			iwcs, _, err := e.c.GetTargetImageWithConfigsAndCheckClient(ctx, e.dir, wasm.UnimplementedRuntime)
			return many(iwcs, err)
		}},
		"getImageForWorkspace": {name: "getImageForWorkspace(GetWorkspace(dir)) (internal step)", internal: true, run: func(e *vr4Env) outcome {
			w, err := workspace(e)
			if err != nil {
				return outcome{err: fmt.Errorf("GetWorkspace: %w", err)}
			}
			return one(e.c.getImageForWorkspace(ctx, w, newFunctionOptions(e.c)))
		}},
		"buildImage": {name: "buildImage(all proto files of GetWorkspace(dir)) (internal step)", internal: true, run: func(e *vr4Env) outcome {
			w, err := workspace(e)
			if err != nil {
				return outcome{err: fmt.Errorf("GetWorkspace: %w", err)}
			}
			return one(e.c.buildImage(ctx, bufmodule.ModuleSetToModuleReadBucketWithOnlyProtoFiles(w), newFunctionOptions(e.c)))
		}},
		"buildTargetImageWithConfigs": {name: "buildTargetImageWithConfigs(GetWorkspace(dir)) (internal step of the lint/breaking entry)", internal: true, lint: true, run: func(e *vr4Env) outcome {
			w, err := workspace(e)
			if err != nil {
				return outcome{err: fmt.Errorf("GetWorkspace: %w", err)}
			}
			return many(e.c.buildTargetImageWithConfigs(ctx, w, newFunctionOptions(e.c)))
		}},
	}
	var selected []entry
	switch fn {
	case "handleFileAnnotationSetRetError":
		selected = []entry{entries["GetImage"], entries["GetImageForWorkspace"], entries["GetTargetImageWithConfigsAndCheckClient"]}
	case "GetImageForInputConfig", "GetWorkspace", "GetWorkspaceDepManager":
		// driven through the sibling entry that shares the verdict wrapper
		selected = []entry{entries["GetImage"]}
	default:
		e, ok := entries[fn]
		if !ok {
			fmt.Printf("VERIF-REPLAY no harness for %q\n", fn)
			return
		}
		selected = []entry{e}
	}
	tried := 0
	for _, e := range selected {
		for _, s := range vr4Scenarios() {
			tried++
			env := vr4Setup(t, s)
			input := fmt.Sprintf("%s on %s", e.name, s)
			var o outcome
			func() {
				defer func() {
					if r := recover(); r != nil {
						o = outcome{err: fmt.Errorf("panic: %v", r)}
						report("%s panics: %v", input, r)
					}
				}()
				o = e.run(env)
			}()
			if o.err != nil && strings.HasPrefix(o.err.Error(), "panic:") {
				continue
			}
			printed := env.stderr.String()
			perSite, annotationLines := vr4Printed(printed+env.stdout.String(), s.sites)
			if len(s.sites) == 0 {
				// success expected
				var want [][]string
				if e.lint && s.modules > 1 {
					for _, p := range s.protos {
						want = append(want, []string{p})
					}
				} else {
					want = [][]string{s.protos}
				}
				switch {
				case o.err != nil:
					report("%s fails: %v (stderr %q); documented: no compile error, the build succeeds (warnings do not fail)", input, o.err, printed)
				case fmt.Sprint(o.images) != fmt.Sprint(want):
					report("%s returns images with files %v; documented: %v", input, o.images, want)
				case annotationLines != 0:
					report("%s succeeds but printed annotations: %q", input, printed+env.stdout.String())
				}
				continue
			}
			// failure expected
			switch {
			case o.err == nil:
				report("%s returns a nil error and images %v; documented: a compile failure fails the call and yields no image", input, o.images)
				continue
			case len(o.images) != 0:
				report("%s fails (%v) but also returns images %v; documented: no image on failure", input, o.err, o.images)
				continue
			}
			if e.internal {
				set, ok := o.err.(bufanalysis.FileAnnotationSet)
				if !ok {
					var inner bufanalysis.FileAnnotationSet
					report("%s returns the error %q of type %T; documented: the compile diagnostics themselves (a bufanalysis.FileAnnotationSet, not wrapped; wrapped one inside=%v)", input, o.err, o.err, errors.As(o.err, &inner))
					continue
				}
				var got []string
				for _, a := range set.FileAnnotations() {
					p := ""
					if a.FileInfo() != nil {
						p = a.FileInfo().ExternalPath()
					}
					got = append(got, fmt.Sprintf("%s:%d:%d", p, a.StartLine(), a.StartColumn()))
				}
				var want []string
				for _, site := range s.sites {
					want = append(want, fmt.Sprintf("%s:%d:%d", filepath.Join(env.dir, filepath.FromSlash(site.path)), site.line, site.col))
				}
				sort.Strings(got)
				sort.Strings(want)
				if fmt.Sprint(got) != fmt.Sprint(want) {
					report("%s returns annotations at %v; documented: one per compile error: %v", input, got, want)
				} else if annotationLines != 0 {
					report("%s already printed %q; documented: printing is the job of the public entry", input, printed)
				}
				continue
			}
			switch {
			case o.err != ErrFileAnnotation:
				report("%s returns the error %q (%T, exit code %d) and printed %q; documented: the annotations are printed and the error is ErrFileAnnotation (exit code %d)", input, o.err, o.err, app.GetExitCode(o.err), printed, ExitCodeFileAnnotation)
			case app.GetExitCode(o.err) != 100:
				report("%s: the returned error has exit code %d; documented 100", input, app.GetExitCode(o.err))
			default:
				for i, n := range perSite {
					if n != 1 {
						report("%s returns ErrFileAnnotation but stderr has %d lines for the error at %s:%d:%d (stderr: %q); documented: every compile error is printed once", input, n, s.sites[i].path, s.sites[i].line, s.sites[i].col, printed)
						break
					}
				}
				if annotationLines != len(s.sites) {
					report("%s printed %d annotation lines (%q); documented: exactly the %d compile errors", input, annotationLines, printed, len(s.sites))
				}
			}
		}
	}
	// "no target modules, or no target files within the modules after path filtering, this is an error": the lint /
	// breaking entry on a clean directory with every .proto file excluded (never an empty success)
	if fn == "GetTargetImageWithConfigsAndCheckClient" || fn == "buildTargetImageWithConfigs" {
		for _, s := range vr4Scenarios() {
			if len(s.sites) != 0 {
				continue
			}
			tried++
			env := vr4Setup(t, s)
			var excluded []string
			for name := range s.files {
				if strings.HasSuffix(name, ".proto") {
					excluded = append(excluded, filepath.Join(env.dir, filepath.FromSlash(name)))
				}
			}
			sort.Strings(excluded)
			iwcs, _, err := env.c.GetTargetImageWithConfigsAndCheckClient(ctx, env.dir, wasm.UnimplementedRuntime, WithTargetPaths(nil, excluded))
			if err == nil {
				report("GetTargetImageWithConfigsAndCheckClient(dir, exclude paths = every .proto file) on %s returns a nil error and %d images; documented: no target files is an error (bufmodule.ErrNoTargetProtoFiles)", s, len(iwcs))
			} else if len(iwcs) != 0 {
				report("GetTargetImageWithConfigsAndCheckClient(dir, exclude paths = every .proto file) on %s fails (%v) but returns %d images", s, err, len(iwcs))
			}
		}
	}
	if found == 0 {
		fmt.Printf("VERIF-REPLAY no failing input found for %s (%d entry point x input directory runs)\n", fn, tried)
	}
}
