package format

// Replay harness (ca-r4f) for the C20 obligations format.createDirIfNotExists / format.validateNoIncludePackageFiles.
// Documented: the output directory is created when it is missing and a failure to create it is reported (an existing directory is
// left alone, no error); only a proto file reference with include_package_files is refused.

import (
	"context"
	"fmt"
	"log/slog"
	"os"
	"path/filepath"
	"testing"

	"github.com/bufbuild/buf/private/buf/buffetch"
)

func TestVerifReplayC20R4f(t *testing.T) {
	fn := os.Getenv("VERIF_REPLAY_FUNC")
	found, tried := 0, 0
	report := func(format string, a ...any) {
		if found < 4 {
			fmt.Printf("VERIF-REPLAY FAILING-INPUT "+format+"\n", a...)
		}
		found++
	}
	dir := t.TempDir()
	tried++
	if err := createDirIfNotExists(dir); err != nil {
		report("createDirIfNotExists(existing directory) = %v; documented: nil", err)
	}
	tried++
	missing := filepath.Join(dir, "a", "b")
	if err := createDirIfNotExists(missing); err != nil {
		report("createDirIfNotExists(missing directory a/b) = %v; documented: created, nil", err)
	} else if fi, statErr := os.Stat(missing); statErr != nil || !fi.IsDir() {
		report("createDirIfNotExists(missing directory a/b) = nil but the directory does not exist afterwards (%v)", statErr)
	}
	// (a path below a regular file: os.Stat fails with ENOTDIR, not with "not exist", so nothing is created and nothing is
	// reported HERE - documented in the function: the storageos provider refuses a non-directory in the next step of writeToDir)
	parser := buffetch.NewDirOrProtoFileRefParser(slog.New(slog.NewTextHandler(os.Stderr, nil)))
	for value, wantRefused := range map[string]bool{
		dir:                           false,
		filepath.Join(dir, "x.proto"): false,
		filepath.Join(dir, "x.proto") + "#include_package_files=true":  true,
		filepath.Join(dir, "x.proto") + "#include_package_files=false": false,
	} {
		ref, err := parser.GetDirOrProtoFileRef(context.Background(), value)
		if err != nil {
			continue
		}
		tried++
		if err := validateNoIncludePackageFiles(ref); (err != nil) != wantRefused {
			report("validateNoIncludePackageFiles(ref for %q) = %v; documented: refused exactly for a proto file reference with include_package_files=true", value, err)
		}
	}
	if found == 0 {
		fmt.Printf("VERIF-REPLAY no failing input found for %s (%d inputs)\n", fn, tried)
	}
}
