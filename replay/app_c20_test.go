package app

// Replay harness for the C20 obligations of package app (injected by gocv with `go test -overlay`; never written
// into /repo). Author ca-R4. "An error always yields a non-zero exit status; status 0 exactly for a nil error":
// NewError / NewErrorf / WrapError / newAppError are called with exit codes {-1, 0, 1, 2, 100, 255} and errors
// {nil, "boom", ""}; GetExitCode is applied to the result, to the result wrapped again with fmt.Errorf("%w"), to a
// plain error and to nil. Documented: the constructors never return nil, never an error whose exit code is 0, keep a
// non-zero code, keep the cause reachable (errors.Is) and its message; GetExitCode is 0 exactly for nil, the
// constructor's code for errors of this package (also when wrapped), 1 for any other error.

import (
	"errors"
	"fmt"
	"os"
	"strings"
	"testing"
)

func TestVerifReplayC20(t *testing.T) {
	fn := os.Getenv("VERIF_REPLAY_FUNC")
	switch fn {
	case "newAppError", "NewError", "NewErrorf", "WrapError", "GetExitCode", "Error", "Unwrap":
	default:
		fmt.Printf("VERIF-REPLAY no harness for %q\n", fn)
		return
	}
	found := 0
	report := func(format string, a ...any) {
		if found < 4 {
			fmt.Printf("VERIF-REPLAY FAILING-INPUT "+format+"\n", a...)
		}
		found++
	}
	tried := 0
	check := func(input string, code int, cause error, message string, got error) {
		tried++
		wantCode := code
		if code == 0 {
			wantCode = -12345 // any non-zero code
		}
		if got == nil {
			report("%s returns nil; documented: always an error", input)
			return
		}
		exit := GetExitCode(got)
		wrapped := GetExitCode(fmt.Errorf("while running: %w", got))
		switch {
		case exit == 0 || wrapped == 0:
			report("%s gives an error with exit code %d (%d when wrapped with %%w); documented: an error never yields exit status 0", input, exit, wrapped)
		case code != 0 && (exit != wantCode || wrapped != wantCode):
			report("%s gives an error with exit code %d (%d when wrapped with %%w); documented: the given non-zero code is kept", input, exit, wrapped)
		case cause != nil && !errors.Is(got, cause):
			report("%s: the cause is not reachable through errors.Is", input)
		case message != "" && !strings.Contains(got.Error(), message):
			report("%s has the message %q; documented: the given message %q is kept", input, got.Error(), message)
		}
	}
	for _, code := range []int{-1, 0, 1, 2, 100, 255} {
		for _, message := range []string{"boom", ""} {
			check(fmt.Sprintf("NewError(%d, %q)", code, message), code, nil, message, NewError(code, message))
			check(fmt.Sprintf("NewErrorf(%d, \"%%s!\", %q)", code, message), code, nil, message, NewErrorf(code, "%s!", message))
			cause := errors.New(message)
			check(fmt.Sprintf("WrapError(%d, errors.New(%q))", code, message), code, cause, message, WrapError(code, cause))
			if e := newAppError(code, cause); e == nil || e.exitCode == 0 || e.err == nil {
				report("newAppError(%d, errors.New(%q)) = %+v; documented: a non-nil record with a non-zero exit code and an error", code, message, e)
			} else {
				check(fmt.Sprintf("newAppError(%d, errors.New(%q))", code, message), code, cause, message, e)
			}
		}
		check(fmt.Sprintf("WrapError(%d, nil)", code), code, nil, "", WrapError(code, nil))
	}
	tried += 3
	if got := GetExitCode(nil); got != 0 {
		report("GetExitCode(nil) = %d; documented 0", got)
	}
	if got := GetExitCode(errors.New("plain")); got != 1 {
		report("GetExitCode(errors.New(\"plain\")) = %d; documented 1 for an error not created by this package", got)
	}
	if got := GetExitCode(errors.Join(errors.New("other"), NewError(7, "seven"))); got != 7 {
		report("GetExitCode(errors.Join(plain error, NewError(7, \"seven\"))) = %d; documented 7", got)
	}
	if found == 0 {
		fmt.Printf("VERIF-REPLAY no failing input found for %s (%d inputs)\n", fn, tried)
	}
}
