package buffetch

// Replay / bounded contract run for the C11 obligations of package buffetch: the PATH half of the decision table
// "path -> (format, compression)" (processRawRef, processRawRefSource, processRawRefSourceOrModule, the message
// processor made by newProcessRawRefMessage), format name -> encoding (parseMessageEncoding), the message ref handed
// to reader and writer, and the format tables. Injected with go test -overlay.
//
// Inputs: the systematic family {"-", x.binpb, x.bin, x.json, x.txtpb, x.yaml, x.yml, x.tar, x.zip, x.git, x.tgz, x,
// x.foo} x {no suffix, .gz, .zst} x {no option, #format=<each format>, #compression=none|gzip|zstd|bogus, both,
// duplicated keys}, through the processors directly and through NewMessageRefParser / NewRefParser /
// NewSourceRefParser; message files really written and read back through NewWriter / NewMessageReader.
//
// Oracle (from the documented table: buf Inputs reference "automatically derived formats", the doc comments of the
// format constants, and the contract clauses; never from ref_parser.go): the literal tables below. The bytes written
// by PutMessageFile are checked INDEPENDENTLY with compress/gzip and klauspost zstd.

import (
	"bytes"
	stdgzip "compress/gzip"
	"context"
	"fmt"
	"io"
	"log/slog"
	"os"
	"path/filepath"
	"reflect"
	"sort"
	"strings"
	"testing"

	"github.com/bufbuild/buf/private/buf/buffetch/internal"
	"github.com/bufbuild/buf/private/bufpkg/bufconfig"
	"github.com/bufbuild/buf/private/pkg/app"
	"github.com/bufbuild/buf/private/pkg/storage/storageos"
	kzstd "github.com/klauspost/compress/zstd"
)

var c11bLogger = slog.New(slog.NewTextHandler(io.Discard, nil))

type c11bFailure struct {
	tag  string
	text string
}

type c11bRun struct {
	failures []c11bFailure
	checked  int
}

func (r *c11bRun) fail(tag string, format string, a ...any) {
	r.failures = append(r.failures, c11bFailure{tag, fmt.Sprintf(format, a...)})
}

func c11bCompName(c internal.CompressionType) string {
	switch c {
	case 0:
		return "unset(0)"
	case internal.CompressionTypeNone:
		return "none"
	case internal.CompressionTypeGzip:
		return "gzip"
	case internal.CompressionTypeZstd:
		return "zstd"
	}
	return fmt.Sprintf("CompressionType(%d)", int(c))
}

// c11bNilRef reports a nil interface or a nil pointer inside the interface.
func c11bNilRef(v any) bool {
	if v == nil {
		return true
	}
	rv := reflect.ValueOf(v)
	return rv.Kind() == reflect.Ptr && rv.IsNil()
}

// guard runs one input's checks; a panic of the code under test is a deviation too.
func (r *c11bRun) guard(tag string, desc string, f func()) {
	defer func() {
		if x := recover(); x != nil {
			r.fail(tag, "%s: panic: %v", desc, x)
		}
	}()
	f()
}

func c11bEncName(e MessageEncoding) string {
	switch e {
	case MessageEncodingBinpb:
		return "binpb"
	case MessageEncodingJSON:
		return "json"
	case MessageEncodingTxtpb:
		return "txtpb"
	case MessageEncodingYAML:
		return "yaml"
	}
	return fmt.Sprintf("MessageEncoding(%d)", int(e))
}

// ---------------------------------------------------------------- the documented tables

// message formats and their encodings (doc comments of the format constants: binpb, txtpb, json, yaml; bin is the old
// form of binpb; bingz / jsongz are the deprecated gzipped forms of binpb / json)
var c11bEncodingOfFormat = map[string]MessageEncoding{
	"binpb":  MessageEncodingBinpb,
	"bin":    MessageEncodingBinpb,
	"bingz":  MessageEncodingBinpb,
	"json":   MessageEncodingJSON,
	"jsongz": MessageEncodingJSON,
	"txtpb":  MessageEncodingTxtpb,
	"yaml":   MessageEncodingYAML,
}

// default compression of a format when neither the path nor an option decides one
var c11bDefaultGzip = map[string]bool{"bingz": true, "jsongz": true, "targz": true}

var c11bArchiveFormats = map[string]bool{"tar": true, "targz": true, "zip": true}

var c11bAllDocumentedFormats = []string{"bin", "binpb", "bingz", "json", "jsongz", "txtpb", "yaml", "dir", "git", "protofile", "tar", "targz", "zip", "mod"}

// the extension -> message format table
var c11bMsgExt = map[string]string{".bin": "binpb", ".binpb": "binpb", ".json": "json", ".txtpb": "txtpb", ".yaml": "yaml"}

type c11bPath struct {
	base   string // "-" or "x"
	ext    string // "", ".json", ...
	suffix string // "", ".gz", ".zst"
}

func (p c11bPath) String() string { return p.base + p.ext + p.suffix }

func c11bPaths() []c11bPath {
	var out []c11bPath
	out = append(out, c11bPath{"-", "", ""})
	for _, ext := range []string{".binpb", ".bin", ".json", ".txtpb", ".yaml", ".yml", ".tar", ".zip", ".git", ".tgz", "", ".foo"} {
		for _, suffix := range []string{"", ".gz", ".zst"} {
			out = append(out, c11bPath{"x", ext, suffix})
		}
	}
	return out
}

type c11bDecision struct {
	format string // "" when err; "dir|mod" for a directory-or-module answer
	comp   internal.CompressionType
	err    bool
	label  string
}

func c11bSuffixComp(suffix string) internal.CompressionType {
	switch suffix {
	case ".gz":
		return internal.CompressionTypeGzip
	case ".zst":
		return internal.CompressionTypeZstd
	}
	return 0
}

// the any-input parser (buf build / lint / breaking INPUT)
func c11bWantAll(p c11bPath) c11bDecision {
	if p.base == "-" {
		return c11bDecision{"binpb", 0, false, "stdio-and-devices-are-binpb"}
	}
	if p.suffix != "" {
		label := "gz-over-inner-extension"
		if p.suffix == ".zst" {
			label = "zst-over-inner-extension"
		}
		if f, ok := c11bMsgExt[p.ext]; ok {
			return c11bDecision{f, c11bSuffixComp(p.suffix), false, label}
		}
		if p.ext == ".tar" {
			return c11bDecision{"tar", c11bSuffixComp(p.suffix), false, label}
		}
		return c11bDecision{"", 0, true, "unknown-compressed-format-is-an-error"}
	}
	if f, ok := c11bMsgExt[p.ext]; ok {
		return c11bDecision{f, 0, false, "message-extension compression-only-from-suffix"}
	}
	switch p.ext {
	case ".tar":
		return c11bDecision{"tar", 0, false, "message-extension compression-only-from-suffix"}
	case ".zip":
		return c11bDecision{"zip", 0, false, "zip compression-only-from-suffix"}
	case ".git":
		return c11bDecision{"git", 0, false, "git compression-only-from-suffix"}
	case ".tgz":
		return c11bDecision{"tar", internal.CompressionTypeGzip, false, "tgz"}
	}
	return c11bDecision{"dir|mod", 0, false, "other-path-is-dir-or-module compression-only-from-suffix"}
}

// the message parser (buf build -o, buf convert)
func c11bWantMsg(p c11bPath, defaultFormat string) c11bDecision {
	if p.base == "-" {
		return c11bDecision{defaultFormat, 0, false, "stdio-is-the-default-format"}
	}
	if p.suffix != "" {
		label := "gz-over-inner-extension"
		if p.suffix == ".zst" {
			label = "zst-over-inner-extension"
		}
		if f, ok := c11bMsgExt[p.ext]; ok {
			return c11bDecision{f, c11bSuffixComp(p.suffix), false, label}
		}
		return c11bDecision{"", 0, true, "unknown-compressed-format-is-an-error"}
	}
	if f, ok := c11bMsgExt[p.ext]; ok {
		return c11bDecision{f, 0, false, "message-extension compression-only-from-suffix"}
	}
	return c11bDecision{defaultFormat, 0, false, "other-extension-is-the-default-format compression-only-from-suffix"}
}

// the source parsers (directory, tar, zip, git)
func c11bWantSource(p c11bPath, moduleAllowed bool) c11bDecision {
	if p.suffix != "" {
		if p.ext == ".tar" {
			if p.suffix == ".gz" {
				return c11bDecision{"tar", internal.CompressionTypeGzip, false, "tar-gz"}
			}
			return c11bDecision{"tar", internal.CompressionTypeZstd, false, "tar-zst"}
		}
		return c11bDecision{"", 0, true, "unknown-compressed-format-is-an-error"}
	}
	switch p.ext {
	case ".tar":
		return c11bDecision{"tar", 0, false, "tar"}
	case ".zip":
		return c11bDecision{"zip", 0, false, "zip"}
	case ".git":
		return c11bDecision{"git", 0, false, "git"}
	case ".tgz":
		return c11bDecision{"tar", internal.CompressionTypeGzip, false, "tgz"}
	}
	if moduleAllowed {
		return c11bDecision{"dir|mod", 0, false, "anything-else-is-dir-or-module"}
	}
	return c11bDecision{"dir", 0, false, "anything-else-is-a-directory"}
}

func c11bFormatMatches(got string, want string) bool {
	if want == "dir|mod" {
		return got == "dir" || got == "mod"
	}
	return got == want
}

// ---------------------------------------------------------------- the processors, directly

func (r *c11bRun) checkProcessor(name string, proc func(*internal.RawRef) error, p c11bPath, want c11bDecision) {
	r.checked++
	raw := &internal.RawRef{Path: p.String(), UnrecognizedOptions: map[string]string{}}
	err := proc(raw)
	desc := fmt.Sprintf("%s(RawRef{Path %q})", name, p.String())
	if want.err {
		if err == nil {
			r.fail(want.label, "%s: got format %q, compression %s, no error; want an error: a .gz / .zst suffix over an unknown inner extension is an error, never a default", desc, raw.Format, c11bCompName(raw.CompressionType))
		}
		return
	}
	if err != nil {
		r.fail(want.label, "%s: got error %v; want format %q, compression %s", desc, err, want.format, c11bCompName(want.comp))
		return
	}
	if !c11bFormatMatches(raw.Format, want.format) || raw.CompressionType != want.comp {
		r.fail(want.label, "%s: got format %q, compression %s; want format %q, compression %s", desc, raw.Format, c11bCompName(raw.CompressionType), want.format, c11bCompName(want.comp))
	}
}

func (r *c11bRun) familyProcessRawRef() {
	for _, p := range c11bPaths() {
		r.checkProcessor("processRawRef", processRawRef, p, c11bWantAll(p))
	}
	for _, dev := range []string{"/dev/stdin", "/dev/stdout", "/dev/null"} {
		r.checked++
		raw := &internal.RawRef{Path: dev, UnrecognizedOptions: map[string]string{}}
		if err := processRawRef(raw); err != nil || raw.Format != "binpb" || raw.CompressionType != 0 {
			r.fail("stdio-and-devices-are-binpb", "processRawRef(RawRef{Path %q}): got format %q, compression %s, err=%v; want binpb, unset", dev, raw.Format, c11bCompName(raw.CompressionType), err)
		}
	}
}

func (r *c11bRun) familyProcessRawRefSource() {
	for _, p := range c11bPaths() {
		r.checkProcessor("processRawRefSource", processRawRefSource, p, c11bWantSource(p, false))
	}
}

func (r *c11bRun) familyProcessRawRefSourceOrModule() {
	for _, p := range c11bPaths() {
		r.checkProcessor("processRawRefSourceOrModule", processRawRefSourceOrModule, p, c11bWantSource(p, true))
	}
}

var c11bEncodings = []struct {
	enc    MessageEncoding
	format string
}{
	{MessageEncodingBinpb, "binpb"},
	{MessageEncodingJSON, "json"},
	{MessageEncodingTxtpb, "txtpb"},
	{MessageEncodingYAML, "yaml"},
}

func (r *c11bRun) familyProcessRawRefMessage() {
	for _, e := range c11bEncodings {
		proc := newProcessRawRefMessage(e.enc)
		for _, p := range c11bPaths() {
			r.checkProcessor(fmt.Sprintf("newProcessRawRefMessage(%s)", e.format), proc, p, c11bWantMsg(p, e.format))
		}
		for _, dev := range []string{"/dev/stdin", "/dev/stdout", "/dev/null"} {
			r.checked++
			raw := &internal.RawRef{Path: dev, UnrecognizedOptions: map[string]string{}}
			if err := proc(raw); err != nil || raw.Format != e.format || raw.CompressionType != 0 {
				r.fail("stdio-is-the-default-format", "newProcessRawRefMessage(%s)(RawRef{Path %q}): got format %q, compression %s, err=%v; want %q, unset", e.format, dev, raw.Format, c11bCompName(raw.CompressionType), err, e.format)
			}
		}
	}
	for _, bad := range []MessageEncoding{0, 99, -1} {
		for _, path := range []string{"-", "x.binpb", "x.foo"} {
			r.checked++
			raw := &internal.RawRef{Path: path, UnrecognizedOptions: map[string]string{}}
			if err := newProcessRawRefMessage(bad)(raw); err == nil {
				r.fail("unknown-default-encoding-is-an-error", "newProcessRawRefMessage(MessageEncoding(%d))(RawRef{Path %q}): got format %q, no error; want an error", int(bad), path, raw.Format)
			}
		}
	}
}

// ---------------------------------------------------------------- parseMessageEncoding

func (r *c11bRun) familyParseMessageEncoding() {
	for _, f := range append(append([]string{}, c11bAllDocumentedFormats...), "", "foo", "JSON", "binpb ", "yml", "text", "jsonzst") {
		r.checked++
		got, err := parseMessageEncoding(f)
		if want, ok := c11bEncodingOfFormat[f]; ok {
			if err != nil || got != want {
				r.fail(c11bEncName(want), "parseMessageEncoding(%q): got (%s, err=%v); want (%s, nil)", f, c11bEncName(got), err, c11bEncName(want))
			}
			continue
		}
		if err == nil || got != 0 {
			r.fail("other-format-is-an-error", "parseMessageEncoding(%q): got (%s, err=%v); want (0, an error): not a message format", f, c11bEncName(got), err)
		}
	}
}

// ---------------------------------------------------------------- options

type c11bOptions struct {
	suffix string // "#..." as written
	format string // "" = not given
	comp   string // "" = not given
	dup    bool
}

func c11bOptionFamily(formats []string) []c11bOptions {
	out := []c11bOptions{{"", "", "", false}}
	for _, f := range formats {
		out = append(out, c11bOptions{"#format=" + f, f, "", false})
	}
	for _, c := range []string{"none", "gzip", "zstd", "bogus"} {
		out = append(out, c11bOptions{"#compression=" + c, "", c, false})
	}
	for _, f := range formats {
		for _, c := range []string{"none", "gzip", "zstd", "bogus"} {
			out = append(out, c11bOptions{"#format=" + f + ",compression=" + c, f, c, false})
		}
	}
	out = append(out,
		c11bOptions{"#format=json,format=binpb", "", "", true},
		c11bOptions{"#format=binpb,format=binpb", "", "", true},
		c11bOptions{"#compression=gzip,compression=zstd", "", "", true},
		c11bOptions{"#compression=none,format=yaml,compression=gzip", "", "", true},
	)
	return out
}

var c11bKnownComp = map[string]internal.CompressionType{"none": internal.CompressionTypeNone, "gzip": internal.CompressionTypeGzip, "zstd": internal.CompressionTypeZstd}

// c11bDecide combines the path's answer with the explicit options. ok=false: nothing is demanded for this input.
func c11bDecide(pathWant c11bDecision, o c11bOptions) (format string, comp internal.CompressionType, wantErr bool, why string, ok bool) {
	if o.dup {
		return "", 0, true, "a repeated option key is an error", true
	}
	if pathWant.err {
		if o.format != "" {
			return "", 0, false, "", false
		}
		return "", 0, true, "a .gz / .zst suffix over an unknown inner extension is an error", true
	}
	comp = pathWant.comp
	if o.comp != "" {
		c, known := c11bKnownComp[o.comp]
		if !known {
			return "", 0, true, "#compression=" + o.comp + " is not none, gzip or zstd", true
		}
		comp = c
	}
	format = pathWant.format
	if o.format != "" {
		format = o.format
	}
	return format, comp, false, "", true
}

// ---------------------------------------------------------------- GetMessageRef on the family

var c11bMessageFormatOptions = []string{"binpb", "bin", "json", "txtpb", "yaml", "bingz", "jsongz", "tar", "dir", "foo"}

func (r *c11bRun) familyGetMessageRef(ctx context.Context) {
	type parserCase struct {
		name          string
		parser        MessageRefParser
		defaultFormat string
	}
	parsers := []parserCase{{"NewMessageRefParser()", NewMessageRefParser(c11bLogger), "binpb"}}
	for _, e := range c11bEncodings {
		parsers = append(parsers, parserCase{
			fmt.Sprintf("NewMessageRefParser(default encoding %s)", e.format),
			NewMessageRefParser(c11bLogger, MessageRefParserWithDefaultMessageEncoding(e.enc)),
			e.format,
		})
	}
	for pi, pc := range parsers {
		for _, p := range c11bPaths() {
			pathWant := c11bWantMsg(p, pc.defaultFormat)
			for _, o := range c11bOptionFamily(c11bMessageFormatOptions) {
				if pi > 1 && o.suffix != "" && p.base != "-" && p.ext != ".foo" {
					continue // the default encoding only matters where the path does not decide
				}
				value := p.String() + o.suffix
				r.checked++
				desc := fmt.Sprintf("%s.GetMessageRef(%q)", pc.name, value)
				got, err := pc.parser.GetMessageRef(ctx, value)
				if err != nil && got != nil {
					r.fail("failure-has-no-ref", "%s: got a ref together with error %v", desc, err)
				}
				format, comp, wantErr, why, ok := c11bDecide(pathWant, o)
				if !ok {
					continue
				}
				wantEnc, isMessage := c11bEncodingOfFormat[format]
				if !wantErr && !isMessage {
					wantErr, why = true, fmt.Sprintf("%q is not a message format", format)
				}
				tag := pathWant.label + " encoding-of-the-parsed-format the-decided-encoding hands-over-the-parsed-ref kept built exactly-the-message-formats"
				if wantErr {
					if err == nil {
						r.fail(tag, "%s: got a ref with encoding %s; want an error: %s", desc, c11bEncName(got.MessageEncoding()), why)
					}
					continue
				}
				if comp == 0 {
					comp = internal.CompressionTypeNone
					if c11bDefaultGzip[format] {
						comp = internal.CompressionTypeGzip
					}
				}
				if err != nil {
					r.fail(tag, "%s: got error %v; want a message ref with encoding %s, format %q, compression %s", desc, err, c11bEncName(wantEnc), format, c11bCompName(comp))
					continue
				}
				mr, isMR := got.(*messageRef)
				if !isMR || mr == nil {
					r.fail("built", "%s: got %T; want a *messageRef", desc, got)
					continue
				}
				if got.MessageEncoding() != wantEnc {
					r.fail(tag, "%s: got encoding %s; want %s (the encoding of format %q)", desc, c11bEncName(got.MessageEncoding()), c11bEncName(wantEnc), format)
				}
				single := got.internalSingleRef()
				if c11bNilRef(single) {
					r.fail("hands-over-the-parsed-ref", "%s: internalSingleRef() is nil (%T), not the parsed ref %+v the message ref was built from (reader and writer must get the SAME parsed ref)", desc, single, mr.singleRef)
					continue
				}
				if single != mr.singleRef {
					r.fail("hands-over-the-parsed-ref", "%s: internalSingleRef() is %+v, not the parsed ref %+v the message ref was built from (reader and writer must get the SAME parsed ref)", desc, single, mr.singleRef)
				}
				if single.CompressionType() != comp {
					r.fail(tag+" zst-over-inner-extension gz-over-inner-extension", "%s: the single ref handed to reader / writer has compression %s; want %s", desc, c11bCompName(single.CompressionType()), c11bCompName(comp))
				}
				if hf, has := single.(internal.HasFormat); !has || hf.Format() != format {
					gotFormat := "<none>"
					if has {
						gotFormat = hf.Format()
					}
					r.fail(tag, "%s: the single ref handed to reader / writer has format %q; want %q", desc, gotFormat, format)
				}
				if (p.base == "-") != (single.FileScheme() == internal.FileSchemeStdio) {
					r.fail("hands-over-the-parsed-ref", "%s: the single ref has file scheme %d; \"-\" and only \"-\" is stdio", desc, int(single.FileScheme()))
				}
			}
		}
	}
}

// c11bStubParser is a stand-in for the internal parser that answers a single-file ref of a fixed format whatever the
// allowed formats are: GetMessageRef must then still derive the encoding from the format, or fail.
type c11bStubParser struct {
	format string
}

func (s c11bStubParser) GetParsedRef(context.Context, string, ...internal.GetParsedRefOption) (internal.ParsedRef, error) {
	return internal.NewDirectParsedSingleRef(s.format, "x.data", internal.FileSchemeLocal, internal.CompressionTypeNone, nil), nil
}

func (s c11bStubParser) GetParsedRefForInputConfig(context.Context, bufconfig.InputConfig, ...internal.GetParsedRefOption) (internal.ParsedRef, error) {
	return internal.NewDirectParsedSingleRef(s.format, "x.data", internal.FileSchemeLocal, internal.CompressionTypeNone, nil), nil
}

func (r *c11bRun) familyGetMessageRefStub(ctx context.Context) {
	for _, f := range append(append([]string{}, c11bAllDocumentedFormats...), "", "foo", "JSON") {
		r.checked++
		a := &refParser{logger: c11bLogger, fetchRefParser: c11bStubParser{format: f}}
		got, err := a.GetMessageRef(ctx, "x.data")
		desc := fmt.Sprintf("refParser.GetMessageRef(\"x.data\") when the internal parser answers a single-file ref of format %q", f)
		if err != nil && got != nil {
			r.fail("failure-has-no-ref", "%s: got a ref together with error %v", desc, err)
		}
		want, isMessage := c11bEncodingOfFormat[f]
		if !isMessage {
			if err == nil {
				r.fail("encoding-of-the-parsed-format", "%s: got a message ref with encoding %s; want an error: %q is no message format and the encoding is never a default on failure", desc, c11bEncName(got.MessageEncoding()), f)
			}
			continue
		}
		if err != nil || got == nil {
			r.fail("encoding-of-the-parsed-format built", "%s: got error %v; want encoding %s", desc, err, c11bEncName(want))
			continue
		}
		if got.MessageEncoding() != want {
			r.fail("encoding-of-the-parsed-format the-decided-encoding", "%s: got encoding %s; want %s", desc, c11bEncName(got.MessageEncoding()), c11bEncName(want))
		}
	}
}

func (r *c11bRun) familyNewMessageRef() {
	for _, e := range []MessageEncoding{MessageEncodingBinpb, MessageEncodingJSON, MessageEncodingTxtpb, MessageEncodingYAML} {
		for _, c := range []internal.CompressionType{internal.CompressionTypeNone, internal.CompressionTypeGzip, internal.CompressionTypeZstd} {
			for _, opts := range []map[string]string{nil, {"use_proto_names": "true"}, {"use_proto_names": "maybe"}} {
				r.checked++
				single := internal.NewDirectParsedSingleRef("yaml", "x.data", internal.FileSchemeLocal, c, opts)
				got, err := newMessageRef(single, e)
				desc := fmt.Sprintf("newMessageRef(single ref{format yaml, compression %s, options %v}, %s)", c11bCompName(c), opts, c11bEncName(e))
				if err != nil {
					if got != nil {
						r.fail("failure-has-no-ref", "%s: got a ref together with error %v", desc, err)
					}
					if opts["use_proto_names"] != "maybe" {
						r.fail("kept", "%s: got error %v", desc, err)
					}
					continue
				}
				if got == nil || got.messageEncoding != e || got.MessageEncoding() != e {
					r.fail("kept the-decided-encoding", "%s: got %+v; want the encoding kept", desc, got)
					continue
				}
				if got.singleRef != internal.SingleRef(single) {
					r.fail("kept", "%s: the ref holds %+v, not the single ref it was given", desc, got.singleRef)
				}
				if handed := got.internalSingleRef(); c11bNilRef(handed) {
					r.fail("hands-over-the-parsed-ref", "%s: internalSingleRef() is nil, not the parsed ref it was built from", desc)
				} else if handed != internal.SingleRef(single) {
					r.fail("hands-over-the-parsed-ref", "%s: internalSingleRef() is %+v (compression %s), not the parsed ref it was built from (compression %s)", desc, handed, c11bCompName(handed.CompressionType()), c11bCompName(c))
				}
			}
		}
	}
}

// ---------------------------------------------------------------- message files really written and read

var c11bPayload = []byte("VERIF C11 message payload \x00\x01\x02 " + strings.Repeat("abcdefgh", 64))

func c11bGzip(p []byte) []byte {
	var b bytes.Buffer
	w := stdgzip.NewWriter(&b)
	_, _ = w.Write(p)
	_ = w.Close()
	return b.Bytes()
}

func c11bZstd(p []byte) []byte {
	var b bytes.Buffer
	w, err := kzstd.NewWriter(&b)
	if err != nil {
		panic(err)
	}
	_, _ = w.Write(p)
	_ = w.Close()
	return b.Bytes()
}

func c11bDecode(comp internal.CompressionType, b []byte) ([]byte, error) {
	switch comp {
	case internal.CompressionTypeGzip:
		zr, err := stdgzip.NewReader(bytes.NewReader(b))
		if err != nil {
			return nil, err
		}
		return io.ReadAll(zr)
	case internal.CompressionTypeZstd:
		zr, err := kzstd.NewReader(bytes.NewReader(b))
		if err != nil {
			return nil, err
		}
		defer zr.Close()
		return io.ReadAll(zr)
	}
	return b, nil
}

func c11bBytesName(b []byte) string {
	switch {
	case bytes.Equal(b, c11bPayload):
		return "the plain payload"
	case len(b) >= 2 && b[0] == 0x1f && b[1] == 0x8b:
		return fmt.Sprintf("%d bytes of gzip data (1f 8b ...)", len(b))
	case len(b) >= 4 && b[0] == 0x28 && b[1] == 0xb5 && b[2] == 0x2f && b[3] == 0xfd:
		return fmt.Sprintf("%d bytes of zstd data (28 b5 2f fd ...)", len(b))
	}
	n := len(b)
	if n > 8 {
		n = 8
	}
	return fmt.Sprintf("%d bytes starting % x", len(b), b[:n])
}

func (r *c11bRun) familyMessageFiles(ctx context.Context, t *testing.T) {
	dir := t.TempDir()
	parser := NewMessageRefParser(c11bLogger)
	wr := NewWriter(c11bLogger)
	rd := NewMessageReader(c11bLogger, storageos.NewProvider(), nil, nil, nil)
	type fileCase struct {
		value string // "%s" is the temp dir
		stdio bool
		comp  internal.CompressionType
	}
	var cases []fileCase
	for _, ext := range []string{".binpb", ".json", ".txtpb", ".yaml"} {
		cases = append(cases,
			fileCase{"%s/m" + ext, false, internal.CompressionTypeNone},
			fileCase{"%s/m" + ext + ".gz", false, internal.CompressionTypeGzip},
			fileCase{"%s/m" + ext + ".zst", false, internal.CompressionTypeZstd},
			fileCase{"%s/n" + ext + "#compression=gzip", false, internal.CompressionTypeGzip},
			fileCase{"%s/o" + ext + ".gz#compression=zstd", false, internal.CompressionTypeZstd},
			fileCase{"%s/p" + ext + ".zst#compression=none", false, internal.CompressionTypeNone},
		)
	}
	cases = append(cases,
		fileCase{"-", true, internal.CompressionTypeNone},
		fileCase{"-#compression=gzip", true, internal.CompressionTypeGzip},
		fileCase{"-#format=json,compression=zstd", true, internal.CompressionTypeZstd},
		fileCase{"-#format=bingz", true, internal.CompressionTypeGzip},
		fileCase{"%s/q.data#format=jsongz", false, internal.CompressionTypeGzip},
	)
	for _, c := range cases {
		value := c.value
		if strings.Contains(value, "%s") {
			value = fmt.Sprintf(value, dir)
		}
		shown := strings.ReplaceAll(value, dir, "<tmp>")
		r.guard("writes-to-the-parsed-ref reads-from-the-parsed-ref hands-over-the-parsed-ref", fmt.Sprintf("PutMessageFile / GetMessageFile(ref of %q)", shown), func() { r.messageFileCase(ctx, t, dir, parser, wr, rd, value, shown, c.stdio, c.comp) })
	}
}

func (r *c11bRun) messageFileCase(ctx context.Context, t *testing.T, dir string, parser MessageRefParser, wr Writer, rd MessageReader, value string, shown string, stdio bool, comp internal.CompressionType) {
	c := struct {
		stdio bool
		comp  internal.CompressionType
	}{stdio, comp}
	for once := true; once; once = false {
		r.checked++
		ref, err := parser.GetMessageRef(ctx, value)
		if err != nil {
			r.fail("built", "NewMessageRefParser().GetMessageRef(%q): got error %v", shown, err)
			continue
		}
		// write
		var stdout bytes.Buffer
		wc, err := wr.PutMessageFile(ctx, app.NewContainer(nil, bytes.NewReader(nil), &stdout, io.Discard), ref)
		desc := fmt.Sprintf("NewWriter().PutMessageFile(ref of %q), writing the plain payload", shown)
		if err != nil {
			r.fail("writes-to-the-parsed-ref failure-reported", "%s: got error %v", desc, err)
			continue
		}
		_, werr := wc.Write(c11bPayload)
		if cerr := wc.Close(); werr == nil {
			werr = cerr
		}
		var out []byte
		if c.stdio {
			out = stdout.Bytes()
		} else {
			out, _ = os.ReadFile(filepath.Join(dir, filepath.Base(strings.SplitN(value, "#", 2)[0])))
		}
		plain, derr := c11bDecode(c.comp, out)
		if werr != nil || derr != nil || !bytes.Equal(plain, c11bPayload) {
			r.fail("writes-to-the-parsed-ref hands-over-the-parsed-ref", "%s: the destination holds %s (write err=%v, independent %s decoder says %v); want the payload with compression %s: the writer gets the parsed ref with the decided compression", desc, c11bBytesName(out), werr, c11bCompName(c.comp), derr, c11bCompName(c.comp))
		}
		// read what an independent compressor produced
		r.checked++
		var data []byte
		switch c.comp {
		case internal.CompressionTypeGzip:
			data = c11bGzip(c11bPayload)
		case internal.CompressionTypeZstd:
			data = c11bZstd(c11bPayload)
		default:
			data = c11bPayload
		}
		if !c.stdio {
			if err := os.WriteFile(filepath.Join(dir, filepath.Base(strings.SplitN(value, "#", 2)[0])), data, 0o600); err != nil {
				t.Fatal(err)
			}
		}
		rdesc := fmt.Sprintf("NewMessageReader().GetMessageFile(ref of %q) where the source holds %s", shown, c11bBytesName(data))
		rc, err := rd.GetMessageFile(ctx, app.NewContainer(nil, bytes.NewReader(data), io.Discard, io.Discard), ref)
		if err != nil {
			r.fail("reads-from-the-parsed-ref hands-over-the-parsed-ref", "%s: got error %v; want the plain payload", rdesc, err)
			continue
		}
		got, rerr := io.ReadAll(rc)
		_ = rc.Close()
		if rerr != nil || !bytes.Equal(got, c11bPayload) {
			r.fail("reads-from-the-parsed-ref hands-over-the-parsed-ref", "%s: read %s (err=%v); want the plain payload: the reader gets the parsed ref with the decided compression", rdesc, c11bBytesName(got), rerr)
		}
	}
}

// ---------------------------------------------------------------- GetRef / GetSourceRef / GetSourceOrModuleRef on the family

var c11bAllFormatOptions = []string{"binpb", "bin", "json", "txtpb", "yaml", "bingz", "jsongz", "tar", "targz", "zip", "dir", "foo"}

func (r *c11bRun) checkAnyRef(desc string, pathWant c11bDecision, o c11bOptions, p c11bPath, registered map[string]bool, got any, err error) {
	format, comp, wantErr, why, ok := c11bDecide(pathWant, o)
	if !ok {
		return
	}
	tag := pathWant.label
	if !wantErr {
		if format == "dir|mod" {
			format = "dir" // "x", "x.foo", "x.yml" are no module references
		}
		_, isMessage := c11bEncodingOfFormat[format]
		switch {
		case !registered[format]:
			wantErr, why = true, fmt.Sprintf("format %q is unknown to this parser", format)
		case format == "zip" && comp != 0:
			wantErr, why = true, "compression cannot be specified for zip"
		case !isMessage && !c11bArchiveFormats[format] && comp != 0:
			wantErr, why = true, fmt.Sprintf("compression cannot be specified for format %q", format)
		case format == "dir" && p.base == "-":
			wantErr, why = true, "\"-\" is no directory"
		}
	}
	if wantErr {
		if err == nil {
			r.fail(tag, "%s: got %T; want an error: %s", desc, got, why)
		}
		return
	}
	if format == "git" {
		return // only the classification of the path is demanded (checked on the processor)
	}
	if comp == 0 {
		comp = internal.CompressionTypeNone
		if c11bDefaultGzip[format] {
			comp = internal.CompressionTypeGzip
		}
	}
	if err != nil {
		r.fail(tag, "%s: got error %v; want a ref of format %q, compression %s", desc, err, format, c11bCompName(comp))
		return
	}
	wantEnc, isMessage := c11bEncodingOfFormat[format]
	switch {
	case isMessage:
		mr, isMR := got.(*messageRef)
		if !isMR {
			r.fail(tag, "%s: got %T; want a message ref (format %q is a message format)", desc, got, format)
			return
		}
		if mr.MessageEncoding() != wantEnc {
			r.fail(tag+" encoding-of-the-parsed-format", "%s: got encoding %s; want %s", desc, c11bEncName(mr.MessageEncoding()), c11bEncName(wantEnc))
		}
		single := mr.internalSingleRef()
		if c11bNilRef(single) || single != mr.singleRef {
			r.fail("hands-over-the-parsed-ref", "%s: internalSingleRef() is not the parsed ref the message ref was built from", desc)
			return
		}
		if single.CompressionType() != comp {
			r.fail(tag, "%s: the single ref has compression %s; want %s", desc, c11bCompName(single.CompressionType()), c11bCompName(comp))
		}
		if hf, has := single.(internal.HasFormat); !has || hf.Format() != format {
			r.fail(tag, "%s: the single ref does not carry format %q", desc, format)
		}
	case c11bArchiveFormats[format]:
		sr, isSR := got.(*sourceRef)
		if !isSR {
			r.fail(tag, "%s: got %T; want a source ref (format %q is a source packaging)", desc, got, format)
			return
		}
		ar, isAR := sr.internalBucketRef().(internal.ParsedArchiveRef)
		if !isAR {
			r.fail(tag, "%s: the source ref holds %T; want an archive ref", desc, sr.internalBucketRef())
			return
		}
		wantType := internal.ArchiveTypeTar
		if format == "zip" {
			wantType = internal.ArchiveTypeZip
		}
		if ar.Format() != format || ar.ArchiveType() != wantType || ar.CompressionType() != comp {
			r.fail(tag, "%s: got an archive ref of format %q, archive type %d, compression %s; want format %q, archive type %d, compression %s", desc, ar.Format(), int(ar.ArchiveType()), c11bCompName(ar.CompressionType()), format, int(wantType), c11bCompName(comp))
		}
	case format == "dir":
		switch t := got.(type) {
		case *dirRef:
		case *sourceRef:
			if _, isDir := t.internalBucketRef().(internal.DirRef); !isDir {
				r.fail(tag, "%s: the source ref holds %T; want a directory ref", desc, t.internalBucketRef())
			}
		default:
			r.fail(tag, "%s: got %T; want a directory ref", desc, got)
		}
	}
}

func c11bSet(formats ...string) map[string]bool {
	m := map[string]bool{}
	for _, f := range formats {
		m[f] = true
	}
	return m
}

func (r *c11bRun) familyGetRef(ctx context.Context) {
	parser := NewRefParser(c11bLogger)
	registered := c11bSet(c11bAllDocumentedFormats...)
	for _, p := range c11bPaths() {
		for _, o := range c11bOptionFamily(c11bAllFormatOptions) {
			value := p.String() + o.suffix
			r.checked++
			got, err := parser.GetRef(ctx, value)
			r.checkAnyRef(fmt.Sprintf("NewRefParser().GetRef(%q)", value), c11bWantAll(p), o, p, registered, got, err)
		}
	}
}

func (r *c11bRun) familyGetSourceRef(ctx context.Context, moduleAllowed bool) {
	registered := c11bSet("dir", "git", "protofile", "tar", "targz", "zip")
	if moduleAllowed {
		registered["mod"] = true
	}
	for _, p := range c11bPaths() {
		for _, o := range c11bOptionFamily([]string{"tar", "targz", "zip", "dir", "binpb", "foo"}) {
			value := p.String() + o.suffix
			r.checked++
			if moduleAllowed {
				got, err := NewSourceOrModuleRefParser(c11bLogger).GetSourceOrModuleRef(ctx, value)
				r.checkAnyRef(fmt.Sprintf("NewSourceOrModuleRefParser().GetSourceOrModuleRef(%q)", value), c11bWantSource(p, true), o, p, registered, got, err)
			} else {
				got, err := NewSourceRefParser(c11bLogger).GetSourceRef(ctx, value)
				r.checkAnyRef(fmt.Sprintf("NewSourceRefParser().GetSourceRef(%q)", value), c11bWantSource(p, false), o, p, registered, got, err)
			}
		}
	}
}

// ---------------------------------------------------------------- assumeModuleOrDir

func (r *c11bRun) familyAssumeModuleOrDir(t *testing.T) {
	dir := t.TempDir()
	cases := []struct {
		path string
		want string // "" = error
	}{
		{"", ""},
		{"x", "dir"},
		{"x.foo", "dir"},
		{"a/b", "dir"},
		{"buf.build/acme/weather", "mod"},
		{"buf.build/acme/weather:main", "mod"},
		{dir, "dir"},
	}
	for _, c := range cases {
		r.checked++
		got, err := assumeModuleOrDir(c.path)
		shown := strings.ReplaceAll(c.path, dir, "<an existing temp dir>")
		if c.want == "" {
			if err == nil {
				r.fail("empty-path-is-an-error", "assumeModuleOrDir(%q): got %q; want an error", shown, got)
			}
			continue
		}
		if err != nil || got != c.want {
			r.fail("dir-or-module", "assumeModuleOrDir(%q): got (%q, err=%v); want %q (a module reference that is no directory is a module; anything else a directory)", shown, got, err, c.want)
		}
	}
}

// ---------------------------------------------------------------- the format tables

func c11bSameSet(got []string, want []string) (missing []string, extra []string) {
	g, w := c11bSet(got...), c11bSet(want...)
	for _, f := range want {
		if !g[f] {
			missing = append(missing, f)
		}
	}
	for _, f := range got {
		if !w[f] {
			extra = append(extra, f)
		}
	}
	return missing, extra
}

func (r *c11bRun) familyTables(ctx context.Context) {
	lists := []struct {
		tag  string
		name string
		got  []string
		want []string
		doc  string
	}{
		{"b2_messageFormats.exactly-the-message-formats", "messageFormats", messageFormats, []string{"bin", "binpb", "bingz", "json", "jsongz", "txtpb", "yaml"}, "the message formats are binpb, json, txtpb, yaml plus the deprecated bin, bingz, jsongz"},
		{"b2_messageFormatsNotDeprecated.the-four-encodings", "messageFormatsNotDeprecated", messageFormatsNotDeprecated, []string{"binpb", "json", "txtpb", "yaml"}, "the four message encodings"},
		{"b2_sourceFormats.exactly-the-source-formats", "sourceFormats", sourceFormats, []string{"dir", "git", "protofile", "tar", "targz", "zip"}, "the source formats"},
		{"b2_allFormats.message-and-source-and-module", "allFormats", allFormats, c11bAllDocumentedFormats, "message, source and module formats"},
	}
	for _, l := range lists {
		r.checked++
		missing, extra := c11bSameSet(l.got, l.want)
		if len(missing) > 0 || len(extra) > 0 {
			r.fail(l.tag, "format table %s = %v: missing %v, unexpected %v; want exactly %v (%s)", l.name, l.got, missing, extra, l.want, l.doc)
		}
	}
	r.checked++
	wantDeprecated := map[string]string{"bingz": "binpb", "jsongz": "json", "targz": "tar"}
	for f, repl := range wantDeprecated {
		if got, ok := deprecatedCompressionFormatToReplacementFormat[f]; !ok || got != repl {
			r.fail("b2_deprecatedFormats.replacement-is-the-uncompressed-format b2_deprecatedFormats.exactly-the-gz-formats", "deprecatedCompressionFormatToReplacementFormat[%q]: got %q (present %v); want %q", f, got, ok, repl)
		}
	}
	for f := range deprecatedCompressionFormatToReplacementFormat {
		if _, ok := wantDeprecated[f]; !ok {
			r.fail("b2_deprecatedFormats.exactly-the-gz-formats", "deprecatedCompressionFormatToReplacementFormat has the unexpected key %q; want exactly bingz, jsongz, targz", f)
		}
	}
	r.checked++
	for _, e := range c11bEncodings {
		if got, ok := messageEncodingToFormat[e.enc]; !ok || got != e.format {
			r.fail("b2_encodingNames.every-encoding-has-its-format b2_encodingNames.exactly-the-four", "messageEncodingToFormat[%s]: got %q (present %v); want %q", e.format, got, ok, e.format)
		}
		if e.enc == 0 {
			r.fail("b2_encodingNames.distinct", "MessageEncoding %s is 0", e.format)
		}
		for _, e2 := range c11bEncodings {
			if e.format != e2.format && e.enc == e2.enc {
				r.fail("b2_encodingNames.distinct", "MessageEncoding %s == MessageEncoding %s", e.format, e2.format)
			}
		}
	}
	if len(messageEncodingToFormat) != 4 {
		r.fail("b2_encodingNames.exactly-the-four", "messageEncodingToFormat has %d entries; want exactly the four encodings", len(messageEncodingToFormat))
	}
	// what the tables are for: every documented message format is accepted by the message parser, nothing else is
	parser := NewMessageRefParser(c11bLogger)
	for _, f := range append(append([]string{}, c11bAllDocumentedFormats...), "foo") {
		r.checked++
		value := "x.data#format=" + f
		got, err := parser.GetMessageRef(ctx, value)
		wantEnc, isMessage := c11bEncodingOfFormat[f]
		if isMessage {
			if err != nil {
				r.fail("b2_messageFormats.exactly-the-message-formats b2_allFormats.message-and-source-and-module", "NewMessageRefParser().GetMessageRef(%q): got error %v; want a message ref with encoding %s: %q is a documented message format", value, err, c11bEncName(wantEnc), f)
			} else if got.MessageEncoding() != wantEnc {
				r.fail("b2_encodingNames.every-encoding-has-its-format", "NewMessageRefParser().GetMessageRef(%q): got encoding %s; want %s", value, c11bEncName(got.MessageEncoding()), c11bEncName(wantEnc))
			}
		} else if err == nil {
			r.fail("b2_messageFormats.exactly-the-message-formats", "NewMessageRefParser().GetMessageRef(%q): got a message ref; want an error: %q is no message format", value, f)
		}
		if f == "foo" || f == "git" || f == "mod" || f == "protofile" {
			continue
		}
		r.checked++
		_, err = NewRefParser(c11bLogger).GetRef(ctx, value)
		if err != nil {
			r.fail("b2_allFormats.message-and-source-and-module b2_sourceFormats.exactly-the-source-formats", "NewRefParser().GetRef(%q): got error %v; want a ref: %q is a documented format", value, err, f)
		}
	}
	// the internal scheme prefixes are not reachable from here; the deprecated formats default to gzip
	for f := range wantDeprecated {
		if f == "targz" {
			continue
		}
		r.checked++
		got, err := parser.GetMessageRef(ctx, "x.data#format="+f)
		if err == nil && got.internalSingleRef().CompressionType() != internal.CompressionTypeGzip {
			r.fail("b2_deprecatedFormats.exactly-the-gz-formats", "NewMessageRefParser().GetMessageRef(%q): compression %s; want gzip", "x.data#format="+f, c11bCompName(got.internalSingleRef().CompressionType()))
		}
	}
}

// ---------------------------------------------------------------- dispatcher

func TestVerifReplayC11(t *testing.T) {
	fn := os.Getenv("VERIF_REPLAY_FUNC")
	obligation := os.Getenv("VERIF_REPLAY_OBLIGATION")
	ctx := context.Background()
	r := &c11bRun{}
	label := ""
	switch {
	case strings.HasPrefix(obligation, "table["):
		fn = "format tables"
		label = strings.TrimSuffix(strings.TrimPrefix(obligation, "table["), "]")
		r.familyTables(ctx)
	case fn == "parseMessageEncoding":
		r.familyParseMessageEncoding()
		r.familyGetMessageRef(ctx)
	case fn == "processRawRef":
		r.familyProcessRawRef()
		r.familyGetRef(ctx)
	case fn == "processRawRefSource":
		r.familyProcessRawRefSource()
		r.familyGetSourceRef(ctx, false)
	case fn == "processRawRefSourceOrModule":
		r.familyProcessRawRefSourceOrModule()
		r.familyGetSourceRef(ctx, true)
	case fn == "newProcessRawRefMessage":
		r.familyProcessRawRefMessage()
		r.familyGetMessageRef(ctx)
	case fn == "GetMessageRef":
		r.familyGetMessageRefStub(ctx)
		r.familyGetMessageRef(ctx)
	case fn == "GetRef":
		r.familyGetRef(ctx)
	case fn == "GetSourceRef":
		r.familyGetSourceRef(ctx, false)
	case fn == "GetSourceOrModuleRef":
		r.familyGetSourceRef(ctx, true)
	case fn == "newMessageRef" || fn == "MessageEncoding" || fn == "internalSingleRef":
		r.familyNewMessageRef()
		r.familyGetMessageRef(ctx)
		r.familyMessageFiles(ctx, t)
	case fn == "PutMessageFile" || fn == "GetMessageFile":
		r.familyMessageFiles(ctx, t)
	case fn == "assumeModuleOrDir":
		r.familyAssumeModuleOrDir(t)
	default:
		fmt.Printf("VERIF-REPLAY no harness for %q\n", fn)
		return
	}
	if label == "" {
		if i := strings.LastIndex(obligation, "["); i >= 0 {
			label = strings.TrimSuffix(obligation[i+1:], "]")
			// closure clauses are numbered: "0.unknown-compressed-format-is-an-error"
			if j := strings.Index(label, "."); j > 0 && strings.Trim(label[:j], "0123456789") == "" {
				label = label[j+1:]
			}
		}
	}
	sort.SliceStable(r.failures, func(a, b int) bool {
		ma := label != "" && strings.Contains(" "+r.failures[a].tag+" ", " "+label+" ")
		mb := label != "" && strings.Contains(" "+r.failures[b].tag+" ", " "+label+" ")
		return ma && !mb
	})
	printed := map[string]bool{}
	count := 0
	for _, f := range r.failures {
		if count >= 5 {
			break
		}
		key := f.text
		if i := strings.Index(key, ": "); i >= 0 {
			key = key[:i]
		}
		if printed[key] {
			continue
		}
		printed[key] = true
		fmt.Printf("VERIF-REPLAY FAILING-INPUT %s\n", f.text)
		count++
	}
	fmt.Printf("VERIF-REPLAY %s: checked %d inputs, %d deviations from the documented behaviour\n", fn, r.checked, len(r.failures))
}
