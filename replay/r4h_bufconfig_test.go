package bufconfig

// Replay / bounded contract run for the r4h obligations of bufconfig/file.go and the exported readers / writers built on
// it (C15, C16), injected with go test -overlay.
//
//   - lookup family (getFileForPrefix, getFileVersionForPrefix, Get*VersionForPrefix, GetBufGenYAMLFileForPrefix, name
//     tables): a recording bucket over storagemem holding every subset of {default name, old name} (valid content), with
//     and without an injected non-not-exist read error on the k-th Get. Oracle: the names are read in the documented
//     order under <prefix>/<name>, the search stops at the first existing one, an injected read error is returned (never
//     "not found", never the next name), nothing found is fs.ErrNotExist naming the DEFAULT name.
//   - put family (putFileForPrefix, Put*ForPrefix): the k-th write-side operation (Put / Write / Close) fails. Oracle: a
//     failure is reported, the file is written under the DEFAULT name with one atomic put, a success can be read back.
//   - reader / writer family (readFile, writeFile, Write*File, newDecodeError, newEncodeError): failing reader / writer.
//     Oracle: error returned, never nil, carrying the file name.

import (
	"context"
	"errors"
	"fmt"
	"io"
	"io/fs"
	"os"
	"strings"
	"testing"

	"github.com/bufbuild/buf/private/pkg/storage"
	"github.com/bufbuild/buf/private/pkg/storage/storagemem"
)

var errR4hInjected = errors.New("r4h injected failure")

type r4hBucket struct {
	storage.ReadWriteBucket
	gets       []string
	failGetAt  int // index of the Get that fails with a non-not-exist error; -1: none
	puts       []string
	atomic     []bool
	failWriteK int // index of the write-side operation (Put / Write / Close) that fails; -1: none
	n          int
	fired      bool
}

func (b *r4hBucket) Get(ctx context.Context, path string) (storage.ReadObjectCloser, error) {
	k := len(b.gets)
	b.gets = append(b.gets, path)
	if k == b.failGetAt {
		return nil, errR4hInjected
	}
	return b.ReadWriteBucket.Get(ctx, path)
}

func (b *r4hBucket) hit() error {
	k := b.n
	b.n++
	if k == b.failWriteK {
		b.fired = true
		return errR4hInjected
	}
	return nil
}

func (b *r4hBucket) Put(ctx context.Context, path string, options ...storage.PutOption) (storage.WriteObjectCloser, error) {
	b.puts = append(b.puts, path)
	b.atomic = append(b.atomic, storage.NewPutOptions(options).Atomic())
	if err := b.hit(); err != nil {
		return nil, err
	}
	w, err := b.ReadWriteBucket.Put(ctx, path, options...)
	if err != nil {
		return nil, err
	}
	return &r4hWriter{WriteObjectCloser: w, b: b}, nil
}

type r4hWriter struct {
	storage.WriteObjectCloser
	b *r4hBucket
}

func (w *r4hWriter) Write(p []byte) (int, error) {
	if err := w.b.hit(); err != nil {
		return 0, err
	}
	return w.WriteObjectCloser.Write(p)
}

func (w *r4hWriter) Close() error {
	if err := w.b.hit(); err != nil {
		_ = w.WriteObjectCloser.Close()
		return err
	}
	return w.WriteObjectCloser.Close()
}

type r4hFailWriter struct{ after int }

func (w *r4hFailWriter) Write(p []byte) (int, error) {
	if w.after <= 0 {
		return 0, errR4hInjected
	}
	w.after--
	return len(p), nil
}

type r4hFailReader struct{}

func (r4hFailReader) Read([]byte) (int, error) { return 0, errR4hInjected }

type r4hKind struct {
	name     string
	names    []string // documented lookup order
	content  map[string]string
	version  func(ctx context.Context, b storage.ReadBucket, prefix string) (FileVersion, error)
	get      func(ctx context.Context, b storage.ReadBucket, prefix string) (File, error)
	putValid func(ctx context.Context, b storage.WriteBucket, prefix string) error
}

func r4hKinds() []r4hKind {
	yamlDoc := "version: v1\n"
	return []r4hKind{
		{
			name: "buf.yaml", names: []string{"buf.yaml", "buf.mod"},
			content: map[string]string{"buf.yaml": yamlDoc, "buf.mod": yamlDoc},
			version: GetBufYAMLFileVersionForPrefix,
			get: func(ctx context.Context, b storage.ReadBucket, prefix string) (File, error) {
				return GetBufYAMLFileForPrefix(ctx, b, prefix)
			},
			putValid: func(ctx context.Context, b storage.WriteBucket, prefix string) error {
				f, err := ReadBufYAMLFile(strings.NewReader(yamlDoc), "buf.yaml")
				if err != nil {
					return fmt.Errorf("setup: %w", err)
				}
				return PutBufYAMLFileForPrefix(ctx, b, prefix, f)
			},
		},
		{
			name: "buf.work.yaml", names: []string{"buf.work.yaml", "buf.work"},
			content: map[string]string{"buf.work.yaml": "version: v1\ndirectories:\n  - a\n", "buf.work": "version: v1\ndirectories:\n  - a\n"},
			version: GetBufWorkYAMLFileVersionForPrefix,
			get: func(ctx context.Context, b storage.ReadBucket, prefix string) (File, error) {
				return GetBufWorkYAMLFileForPrefix(ctx, b, prefix)
			},
			putValid: func(ctx context.Context, b storage.WriteBucket, prefix string) error {
				f, err := ReadBufWorkYAMLFile(strings.NewReader("version: v1\ndirectories:\n  - a\n"), "buf.work.yaml")
				if err != nil {
					return fmt.Errorf("setup: %w", err)
				}
				return PutBufWorkYAMLFileForPrefix(ctx, b, prefix, f)
			},
		},
		{
			name: "buf.gen.yaml", names: []string{"buf.gen.yaml"},
			content: map[string]string{"buf.gen.yaml": "version: v1\nplugins:\n  - plugin: go\n    out: gen\n"},
			version: GetBufGenYAMLFileVersionForPrefix,
			get: func(ctx context.Context, b storage.ReadBucket, prefix string) (File, error) {
				return GetBufGenYAMLFileForPrefix(ctx, b, prefix)
			},
			putValid: func(ctx context.Context, b storage.WriteBucket, prefix string) error {
				f, err := ReadBufGenYAMLFile(strings.NewReader("version: v1\nplugins:\n  - plugin: go\n    out: gen\n"))
				if err != nil {
					return fmt.Errorf("setup: %w", err)
				}
				return PutBufGenYAMLFileForPrefix(ctx, b, prefix, f)
			},
		},
	}
}

func r4hLookup(kind r4hKind, useVersion bool) int {
	ctx := context.Background()
	found := 0
	fail := func(format string, args ...any) {
		found++
		fmt.Printf("VERIF-REPLAY FAILING-INPUT "+format+"\n", args...)
	}
	for _, prefix := range []string{".", "sub/dir"} {
		for mask := 0; mask < 1<<len(kind.names); mask++ {
			for failGetAt := -1; failGetAt < len(kind.names); failGetAt++ {
				mem := storagemem.NewReadWriteBucket()
				var present []string
				for i, n := range kind.names {
					if mask&(1<<i) != 0 {
						p := n
						if prefix != "." {
							p = prefix + "/" + n
						}
						_ = storage.PutPath(ctx, mem, p, []byte(kind.content[n]))
						present = append(present, n)
					}
				}
				b := &r4hBucket{ReadWriteBucket: mem, failGetAt: failGetAt, failWriteK: -1}
				var err error
				if useVersion {
					_, err = kind.version(ctx, b, prefix)
				} else {
					_, err = kind.get(ctx, b, prefix)
				}
				desc := fmt.Sprintf("%s lookup under %q with %v present, read #%d failing", kind.name, prefix, present, failGetAt)
				// expected read sequence
				var want []string
				outcome := "notfound"
				for i, n := range kind.names {
					p := n
					if prefix != "." {
						p = prefix + "/" + n
					}
					want = append(want, p)
					if i == failGetAt {
						outcome = "injected"
						break
					}
					if mask&(1<<i) != 0 {
						outcome = "found"
						break
					}
				}
				if strings.Join(b.gets, ",") != strings.Join(want, ",") {
					fail("%s: paths read %v, documented order/stop rule gives %v", desc, b.gets, want)
					continue
				}
				switch outcome {
				case "found":
					if err != nil {
						fail("%s: the first existing file is valid but the lookup failed: %v", desc, err)
					}
				case "injected":
					if !errors.Is(err, errR4hInjected) {
						fail("%s: the read error is not returned (got %v)", desc, err)
					}
				case "notfound":
					var pe *fs.PathError
					first := kind.names[0]
					if prefix != "." {
						first = prefix + "/" + first
					}
					if err == nil || !errors.Is(err, fs.ErrNotExist) || !errors.As(err, &pe) || pe.Path != first {
						fail("%s: nothing exists: want fs.ErrNotExist naming %q, got %v", desc, first, err)
					}
				}
			}
		}
	}
	return found
}

func r4hPut(kind r4hKind) int {
	ctx := context.Background()
	found := 0
	fail := func(format string, args ...any) {
		found++
		fmt.Printf("VERIF-REPLAY FAILING-INPUT "+format+"\n", args...)
	}
	for _, prefix := range []string{".", "sub/dir"} {
		want := kind.names[0]
		if prefix != "." {
			want = prefix + "/" + want
		}
		for k := -1; k < 8; k++ {
			mem := storagemem.NewReadWriteBucket()
			b := &r4hBucket{ReadWriteBucket: mem, failGetAt: -1, failWriteK: k}
			err := kind.putValid(ctx, b, prefix)
			if err != nil && strings.HasPrefix(err.Error(), "setup:") {
				continue
			}
			desc := fmt.Sprintf("put of %s under %q with write operation #%d failing", kind.name, prefix, k)
			if b.fired && err == nil {
				fail("%s: success reported although a write failed", desc)
			}
			if len(b.puts) != 1 || b.puts[0] != want {
				fail("%s: puts %v, want exactly [%s]", desc, b.puts, want)
				continue
			}
			if !b.atomic[0] {
				fail("%s: the put is not atomic", desc)
			}
			if err == nil {
				if _, rerr := storage.ReadPath(ctx, mem, want); rerr != nil {
					fail("%s: success reported but %s cannot be read back: %v", desc, want, rerr)
				}
			}
			// (what an atomic put leaves behind after a failed Write / Close is the bucket's obligation: storage / storageos C15)
		}
	}
	return found
}

func r4hReadWrite() int {
	found := 0
	fail := func(format string, args ...any) {
		found++
		fmt.Printf("VERIF-REPLAY FAILING-INPUT "+format+"\n", args...)
	}
	for _, name := range []string{"", "buf.yaml", "dir/buf.yaml"} {
		cause := errors.New("cause")
		for what, e := range map[string]error{"newDecodeError": newDecodeError(name, cause), "newEncodeError": newEncodeError(name, cause)} {
			var pe *fs.PathError
			wantName := name
			if wantName == "" {
				wantName = "config file"
			}
			if e == nil || !errors.As(e, &pe) || pe.Path != wantName || !errors.Is(e, cause) {
				fail("%s(%q, cause) = %v: want a *fs.PathError naming %q and wrapping the cause", what, name, e, wantName)
			}
		}
		if _, err := ReadBufYAMLFile(r4hFailReader{}, name); !errors.Is(err, errR4hInjected) {
			fail("ReadBufYAMLFile(%q) from a failing reader: error not returned (got %v)", name, err)
		}
		if _, err := ReadBufYAMLFile(strings.NewReader("version: v9\n"), name); err == nil {
			fail("ReadBufYAMLFile(%q) of an undecodable document: no error", name)
		} else {
			var pe *fs.PathError
			wantName := name
			if wantName == "" {
				wantName = "config file"
			}
			if !errors.As(err, &pe) || pe.Path != wantName {
				fail("ReadBufYAMLFile(%q) of an undecodable document: error %v does not name %q", name, err, wantName)
			}
		}
	}
	f, err := ReadBufYAMLFile(strings.NewReader("version: v1\nname: buf.build/acme/x\n"), "buf.yaml")
	if err == nil {
		for after := 0; after < 3; after++ {
			if err := WriteBufYAMLFile(&r4hFailWriter{after: after}, f); err == nil {
				if err2 := WriteBufYAMLFile(io.Discard, f); err2 == nil && after == 0 {
					fail("WriteBufYAMLFile to a writer failing at write #%d reports success", after)
				}
			}
		}
	}
	if l, err := ReadBufLockFile(context.Background(), strings.NewReader("version: v2\n"), "buf.lock"); err == nil {
		if err := WriteBufLockFile(&r4hFailWriter{}, l); err == nil {
			fail("WriteBufLockFile to a failing writer reports success")
		}
	}
	return found
}

func TestVerifReplayR4hFile(t *testing.T) {
	obl := os.Getenv("VERIF_REPLAY_OBLIGATION")
	found := 0
	for _, kind := range r4hKinds() {
		switch {
		case strings.Contains(obl, "putFileForPrefix") || strings.Contains(obl, ".Put"):
			found += r4hPut(kind)
		case strings.Contains(obl, "getFileVersionForPrefix") || strings.Contains(obl, "VersionForPrefix"):
			found += r4hLookup(kind, true)
		case strings.Contains(obl, "getFileForPrefix") || strings.Contains(obl, "table[rh_") || strings.Contains(obl, "GetBufGenYAMLFileForPrefix") || strings.Contains(obl, "newObjectData"):
			found += r4hLookup(kind, false) + r4hLookup(kind, true)
		}
	}
	if strings.Contains(obl, "readFile") || strings.Contains(obl, "writeFile") || strings.Contains(obl, "DecodeError") || strings.Contains(obl, "EncodeError") || strings.Contains(obl, ".WriteBuf") || strings.Contains(obl, "getFileForPrefix") || strings.Contains(obl, "getFileVersionForPrefix") {
		found += r4hReadWrite()
	}
	if found == 0 {
		fmt.Println("VERIF-REPLAY no failing input found in the r4h catalogue")
	}
}
