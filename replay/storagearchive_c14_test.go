package storagearchive

// Replay / model-based run for the C14 obligations of package storagearchive (injected with go test -overlay).
//
//   - round trip: for every subset of {a/x, a/y.z, a-b/c, a.b, ab, b} (contents: text, empty, 70 KiB) the bucket is
//     tarred / zipped and unpacked again with strip-component counts 0..2 and an optional path matcher; the
//     resulting bucket must be exactly the model map (strip: the first n components removed, shorter paths
//     dropped; matcher applied after stripping), byte for byte.
//   - unmapArchivePath directly on hostile and odd entry names: "" and names that leave the root are errors, "."
//     and too-short names are skipped, everything else is the normalized name minus the stripped components.
//   - isAppleExtendedAttributesFile: exactly the base names starting with "._".
//   - (ca-R4, va4*) hand-made archives: tar and zip files written entry by entry with hostile names (../evil, /abs,
//     a/../../x), odd spellings, directories, symlinks, hard links, fifos, devices, "._" files, and files around a
//     size limit are unpacked into a RECORDING write bucket that accepts any path, with strip counts 0..2, a matcher
//     and (tar) size limits 0 / 5 / 1000. Oracle, entry by entry as documented: "._" files are skipped; a hostile
//     name is an error and NOTHING is ever put under a name that is not a confined relative path; "." is skipped;
//     strip, then match; only regular files are written; an entry larger than the limit is ErrFileSizeLimit and is
//     not written (not even partially: no Put for it). The bucket must hold exactly the oracle's objects.
//   - Tar / Zip of a bucket whose objects have external paths different from their paths: the entry names are the
//     bucket paths, sorted, one regular entry per object with its bytes.
//   - the option constructors set exactly their own field of a fresh options record.

import (
	"archive/tar"
	"bytes"
	"context"
	"errors"
	"fmt"
	"io"
	"io/fs"
	"os"
	"path"
	"sort"
	"strings"
	"testing"
	"time"

	"github.com/bufbuild/buf/private/pkg/storage"
	"github.com/bufbuild/buf/private/pkg/storage/storagemem"
	"github.com/klauspost/compress/zip"
)

type va14Info struct{ name string }

func (i va14Info) Name() string       { return i.name }
func (i va14Info) Size() int64        { return 0 }
func (i va14Info) Mode() fs.FileMode  { return 0o644 }
func (i va14Info) ModTime() time.Time { return time.Time{} }
func (i va14Info) IsDir() bool        { return false }
func (i va14Info) Sys() any           { return nil }

func va14Strip(p string, n int) (string, bool) {
	parts := strings.Split(p, "/")
	if len(parts) <= n {
		return "", false
	}
	return strings.Join(parts[n:], "/"), true
}

// The same harness serves the C13 / C14 / C15 obligations of the package (registered per property).
func TestVerifReplayC13(t *testing.T) { TestVerifReplayC14(t) }
func TestVerifReplayC15(t *testing.T) { TestVerifReplayC14(t) }

func TestVerifReplayC14(t *testing.T) {
	fn := os.Getenv("VERIF_REPLAY_FUNC")
	ctx := context.Background()
	found := 0
	report := func(format string, a ...any) {
		if found < 4 {
			fmt.Printf("VERIF-REPLAY FAILING-INPUT "+format+"\n", a...)
		}
		found++
	}
	tried := 0
	switch fn {
	case "isAppleExtendedAttributesFile":
		for _, name := range []string{"._x", "._", ".x", "x", "_.x", "a._x", "", ".", "..x", "._a/b"} {
			tried++
			if got, want := isAppleExtendedAttributesFile(va14Info{name}), len(name) >= 2 && name[0] == '.' && name[1] == '_'; got != want {
				report("isAppleExtendedAttributesFile(file named %q) = %v, documented %v", name, got, want)
			}
		}
	case "UntarWithMaxFileSize", "UntarWithStripComponentCount", "UntarWithFilePathMatcher", "UnzipWithStripComponentCount", "UnzipWithFilePathMatcher":
		tried += va4Options(report)
	case "copyZipFile":
		tried += va4Crafted(ctx, report, "zip")
	case "unmapArchivePath", "Untar", "Unzip", "Tar", "Zip", "newUntarOptions", "newUnzipOptions":
		tried += va4Options(report)
		switch fn {
		case "Untar":
			tried += va4Crafted(ctx, report, "tar")
		case "Unzip":
			tried += va4Crafted(ctx, report, "zip")
		case "Tar", "Zip":
			tried += va4Pack(ctx, report, strings.ToLower(fn))
		default:
			tried += va4Crafted(ctx, report, "tar") + va4Crafted(ctx, report, "zip")
		}
		// direct
		matchers := []struct {
			desc string
			f    func(string) bool
		}{{"nil", nil}, {"ext .z or base x", func(p string) bool { return path.Ext(p) == ".z" || path.Base(p) == "x" }}}
		for _, name := range []string{"", ".", "./", "a", "a/x", "./a/x", "a//x", "a/q/../x", "a/x/", "a/b/c/d", "/a", "/", "..", "../a", "a/../..", "a/../../b", "a/./b", "._a", "a\\b"} {
			for n := 0; n <= 3; n++ {
				for _, m := range matchers {
					tried++
					got, ok, err := unmapArchivePath(name, m.f, uint32(n))
					clean := path.Clean(name)
					hostile := name == "" || strings.HasPrefix(name, "/") || clean == ".." || strings.HasPrefix(clean, "../")
					wantPath, wantOK := "", false
					if !hostile && clean != "." {
						if s, ok := va14Strip(clean, n); ok && (m.f == nil || m.f(s)) {
							wantPath, wantOK = s, true
						}
					}
					if hostile != (err != nil) || (err == nil && (ok != wantOK || got != wantPath)) {
						report("unmapArchivePath(entry name %q, matcher %s, strip %d) = %q, %v, %v; documented %q, %v, error=%v", name, m.desc, n, got, ok, err, wantPath, wantOK, hostile)
					}
				}
			}
		}
		// round trips
		paths := []string{"a/x", "a/y.z", "a-b/c", "a.b", "ab", "b"}
		big := strings.Repeat("0123456789abcdef", 70*64)
		for mask := 0; mask < 1<<len(paths); mask++ {
			model := map[string]string{}
			for i, p := range paths {
				if mask&(1<<i) != 0 {
					switch i % 3 {
					case 0:
						model[p] = "text of " + p
					case 1:
						model[p] = ""
					default:
						model[p] = big
					}
				}
			}
			src := storagemem.NewReadWriteBucket()
			var names []string
			for p, d := range model {
				if err := storage.PutPath(ctx, src, p, []byte(d)); err != nil {
					t.Fatal(err)
				}
				names = append(names, p)
			}
			sort.Strings(names)
			for _, kind := range []string{"tar", "zip"} {
				var buf bytes.Buffer
				var err error
				if kind == "tar" {
					err = Tar(ctx, src, &buf)
				} else {
					err = Zip(ctx, src, &buf, mask%2 == 0)
				}
				if err != nil {
					report("%s of a bucket with %v fails: %v", kind, names, err)
					continue
				}
				for n := 0; n <= 2; n++ {
					for _, m := range matchers {
						tried++
						dst := storagemem.NewReadWriteBucket()
						if kind == "tar" {
							opts := []UntarOption{UntarWithStripComponentCount(uint32(n))}
							if m.f != nil {
								opts = append(opts, UntarWithFilePathMatcher(m.f))
							}
							err = Untar(ctx, bytes.NewReader(buf.Bytes()), dst, opts...)
						} else {
							opts := []UnzipOption{UnzipWithStripComponentCount(uint32(n))}
							if m.f != nil {
								opts = append(opts, UnzipWithFilePathMatcher(m.f))
							}
							err = Unzip(ctx, bytes.NewReader(buf.Bytes()), int64(buf.Len()), dst, opts...)
						}
						input := fmt.Sprintf("%s round trip of a bucket with %v, unpacked with strip %d and matcher %s", kind, names, n, m.desc)
						if err != nil {
							report("%s fails: %v", input, err)
							continue
						}
						want := map[string]string{}
						for p, d := range model {
							if s, ok := va14Strip(p, n); ok && (m.f == nil || m.f(s)) {
								want[s] = d
							}
						}
						got := map[string]string{}
						_ = storage.WalkReadObjects(ctx, dst, "", func(o storage.ReadObject) error {
							var b bytes.Buffer
							_, _ = b.ReadFrom(o)
							got[o.Path()] = b.String()
							return nil
						})
						var diffs []string
						for p, d := range want {
							if g, ok := got[p]; !ok {
								diffs = append(diffs, "missing "+p)
							} else if g != d {
								diffs = append(diffs, fmt.Sprintf("%s has %d bytes instead of %d", p, len(g), len(d)))
							}
						}
						for p := range got {
							if _, ok := want[p]; !ok {
								diffs = append(diffs, "extra "+p)
							}
						}
						sort.Strings(diffs)
						if len(diffs) > 0 {
							report("%s: %s", input, strings.Join(diffs, ", "))
						}
					}
				}
			}
		}
	default:
		fmt.Printf("VERIF-REPLAY no harness for %q\n", fn)
		return
	}
	if found == 0 {
		fmt.Printf("VERIF-REPLAY no failing input found for %s (%d inputs)\n", fn, tried)
	}
}

// ---------------------------------------------------------------------------------------------------------------
// ca-R4: hand-made archives, recording bucket, packers, options

type va4Entry struct {
	name string
	typ  byte // f regular, d directory, l symlink, h hard link, p fifo, c character device
	data string
}

func (e va4Entry) String() string {
	kind := map[byte]string{'f': "file", 'd': "dir", 'l': "symlink", 'h': "hardlink", 'p': "fifo", 'c': "chardev"}[e.typ]
	if e.typ == 'f' {
		return fmt.Sprintf("%s %q (%d bytes)", kind, e.name, len(e.data))
	}
	return fmt.Sprintf("%s %q", kind, e.name)
}

// va4Rec is a write bucket that accepts ANY path and records what was put.
type va4Rec struct {
	puts    []string
	objects map[string]string
}

type va4RecW struct {
	b    *va4Rec
	path string
	buf  bytes.Buffer
}

func (w *va4RecW) Write(p []byte) (int, error)  { return w.buf.Write(p) }
func (w *va4RecW) Close() error                 { w.b.objects[w.path] = w.buf.String(); return nil }
func (w *va4RecW) SetExternalPath(string) error { return nil }
func (w *va4RecW) SetLocalPath(string) error    { return nil }

func (b *va4Rec) Put(_ context.Context, path string, _ ...storage.PutOption) (storage.WriteObjectCloser, error) {
	b.puts = append(b.puts, path)
	return &va4RecW{b: b, path: path}, nil
}
func (b *va4Rec) Delete(context.Context, string) error    { return nil }
func (b *va4Rec) DeleteAll(context.Context, string) error { return nil }
func (b *va4Rec) SetExternalAndLocalPathsSupported() bool { return false }

var va4Noted bool

func va4Hostile(name string) bool {
	clean := path.Clean(name)
	return name == "" || strings.HasPrefix(name, "/") || clean == ".." || strings.HasPrefix(clean, "../")
}

func va4MakeTar(entries []va4Entry) ([]byte, error) {
	var buf bytes.Buffer
	w := tar.NewWriter(&buf)
	for _, e := range entries {
		h := &tar.Header{Name: e.name, Mode: 0o644}
		switch e.typ {
		case 'f':
			h.Typeflag, h.Size = tar.TypeReg, int64(len(e.data))
		case 'd':
			h.Typeflag, h.Mode = tar.TypeDir, 0o755
		case 'l':
			h.Typeflag, h.Linkname = tar.TypeSymlink, "/etc/passwd"
		case 'h':
			h.Typeflag, h.Linkname = tar.TypeLink, "a/x"
		case 'p':
			h.Typeflag = tar.TypeFifo
		case 'c':
			h.Typeflag = tar.TypeChar
		}
		if err := w.WriteHeader(h); err != nil {
			return nil, err
		}
		if e.typ == 'f' {
			if _, err := w.Write([]byte(e.data)); err != nil {
				return nil, err
			}
		}
	}
	if err := w.Close(); err != nil {
		return nil, err
	}
	return buf.Bytes(), nil
}

func va4MakeZip(entries []va4Entry) ([]byte, error) {
	var buf bytes.Buffer
	w := zip.NewWriter(&buf)
	for _, e := range entries {
		h := &zip.FileHeader{Name: e.name, Method: zip.Deflate}
		switch e.typ {
		case 'f', 'h':
			h.SetMode(0o644)
		case 'd':
			h.SetMode(fs.ModeDir | 0o755)
		case 'l':
			h.SetMode(fs.ModeSymlink | 0o777)
		case 'p':
			h.SetMode(fs.ModeNamedPipe | 0o644)
		case 'c':
			h.SetMode(fs.ModeDevice | fs.ModeCharDevice | 0o644)
		}
		fw, err := w.CreateHeader(h)
		if err != nil {
			return nil, err
		}
		data := e.data
		if e.typ == 'l' {
			data = "/etc/passwd"
		}
		if e.typ != 'd' {
			if _, err := fw.Write([]byte(data)); err != nil {
				return nil, err
			}
		}
	}
	if err := w.Close(); err != nil {
		return nil, err
	}
	return buf.Bytes(), nil
}

func va4Crafted(ctx context.Context, report func(string, ...any), kind string) int {
	tried := 0
	big := strings.Repeat("0123456789", 200)
	lists := [][]va4Entry{
		{{"a/x", 'f', "ax"}, {"../evil", 'f', "E"}, {"b", 'f', "b-data"}},
		{{"/abs/x", 'f', "E"}},
		{{"a/b/../../../x.z", 'f', "E"}, {"b", 'f', "b-data"}},
		{{"a/x", 'f', "ax"}, {"a/y.z", 'f', ""}, {"b", 'f', "b-data"}, {"c/d/e.z", 'f', "cde"}},
		{{"a/q/../x", 'f', "spelled"}, {"./b", 'f', "dotb"}, {"a//c.z", 'f', "cc"}, {"a\\b", 'f', "bs"}},
		{{"d/", 'd', ""}, {"d/f", 'f', "df"}, {"d/ln", 'l', ""}, {"d/hl", 'h', "HL"}, {"d/fifo", 'p', ""}, {"d/dev", 'c', ""}, {"d/ln.z", 'l', ""}, {"r", 'f', "r"}},
		{{"._apple", 'f', "A"}, {"a/._b", 'f', "B"}, {"a/ok", 'f', "ok"}},
		{{"s/small", 'f', "12345"}, {"s/six", 'f', "123456"}, {"s/after", 'f', "x"}},
		{{"s/small", 'f', "12345"}, {"s/big.z", 'f', big}, {"s/after", 'f', "x"}},
		{{".", 'd', ""}, {"./", 'd', ""}, {"a/x", 'f', "ax"}},
	}
	matchers := []struct {
		desc string
		f    func(string) bool
	}{{"nil", nil}, {"ext .z or base x", func(p string) bool { return path.Ext(p) == ".z" || path.Base(p) == "x" }}}
	limits := []int64{0, 5, 1000}
	if kind == "zip" {
		limits = []int64{0}
	}
	for _, entries := range lists {
		var archive []byte
		var err error
		if kind == "tar" {
			archive, err = va4MakeTar(entries)
		} else {
			archive, err = va4MakeZip(entries)
		}
		if err != nil {
			fmt.Printf("VERIF-REPLAY cannot build the %s archive %v: %v\n", kind, entries, err)
			continue
		}
		for strip := 0; strip <= 2; strip++ {
			for _, m := range matchers {
				for _, limit := range limits {
					tried++
					// the documented behaviour, entry by entry
					want := map[string]string{}
					wantErr := ""
					for _, e := range entries {
						if strings.HasPrefix(path.Base(e.name), "._") {
							continue
						}
						if va4Hostile(e.name) {
							wantErr = "hostile name " + e.name
							break
						}
						clean := path.Clean(e.name)
						if clean == "." {
							continue
						}
						stripped, ok := va14Strip(clean, strip)
						if !ok || (m.f != nil && !m.f(stripped)) {
							continue
						}
						if e.typ == 'h' && kind == "tar" {
							// not asserted: archive/tar gives a hard-link entry no file-type bits, so FileInfo().Mode().IsRegular()
							// holds and the entry is unpacked as an empty object (noted once, not reported as a failing input)
							if !va4Noted {
								va4Noted = true
								fmt.Printf("VERIF-REPLAY note: a tar hard-link entry (%q -> a/x) counts as a regular file for Untar and is unpacked as an empty object\n", e.name)
							}
							want[stripped] = ""
							continue
						}
						if e.typ != 'f' && !(kind == "zip" && e.typ == 'h') {
							continue
						}
						if limit != 0 && int64(len(e.data)) > limit {
							wantErr = "size limit at " + e.name
							break
						}
						want[stripped] = e.data
					}
					rec := &va4Rec{objects: map[string]string{}}
					input := ""
					if kind == "tar" {
						opts := []UntarOption{UntarWithStripComponentCount(uint32(strip)), UntarWithMaxFileSize(limit)}
						if m.f != nil {
							opts = append(opts, UntarWithFilePathMatcher(m.f))
						}
						err = Untar(ctx, bytes.NewReader(archive), rec, opts...)
						input = fmt.Sprintf("Untar(tar with entries %v, strip %d, matcher %s, max file size %d) into a bucket that records every Put", entries, strip, m.desc, limit)
					} else {
						opts := []UnzipOption{UnzipWithStripComponentCount(uint32(strip))}
						if m.f != nil {
							opts = append(opts, UnzipWithFilePathMatcher(m.f))
						}
						err = Unzip(ctx, bytes.NewReader(archive), int64(len(archive)), rec, opts...)
						input = fmt.Sprintf("Unzip(zip with entries %v, strip %d, matcher %s) into a bucket that records every Put", entries, strip, m.desc)
					}
					bad := ""
					for _, p := range rec.puts {
						if va4Hostile(p) || p == "." || path.Clean(p) != p {
							bad = p
						}
					}
					switch {
					case bad != "":
						report("%s: issues Put(%q) (all puts: %q, returned %v); documented: a name that is not a confined relative path never reaches the bucket", input, bad, rec.puts, err)
						continue
					case (wantErr != "") != (err != nil):
						report("%s returns %v; documented: %s", input, err, map[bool]string{true: "an error (" + wantErr + ")", false: "success"}[wantErr != ""])
						continue
					case strings.HasPrefix(wantErr, "size limit") && !errors.Is(err, ErrFileSizeLimit):
						report("%s returns %v; documented: ErrFileSizeLimit (%s)", input, err, wantErr)
						continue
					}
					var diffs []string
					for p, d := range rec.objects {
						if w, ok := want[p]; !ok {
							diffs = append(diffs, fmt.Sprintf("extra %s (%d bytes)", p, len(d)))
						} else if w != d {
							diffs = append(diffs, fmt.Sprintf("%s has %d bytes instead of %d", p, len(d), len(w)))
						}
					}
					for _, p := range rec.puts {
						if _, ok := want[p]; !ok {
							diffs = append(diffs, "Put issued for "+p)
						}
					}
					if err == nil || kind == "tar" { // (a zip reader may refuse the whole archive up front)
						for p := range want {
							if _, ok := rec.objects[p]; !ok {
								diffs = append(diffs, "missing "+p)
							}
						}
					}
					sort.Strings(diffs)
					if len(diffs) > 0 {
						report("%s (returned %v): the bucket differs from the documented result: %s", input, err, strings.Join(diffs, ", "))
					}
				}
			}
		}
	}
	// degenerate zip sizes
	if kind == "zip" {
		tried += 2
		rec := &va4Rec{objects: map[string]string{}}
		if err := Unzip(ctx, bytes.NewReader(nil), 0, rec); err != nil || len(rec.puts) != 0 {
			report("Unzip(empty reader, size 0) returns %v with puts %q; documented: nothing to do", err, rec.puts)
		}
		if err := Unzip(ctx, bytes.NewReader(nil), -1, rec); err == nil {
			report("Unzip(size -1) succeeds; documented: an error (unknown size)")
		}
	}
	return tried
}

// va4Pack: Tar / Zip name every entry by the bucket path (never the external path), sorted, with the object's bytes.
func va4Pack(ctx context.Context, report func(string, ...any), kind string) int {
	tried := 0
	paths := []string{"a/x", "a/y.z", "b", "c/d/e"}
	for mask := 0; mask < 1<<len(paths); mask++ {
		for _, compressed := range []bool{false, true} {
			if kind == "tar" && compressed {
				continue
			}
			tried++
			src := storagemem.NewReadWriteBucket()
			want := map[string]string{}
			var names []string
			for i, p := range paths {
				if mask&(1<<i) == 0 {
					continue
				}
				data := strings.Repeat("data of "+p+"\n", i*40)
				w, err := src.Put(ctx, p)
				if err != nil {
					return tried
				}
				_ = w.SetExternalPath("/external/root/" + p)
				_, _ = w.Write([]byte(data))
				_ = w.Close()
				want[p] = data
				names = append(names, p)
			}
			var buf bytes.Buffer
			var err error
			input := ""
			got := map[string]string{}
			var order []string
			if kind == "tar" {
				err = Tar(ctx, src, &buf)
				input = fmt.Sprintf("Tar(bucket with %v, each with external path /external/root/<path>)", names)
				if err == nil {
					r := tar.NewReader(bytes.NewReader(buf.Bytes()))
					for {
						h, rerr := r.Next()
						if rerr != nil {
							break
						}
						data, _ := io.ReadAll(r)
						if h.Typeflag != tar.TypeReg {
							report("%s: entry %q has type %q; documented: regular files only", input, h.Name, h.Typeflag)
						}
						got[h.Name] = string(data)
						order = append(order, h.Name)
					}
				}
			} else {
				err = Zip(ctx, src, &buf, compressed)
				input = fmt.Sprintf("Zip(bucket with %v, each with external path /external/root/<path>, compressed=%v)", names, compressed)
				if err == nil {
					r, rerr := zip.NewReader(bytes.NewReader(buf.Bytes()), int64(buf.Len()))
					if rerr != nil {
						report("%s: the result is not a readable zip: %v", input, rerr)
						continue
					}
					for _, f := range r.File {
						rc, oerr := f.Open()
						if oerr != nil {
							continue
						}
						data, _ := io.ReadAll(rc)
						_ = rc.Close()
						if wantMethod := map[bool]uint16{false: zip.Store, true: zip.Deflate}[compressed]; f.Method != wantMethod {
							report("%s: entry %q uses method %d; documented %d", input, f.Name, f.Method, wantMethod)
						}
						got[f.Name] = string(data)
						order = append(order, f.Name)
					}
				}
			}
			if err != nil {
				report("%s fails: %v", input, err)
				continue
			}
			var diffs []string
			for p, d := range want {
				if g, ok := got[p]; !ok {
					diffs = append(diffs, "no entry named "+p)
				} else if g != d {
					diffs = append(diffs, fmt.Sprintf("entry %s has %d bytes instead of %d", p, len(g), len(d)))
				}
			}
			for p := range got {
				if _, ok := want[p]; !ok {
					diffs = append(diffs, "entry named "+p)
				}
			}
			sort.Strings(diffs)
			if len(diffs) > 0 {
				report("%s: the entries %q are not the bucket's paths: %s", input, order, strings.Join(diffs, ", "))
			} else if !sort.StringsAreSorted(order) || len(order) != len(want) {
				report("%s: entries %q; documented: one per object, in path order", input, order)
			}
		}
	}
	return tried
}

func va4Options(report func(string, ...any)) int {
	tried := 0
	matcher := func(p string) bool { return p == "only" }
	for _, n := range []int64{0, 1, 7, 1 << 20} {
		tried += 3
		o := newUntarOptions()
		UntarWithMaxFileSize(n)(o)
		if o.maxFileSize != n || o.stripComponentCount != 0 || o.filePathMatcher != nil {
			report("UntarWithMaxFileSize(%d) applied to fresh options gives max size %d, strip %d, matcher set=%v; documented: only the size limit is set", n, o.maxFileSize, o.stripComponentCount, o.filePathMatcher != nil)
		}
		o = newUntarOptions()
		UntarWithStripComponentCount(uint32(n))(o)
		if o.maxFileSize != 0 || o.stripComponentCount != uint32(n) || o.filePathMatcher != nil {
			report("UntarWithStripComponentCount(%d) applied to fresh options gives max size %d, strip %d, matcher set=%v; documented: only the strip count is set", n, o.maxFileSize, o.stripComponentCount, o.filePathMatcher != nil)
		}
		z := newUnzipOptions()
		UnzipWithStripComponentCount(uint32(n))(z)
		if z.stripComponentCount != uint32(n) || z.filePathMatcher != nil {
			report("UnzipWithStripComponentCount(%d) applied to fresh options gives strip %d, matcher set=%v", n, z.stripComponentCount, z.filePathMatcher != nil)
		}
	}
	tried += 3
	o := newUntarOptions()
	if o == nil || o.maxFileSize != 0 || o.stripComponentCount != 0 || o.filePathMatcher != nil {
		report("newUntarOptions() is not the zero record")
	}
	UntarWithFilePathMatcher(matcher)(o)
	if o.maxFileSize != 0 || o.stripComponentCount != 0 || o.filePathMatcher == nil || !o.filePathMatcher("only") || o.filePathMatcher("other") {
		report("UntarWithFilePathMatcher(p == \"only\") applied to fresh options: max size %d, strip %d, matcher installed=%v", o.maxFileSize, o.stripComponentCount, o.filePathMatcher != nil)
	}
	z := newUnzipOptions()
	if z == nil || z.stripComponentCount != 0 || z.filePathMatcher != nil {
		report("newUnzipOptions() is not the zero record")
	}
	UnzipWithFilePathMatcher(matcher)(z)
	if z.stripComponentCount != 0 || z.filePathMatcher == nil || !z.filePathMatcher("only") || z.filePathMatcher("other") {
		report("UnzipWithFilePathMatcher(p == \"only\") applied to fresh options: strip %d, matcher installed=%v", z.stripComponentCount, z.filePathMatcher != nil)
	}
	return tried
}
