package storagearchive

// Replay / model-based run for the C14 obligations of package storagearchive (injected with go test -overlay).
//
//   - round trip: for every subset of {a/x, a/y.z, a-b/c, a.b, ab, b} (contents: text, empty, 70 KiB) the bucket is
//     tarred / zipped and unpacked again with strip-component counts 0..2 and an optional path matcher; the
//     resulting bucket must be exactly the model map (strip: the first n components removed, shorter paths
//     dropped; matcher applied after stripping), byte for byte.
//   - unmapArchivePath directly on hostile and odd entry names: "" and names that leave the root are errors, "."
//     and too-short names are skipped, everything else is the normalized name minus the stripped components.
//   - isAppleExtendedAttributesFile: exactly the base names starting with "._".

import (
	"bytes"
	"context"
	"fmt"
	"io/fs"
	"os"
	"path"
	"sort"
	"strings"
	"testing"
	"time"

	"github.com/bufbuild/buf/private/pkg/storage"
	"github.com/bufbuild/buf/private/pkg/storage/storagemem"
)

type va14Info struct{ name string }

func (i va14Info) Name() string       { return i.name }
func (i va14Info) Size() int64        { return 0 }
func (i va14Info) Mode() fs.FileMode  { return 0o644 }
func (i va14Info) ModTime() time.Time { return time.Time{} }
func (i va14Info) IsDir() bool        { return false }
func (i va14Info) Sys() any           { return nil }

func va14Strip(p string, n int) (string, bool) {
	parts := strings.Split(p, "/")
	if len(parts) <= n {
		return "", false
	}
	return strings.Join(parts[n:], "/"), true
}

func TestVerifReplayC14(t *testing.T) {
	fn := os.Getenv("VERIF_REPLAY_FUNC")
	ctx := context.Background()
	found := 0
	report := func(format string, a ...any) {
		if found < 4 {
			fmt.Printf("VERIF-REPLAY FAILING-INPUT "+format+"\n", a...)
		}
		found++
	}
	tried := 0
	switch fn {
	case "isAppleExtendedAttributesFile":
		for _, name := range []string{"._x", "._", ".x", "x", "_.x", "a._x", "", ".", "..x", "._a/b"} {
			tried++
			if got, want := isAppleExtendedAttributesFile(va14Info{name}), len(name) >= 2 && name[0] == '.' && name[1] == '_'; got != want {
				report("isAppleExtendedAttributesFile(file named %q) = %v, documented %v", name, got, want)
			}
		}
	case "unmapArchivePath", "Untar", "Unzip", "Tar", "Zip", "newUntarOptions", "newUnzipOptions":
		// direct
		matchers := []struct {
			desc string
			f    func(string) bool
		}{{"nil", nil}, {"ext .z or base x", func(p string) bool { return path.Ext(p) == ".z" || path.Base(p) == "x" }}}
		for _, name := range []string{"", ".", "./", "a", "a/x", "./a/x", "a//x", "a/q/../x", "a/x/", "a/b/c/d", "/a", "/", "..", "../a", "a/../..", "a/../../b", "a/./b", "._a", "a\\b"} {
			for n := 0; n <= 3; n++ {
				for _, m := range matchers {
					tried++
					got, ok, err := unmapArchivePath(name, m.f, uint32(n))
					clean := path.Clean(name)
					hostile := name == "" || strings.HasPrefix(name, "/") || clean == ".." || strings.HasPrefix(clean, "../")
					wantPath, wantOK := "", false
					if !hostile && clean != "." {
						if s, ok := va14Strip(clean, n); ok && (m.f == nil || m.f(s)) {
							wantPath, wantOK = s, true
						}
					}
					if hostile != (err != nil) || (err == nil && (ok != wantOK || got != wantPath)) {
						report("unmapArchivePath(entry name %q, matcher %s, strip %d) = %q, %v, %v; documented %q, %v, error=%v", name, m.desc, n, got, ok, err, wantPath, wantOK, hostile)
					}
				}
			}
		}
		// round trips
		paths := []string{"a/x", "a/y.z", "a-b/c", "a.b", "ab", "b"}
		big := strings.Repeat("0123456789abcdef", 70*64)
		for mask := 0; mask < 1<<len(paths); mask++ {
			model := map[string]string{}
			for i, p := range paths {
				if mask&(1<<i) != 0 {
					switch i % 3 {
					case 0:
						model[p] = "text of " + p
					case 1:
						model[p] = ""
					default:
						model[p] = big
					}
				}
			}
			src := storagemem.NewReadWriteBucket()
			var names []string
			for p, d := range model {
				if err := storage.PutPath(ctx, src, p, []byte(d)); err != nil {
					t.Fatal(err)
				}
				names = append(names, p)
			}
			sort.Strings(names)
			for _, kind := range []string{"tar", "zip"} {
				var buf bytes.Buffer
				var err error
				if kind == "tar" {
					err = Tar(ctx, src, &buf)
				} else {
					err = Zip(ctx, src, &buf, mask%2 == 0)
				}
				if err != nil {
					report("%s of a bucket with %v fails: %v", kind, names, err)
					continue
				}
				for n := 0; n <= 2; n++ {
					for _, m := range matchers {
						tried++
						dst := storagemem.NewReadWriteBucket()
						if kind == "tar" {
							opts := []UntarOption{UntarWithStripComponentCount(uint32(n))}
							if m.f != nil {
								opts = append(opts, UntarWithFilePathMatcher(m.f))
							}
							err = Untar(ctx, bytes.NewReader(buf.Bytes()), dst, opts...)
						} else {
							opts := []UnzipOption{UnzipWithStripComponentCount(uint32(n))}
							if m.f != nil {
								opts = append(opts, UnzipWithFilePathMatcher(m.f))
							}
							err = Unzip(ctx, bytes.NewReader(buf.Bytes()), int64(buf.Len()), dst, opts...)
						}
						input := fmt.Sprintf("%s round trip of a bucket with %v, unpacked with strip %d and matcher %s", kind, names, n, m.desc)
						if err != nil {
							report("%s fails: %v", input, err)
							continue
						}
						want := map[string]string{}
						for p, d := range model {
							if s, ok := va14Strip(p, n); ok && (m.f == nil || m.f(s)) {
								want[s] = d
							}
						}
						got := map[string]string{}
						_ = storage.WalkReadObjects(ctx, dst, "", func(o storage.ReadObject) error {
							var b bytes.Buffer
							_, _ = b.ReadFrom(o)
							got[o.Path()] = b.String()
							return nil
						})
						var diffs []string
						for p, d := range want {
							if g, ok := got[p]; !ok {
								diffs = append(diffs, "missing "+p)
							} else if g != d {
								diffs = append(diffs, fmt.Sprintf("%s has %d bytes instead of %d", p, len(g), len(d)))
							}
						}
						for p := range got {
							if _, ok := want[p]; !ok {
								diffs = append(diffs, "extra "+p)
							}
						}
						sort.Strings(diffs)
						if len(diffs) > 0 {
							report("%s: %s", input, strings.Join(diffs, ", "))
						}
					}
				}
			}
		}
	default:
		fmt.Printf("VERIF-REPLAY no harness for %q\n", fn)
		return
	}
	if found == 0 {
		fmt.Printf("VERIF-REPLAY no failing input found for %s (%d inputs)\n", fn, tried)
	}
}
