package storagemem

// Replay / model-based run for the C14 obligations of package storagemem (injected with go test -overlay).
//
// The REAL in-memory bucket is driven through every sequence of up to three operations
// (put with content / empty content / atomic / with an external path, put through an equivalent spelling,
// delete, delete-all on a directory, a file, a sibling-name prefix, "" and ".") over the prefix-free path set
// {a/x, a/y.z, a-b/c, a.b, ab, b}; the oracle is a map[string]string kept beside it:
//
//   - every operation returns an error exactly when the documentation says so (delete of an absent path is
//     not-exist, invalid paths are rejected, everything else succeeds),
//   - afterwards Get and Stat answer every probe spelling with exactly the model's object (bytes, path,
//     external path) or a not-exist error, and Walk on every probe prefix visits exactly the model's objects
//     path-wise under the prefix, each once, in sorted order.
//
// Also: an object becomes visible only on Close, a second Close fails, NewReadBucket normalizes its keys and
// rejects invalid and colliding ones.

import (
	"context"
	"errors"
	"fmt"
	"io"
	"os"
	"path"
	"sort"
	"strings"
	"testing"

	"github.com/bufbuild/buf/private/pkg/storage"
)

func vm14Norm(p string) (string, bool) {
	if strings.HasPrefix(p, "/") {
		return "", false
	}
	c := path.Clean(p)
	if c == ".." || strings.HasPrefix(c, "../") {
		return "", false
	}
	return c, true
}

func vm14Under(prefix, p string) bool {
	return prefix == "." || p == prefix || strings.HasPrefix(p, prefix+"/")
}

type vm14Obj struct{ data, ext string }

type vm14Op struct {
	kind string // put, delete, deleteAll
	arg  string
	data string
	ext  string
	atom bool
}

func (o vm14Op) String() string {
	switch o.kind {
	case "put":
		s := fmt.Sprintf("Put(%q, %q", o.arg, o.data)
		if o.atom {
			s += ", atomic"
		}
		if o.ext != "" {
			s += ", external " + o.ext
		}
		return s + ")"
	case "delete":
		return fmt.Sprintf("Delete(%q)", o.arg)
	}
	return fmt.Sprintf("DeleteAll(%q)", o.arg)
}

var vm14Probes = []string{
	"", ".", "a", "a/", "a/x", "./a/x", "a//x", "a/q/../x", "a/x/", "a/y.z", "a/y", "a-b", "a-b/c", "a.b", "ab", "b", "b/x", "zz", "a/x/z", "/a", "..", "../a", "a/../..",
}

type vm14 struct{ found int }

func (v *vm14) report(format string, a ...any) {
	if v.found < 4 {
		fmt.Printf("VERIF-REPLAY FAILING-INPUT "+format+"\n", a...)
	}
	v.found++
}

func vm14Compare(ctx context.Context, v *vm14, desc string, b storage.ReadBucket, model map[string]vm14Obj) {
	for _, q := range vm14Probes {
		norm, valid := vm14Norm(q)
		info, statErr := b.Stat(ctx, q)
		obj, getErr := b.Get(ctx, q)
		data := ""
		if getErr == nil {
			d, _ := io.ReadAll(obj)
			data = string(d)
			_ = obj.Close()
		}
		want, in := model[norm]
		switch {
		case !valid || norm == ".":
			if statErr == nil || getErr == nil {
				v.report("%s: Stat/Get(%q) succeed although %q does not name an object (stat err %v, get err %v)", desc, q, q, statErr, getErr)
			}
		case !in:
			if statErr == nil || getErr == nil {
				v.report("%s: Stat/Get(%q) find an object (data %q) but the model has none at %q", desc, q, data, norm)
			} else if !storage.IsNotExist(statErr) || !storage.IsNotExist(getErr) {
				v.report("%s: Stat/Get(%q): the path is absent, the errors must satisfy IsNotExist (stat: %v, get: %v)", desc, q, statErr, getErr)
			}
		default:
			if statErr != nil || getErr != nil {
				v.report("%s: Stat/Get(%q) fail although the model has %q = %q (stat: %v, get: %v)", desc, q, norm, want.data, statErr, getErr)
			} else if info.Path() != norm || obj.Path() != norm || data != want.data || info.ExternalPath() != want.ext || obj.ExternalPath() != want.ext {
				v.report("%s: Stat/Get(%q) = path %q/%q external %q/%q data %q; the model has path %q external %q data %q", desc, q, info.Path(), obj.Path(), info.ExternalPath(), obj.ExternalPath(), data, norm, want.ext, want.data)
			}
		}
		var got []string
		walkErr := b.Walk(ctx, q, func(i storage.ObjectInfo) error {
			got = append(got, i.Path())
			return nil
		})
		if !valid {
			if walkErr == nil {
				v.report("%s: Walk(%q) succeeds on a prefix that is not a valid relative path (visited %v)", desc, q, got)
			}
			continue
		}
		var wantPaths []string
		for p := range model {
			if vm14Under(norm, p) {
				wantPaths = append(wantPaths, p)
			}
		}
		sort.Strings(wantPaths)
		if walkErr != nil {
			v.report("%s: Walk(%q) fails: %v", desc, q, walkErr)
		} else if fmt.Sprint(got) != fmt.Sprint(wantPaths) {
			v.report("%s: Walk(%q) visits %v; the model's objects path-wise under %q are %v (sorted, each once)", desc, q, got, norm, wantPaths)
		}
	}
}

func vm14Sequences(ctx context.Context, v *vm14) int {
	var ops []vm14Op
	for _, p := range []string{"a/x", "a/y.z", "a-b/c", "a.b", "ab", "b"} {
		ops = append(ops, vm14Op{kind: "put", arg: p, data: "data of " + p}, vm14Op{kind: "delete", arg: p})
	}
	ops = append(ops,
		vm14Op{kind: "put", arg: "a/x", data: ""},
		vm14Op{kind: "put", arg: "a/x", data: "second", atom: true},
		vm14Op{kind: "put", arg: "./a//x", data: "spelled"},
		vm14Op{kind: "put", arg: "b", data: "with external", ext: "ext/b"},
		vm14Op{kind: "put", arg: "../x", data: "invalid"},
		vm14Op{kind: "put", arg: ".", data: "root"},
		vm14Op{kind: "delete", arg: "a"},
		vm14Op{kind: "delete", arg: "a/x/"},
		vm14Op{kind: "delete", arg: "zz"},
	)
	for _, p := range []string{"", ".", "a", "a/", "a/x", "ab", "a-b", "a.", "zz", "b/x"} {
		ops = append(ops, vm14Op{kind: "deleteAll", arg: p})
	}
	var seqs [][]vm14Op
	for _, a := range ops {
		seqs = append(seqs, []vm14Op{a})
		for _, b := range ops {
			seqs = append(seqs, []vm14Op{a, b})
			if a.kind != "put" || a.ext != "" || a.atom {
				continue // length 3 only after a plain put (keeps the run short; deletes on an empty bucket add nothing)
			}
			for _, c := range ops {
				seqs = append(seqs, []vm14Op{a, b, c})
			}
		}
	}
	sort.SliceStable(seqs, func(i, j int) bool { return len(seqs[i]) < len(seqs[j]) }) // shortest failing history first
	for _, seq := range seqs {
		b := NewReadWriteBucket()
		model := map[string]vm14Obj{}
		var trace []string
		ok := true
		for _, o := range seq {
			trace = append(trace, o.String())
			norm, valid := vm14Norm(o.arg)
			var err error
			wantErr, wantNotExist := false, false
			switch o.kind {
			case "put":
				wantErr = !valid || norm == "."
				var opts []storage.PutOption
				if o.atom {
					opts = append(opts, storage.PutWithAtomic())
				}
				var w storage.WriteObjectCloser
				if w, err = b.Put(ctx, o.arg, opts...); err == nil {
					if o.ext != "" {
						_ = w.SetExternalPath(o.ext)
					}
					_, _ = w.Write([]byte(o.data))
					err = w.Close()
				}
				if !wantErr {
					ext := o.ext
					if ext == "" {
						ext = norm
					}
					model[norm] = vm14Obj{o.data, ext}
				}
			case "delete":
				_, in := model[norm]
				wantErr = !valid || norm == "." || !in
				wantNotExist = valid && norm != "." && !in
				err = b.Delete(ctx, o.arg)
				delete(model, norm)
			case "deleteAll":
				wantErr = !valid
				err = b.DeleteAll(ctx, o.arg)
				if valid {
					for p := range model {
						if vm14Under(norm, p) {
							delete(model, p)
						}
					}
				}
			}
			if wantErr != (err != nil) || (wantNotExist && !storage.IsNotExist(err)) {
				v.report("storagemem bucket, %s: the last operation returns %v; documented: error=%v not-exist=%v", strings.Join(trace, "; "), err, wantErr, wantNotExist)
				ok = false
				break
			}
		}
		if ok {
			vm14Compare(ctx, v, "storagemem bucket after "+strings.Join(trace, "; "), b, model)
		}
	}
	return len(seqs)
}

func vm14Lifecycle(ctx context.Context, v *vm14) int {
	b := NewReadWriteBucket()
	w, err := b.Put(ctx, "a/x")
	if err != nil {
		v.report("storagemem bucket: Put(\"a/x\") fails: %v", err)
		return 1
	}
	_, _ = w.Write([]byte("pending"))
	vm14Compare(ctx, v, "storagemem bucket after Put(\"a/x\") and Write but before Close", b, map[string]vm14Obj{})
	if err := w.Close(); err != nil {
		v.report("storagemem bucket: Close of the object a/x fails: %v", err)
	}
	vm14Compare(ctx, v, "storagemem bucket after Put(\"a/x\"), Write(\"pending\"), Close", b, map[string]vm14Obj{"a/x": {"pending", "a/x"}})
	if err := w.Close(); err == nil {
		v.report("storagemem bucket: the second Close of the object a/x succeeds")
	}
	if _, err := w.Write([]byte("late")); err == nil {
		v.report("storagemem bucket: Write after Close of the object a/x succeeds")
	}
	vm14Compare(ctx, v, "storagemem bucket after Put(\"a/x\"), Write(\"pending\"), Close, Close, Write(\"late\")", b, map[string]vm14Obj{"a/x": {"pending", "a/x"}})
	// two writers on one path: the later Close wins
	w1, _ := b.Put(ctx, "b")
	w2, _ := b.Put(ctx, "b")
	_, _ = w1.Write([]byte("one"))
	_, _ = w2.Write([]byte("two"))
	_ = w2.Close()
	_ = w1.Close()
	vm14Compare(ctx, v, "storagemem bucket after two open writers on b closed in the order second, first", b, map[string]vm14Obj{"a/x": {"pending", "a/x"}, "b": {"one", "b"}})
	return 5
}

func vm14NewReadBucket(ctx context.Context, v *vm14) int {
	cases := []map[string]string{
		{},
		{"a/x": "1", "ab": "2"},
		{"./a//x": "1", "a/q/../y.z": "2", "a.b": ""},
		{"a/x": "1", "./a/x": "2"},
		{"a/x": "1", "../b": "2"},
		{"/a": "1"},
		{".": "1"},
		{"": "1"},
		{"a-b/c": "1", "a/x": "2", "a.b": "3", "ab": "4", "a": "5"},
	}
	for _, c := range cases {
		in := map[string][]byte{}
		model := map[string]vm14Obj{}
		wantErr := false
		var keys []string
		for k, d := range c {
			in[k] = []byte(d)
			keys = append(keys, fmt.Sprintf("%q", k))
			n, valid := vm14Norm(k)
			if !valid || n == "." {
				wantErr = true
				continue
			}
			if _, dup := model[n]; dup {
				wantErr = true
			}
			model[n] = vm14Obj{d, n}
		}
		sort.Strings(keys)
		b, err := NewReadBucket(in)
		desc := "NewReadBucket(keys " + strings.Join(keys, ", ") + ")"
		if wantErr != (err != nil) {
			v.report("%s returns error %v; documented: invalid keys and keys that normalize to the same path are rejected, everything else accepted", desc, err)
			continue
		}
		if err == nil {
			vm14Compare(ctx, v, desc, b, model)
		}
	}
	return len(cases)
}

// The same harness serves the C13 / C15 obligations of the package (registered per property).
func TestVerifReplayC13(t *testing.T) { TestVerifReplayC14(t) }
func TestVerifReplayC15(t *testing.T) { TestVerifReplayC14(t) }

func TestVerifReplayC14(t *testing.T) {
	fn := os.Getenv("VERIF_REPLAY_FUNC")
	ctx := context.Background()
	v := &vm14{}
	tried := 0
	switch fn {
	case "Get", "Stat", "Walk", "Put", "Delete", "DeleteAll", "readLockAndGetImmutableObject", "newBucket", "NewReadWriteBucket", "newReadObjectCloser",
		// building blocks of the memory bucket (storagemem/internal, storageutil), observed through the bucket
		"Data", "NewImmutableObject", "NewObjectInfo", "Path", "ExternalPath", "LocalPath", "ValidatePath", "ValidatePrefix":
		tried += vm14Sequences(ctx, v)
		tried += vm14NewReadBucket(ctx, v)
	case "Close", "Write", "SetExternalPath", "SetLocalPath", "newWriteObjectCloser", "Read":
		tried += vr4Closers(ctx, v)
		tried += vm14Lifecycle(ctx, v)
		tried += vm14Sequences(ctx, v)
	case "NewReadBucket", "CopyReadBucket", "ToReadBucket", "SetExternalAndLocalPathsSupported":
		tried += vr4CopyReadBucket(ctx, v)
		tried += vm14NewReadBucket(ctx, v)
	default:
		fmt.Printf("VERIF-REPLAY no harness for %q\n", fn)
		return
	}
	if v.found == 0 {
		fmt.Printf("VERIF-REPLAY no failing input found for %s (%d operation sequences against the map model)\n", fn, tried)
	} else {
		fmt.Printf("VERIF-REPLAY %d failing probes in total for %s (%d sequences tried)\n", v.found, fn, tried)
	}
}

// ---------------------------------------------------------------------------------------------------------------
// ca-R4: the object closers and CopyReadBucket
//
//   - read closer: for objects of 0 / 7 / 5000 bytes read with chunk sizes 1 / 3 / 4096: the bytes are the object's, Close
//     succeeds once, every later Close and Read is storage.ErrClosed;
//   - write closer: Write sequences before Close are stored exactly at Close (not before); a Write after Close is
//     storage.ErrClosed, reports 0 bytes and appends nothing to the writer's buffer; a second Close is ErrClosed and does
//     not store again; external/local paths can be set once;
//   - CopyReadBucket: a memory bucket is returned as it is; any other bucket is copied object by object with external
//     and local paths; if reading the input fails (walk error, Get error on the k-th object) the error is returned
//     and no bucket.

type vr4FailBucket struct {
	storage.ReadBucket
	failWalk bool
	failGet  string
}

var vr4Marker = errors.New("marker failure of the input bucket")

func (b *vr4FailBucket) Get(ctx context.Context, p string) (storage.ReadObjectCloser, error) {
	if p == b.failGet {
		return nil, vr4Marker
	}
	return b.ReadBucket.Get(ctx, p)
}

func (b *vr4FailBucket) Walk(ctx context.Context, prefix string, f func(storage.ObjectInfo) error) error {
	if b.failWalk {
		return vr4Marker
	}
	return b.ReadBucket.Walk(ctx, prefix, f)
}

func vr4Closers(ctx context.Context, v *vm14) int {
	tried := 0
	for _, size := range []int{0, 7, 5000} {
		for _, chunk := range []int{1, 3, 4096} {
			tried++
			data := strings.Repeat("0123456789abcdef", size/16+1)[:size]
			b := NewReadWriteBucket()
			if err := storage.PutPath(ctx, b, "a/x", []byte(data)); err != nil {
				v.report("storagemem: PutPath(\"a/x\", %d bytes) fails: %v", size, err)
				continue
			}
			input := fmt.Sprintf("storagemem bucket with a/x = %d bytes: Get(\"a/x\"), Read in chunks of %d", size, chunk)
			r, err := b.Get(ctx, "a/x")
			if err != nil {
				v.report("%s: Get fails: %v", input, err)
				continue
			}
			var got []byte
			buf := make([]byte, chunk)
			for {
				n, err := r.Read(buf)
				got = append(got, buf[:n]...)
				if err != nil {
					if err != io.EOF {
						v.report("%s: Read fails: %v", input, err)
					}
					break
				}
			}
			if string(got) != data {
				v.report("%s: read %d bytes that differ from the %d bytes stored", input, len(got), size)
			}
			if err := r.Close(); err != nil {
				v.report("%s, Close: fails: %v", input, err)
			}
			for i := 2; i <= 3; i++ {
				if err := r.Close(); err != storage.ErrClosed {
					v.report("%s, then Close number %d returns %v; documented: only the first Close succeeds, later ones are storage.ErrClosed", input, i, err)
				}
			}
			if n, err := r.Read(buf); err != storage.ErrClosed || n != 0 {
				v.report("%s, Close, Read returns %d, %v; documented 0, storage.ErrClosed", input, n, err)
			}
		}
	}
	for _, writes := range [][]string{{}, {""}, {"abc"}, {"abc", "", "defg"}, {strings.Repeat("x", 5000), "y"}} {
		for _, late := range []string{"", "L", "late data"} {
			tried++
			b := NewReadWriteBucket()
			input := fmt.Sprintf("storagemem bucket: Put(\"a/x\"), writes of %d chunks", len(writes))
			w, err := b.Put(ctx, "a/x")
			if err != nil {
				v.report("%s: Put fails: %v", input, err)
				continue
			}
			want := ""
			for _, c := range writes {
				n, err := w.Write([]byte(c))
				if n != len(c) || err != nil {
					v.report("%s: Write(%d bytes) returns %d, %v", input, len(c), n, err)
				}
				want += c
			}
			if _, err := b.Stat(ctx, "a/x"); !storage.IsNotExist(err) {
				v.report("%s, before Close: Stat(\"a/x\") returns %v; documented: the object exists only once the writer is closed", input, err)
			}
			if err := w.SetExternalPath("ext/a/x"); err != nil {
				v.report("%s: SetExternalPath fails: %v", input, err)
			}
			if err := w.SetExternalPath("other"); err == nil {
				v.report("%s: a second SetExternalPath succeeds; documented: the external path can be set once", input)
			}
			if err := w.SetLocalPath("local/a/x"); err != nil {
				v.report("%s: SetLocalPath fails: %v", input, err)
			}
			if err := w.SetLocalPath("other"); err == nil {
				v.report("%s: a second SetLocalPath succeeds; documented: the local path can be set once", input)
			}
			if err := w.Close(); err != nil {
				v.report("%s, Close: fails: %v", input, err)
			}
			check := func(when string) {
				got, err := storage.ReadPath(ctx, b, "a/x")
				info, serr := b.Stat(ctx, "a/x")
				if err != nil || serr != nil || string(got) != want {
					v.report("%s, %s: the bucket holds %d bytes for a/x (%v, %v); documented: exactly the %d bytes written before Close", input, when, len(got), err, serr, len(want))
				} else if info.ExternalPath() != "ext/a/x" || info.LocalPath() != "local/a/x" {
					v.report("%s, %s: a/x has external/local path %q/%q; documented \"ext/a/x\"/\"local/a/x\"", input, when, info.ExternalPath(), info.LocalPath())
				}
			}
			check("Close")
			before := -1
			if woc, ok := w.(*writeObjectCloser); ok {
				before = woc.buffer.Len()
			}
			n, err := w.Write([]byte(late))
			if n != 0 || err != storage.ErrClosed {
				v.report("%s, Close, Write(%q) returns %d, %v; documented 0, storage.ErrClosed", input, late, n, err)
			}
			if woc, ok := w.(*writeObjectCloser); ok && woc.buffer.Len() != before {
				v.report("%s, Close, Write(%q): the refused write grew the writer's buffer from %d to %d bytes; documented: a refused write appends nothing", input, late, before, woc.buffer.Len())
			}
			if err := w.Close(); err != storage.ErrClosed {
				v.report("%s, Close, Write(%q), Close returns %v; documented storage.ErrClosed", input, late, err)
			}
			check(fmt.Sprintf("Close, Write(%q), Close", late))
		}
	}
	return tried
}

func vr4CopyReadBucket(ctx context.Context, v *vm14) int {
	tried := 0
	for _, paths := range [][]string{{}, {"a/x"}, {"a/x", "a/y.z", "b"}} {
		src := NewReadWriteBucket()
		for _, p := range paths {
			w, err := src.Put(ctx, p)
			if err != nil {
				return tried
			}
			_ = w.SetExternalPath("ext/" + p)
			_ = w.SetLocalPath("local/" + p)
			_, _ = w.Write([]byte("data of " + p))
			_ = w.Close()
		}
		tried++
		if got, err := CopyReadBucket(ctx, src); err != nil || got != storage.ReadBucket(src) {
			v.report("CopyReadBucket(memory bucket with %q) returns %v, %v; documented: a memory bucket is returned as it is", paths, got, err)
		}
		if !src.SetExternalAndLocalPathsSupported() {
			v.report("memory bucket: SetExternalAndLocalPathsSupported() is false")
		}
		// a foreign bucket is copied
		tried++
		foreign := &vr4FailBucket{ReadBucket: src}
		input := fmt.Sprintf("CopyReadBucket(non-memory bucket with %q, external paths ext/<path>, local paths local/<path>)", paths)
		got, err := CopyReadBucket(ctx, foreign)
		if err != nil || got == nil {
			v.report("%s fails: %v", input, err)
		} else {
			if _, isMem := got.(*bucket); !isMem {
				v.report("%s returns a %T; documented: a memory bucket", input, got)
			}
			var seen []string
			_ = got.Walk(ctx, "", func(i storage.ObjectInfo) error {
				seen = append(seen, i.Path())
				data, _ := storage.ReadPath(ctx, got, i.Path())
				if string(data) != "data of "+i.Path() || i.ExternalPath() != "ext/"+i.Path() || i.LocalPath() != "local/"+i.Path() {
					v.report("%s: the copy has %q with data %q, external %q, local %q", input, i.Path(), data, i.ExternalPath(), i.LocalPath())
				}
				return nil
			})
			sort.Strings(seen)
			if fmt.Sprint(seen) != fmt.Sprint(paths) {
				v.report("%s: the copy holds %q", input, seen)
			}
		}
		// failures of the input are reported, no bucket is returned
		failures := []*vr4FailBucket{{ReadBucket: src, failWalk: true}}
		for _, p := range paths {
			failures = append(failures, &vr4FailBucket{ReadBucket: src, failGet: p})
		}
		for _, f := range failures {
			tried++
			what := "whose Walk fails"
			if !f.failWalk {
				what = fmt.Sprintf("whose Get(%q) fails", f.failGet)
			}
			got, err := CopyReadBucket(ctx, f)
			if !errors.Is(err, vr4Marker) || got != nil {
				v.report("CopyReadBucket(non-memory bucket with %q %s) returns bucket=%v, error %v; documented: the failure is returned and no bucket", paths, what, got != nil, err)
			}
		}
	}
	return tried
}
