package bufimagemodify

// Replay harness (ca-r4c) for the C18 value functions of override.go and isJsTypePermittedForType
// (injected with go test -overlay). Oracle: the documented default formulas, computed here independently:
// java_package = [prefix.]package[.suffix]; csharp = [prefix.]Pascal parts joined by "."; ruby = Pascal parts joined
// by "::" [::suffix]; php = Pascal parts (reserved words + "_") joined by "\"; php metadata = php \GPBMetadata or
// php \ suffix; go_package = prefix/dir[;lastTwoParts when versioned]; java_outer_classname = Pascal(base name);
// objc never "GPB"; jstype only on the five 64-bit integer types. No package => no value.

import (
	"fmt"
	"os"
	"path"
	"strings"
	"testing"

	"github.com/bufbuild/buf/private/bufpkg/bufimage"
	"github.com/google/uuid"
	"google.golang.org/protobuf/proto"
	"google.golang.org/protobuf/types/descriptorpb"
)

func r4cPascal(s string) string {
	// the casing used by the documentation examples: first letter of each "_"-separated word upper-cased
	out := ""
	for _, w := range strings.FieldsFunc(s, func(r rune) bool { return r == '_' || r == '.' || r == '-' || r == ' ' }) {
		out += strings.ToUpper(w[:1]) + w[1:]
	}
	return out
}

func r4cFile(t *testing.T, p, pkg string) bufimage.ImageFile {
	fd := &descriptorpb.FileDescriptorProto{Name: proto.String(p), Syntax: proto.String("proto3")}
	if pkg != "" {
		fd.Package = proto.String(pkg)
	}
	f, err := bufimage.NewImageFile(fd, nil, uuid.Nil, p, "", false, false, nil)
	if err != nil {
		t.Fatal(err)
	}
	return f
}

func TestVerifReplayR4cC18(t *testing.T) {
	fn := os.Getenv("VERIF_REPLAY_FUNC")
	found := 0
	report := func(format string, a ...any) {
		if found < 3 {
			fmt.Printf("VERIF-REPLAY FAILING-INPUT "+format+"\n", a...)
		}
		found++
	}
	tried := 0
	pkgs := []string{"", "acme", "acme.weather", "acme.weather.v1", "acme.error.v1beta1", "google.protobuf.bar", "foo_bar.baz_qux.v2", "g.p.b"}
	paths := []string{"x.proto", "a/b/weather_api.proto", "acme/weather/v1/weather.proto"}
	affixes := []string{"", "com", "net.foo", "Meta"}
	joinParts := func(pkg, sep string, php bool) string {
		if pkg == "" {
			return ""
		}
		var parts []string
		for _, part := range strings.Split(pkg, ".") {
			q := r4cPascal(part)
			if _, reserved := map[string]bool{"error": true, "exception": true, "list": true, "array": true}[strings.ToLower(part)]; php && reserved {
				q += "_"
			}
			parts = append(parts, q)
		}
		return strings.Join(parts, sep)
	}
	versioned := func(pkg string) bool {
		parts := strings.Split(pkg, ".")
		last := parts[len(parts)-1]
		return len(last) >= 2 && last[0] == 'v' && last[1] >= '1' && last[1] <= '9'
	}
	for _, p := range paths {
		for _, pkg := range pkgs {
			f := r4cFile(t, p, pkg)
			for _, a := range affixes {
				for _, b := range affixes {
					tried++
					want := ""
					if pkg != "" {
						want = pkg
						if a != "" {
							want = a + "." + want
						}
						if b != "" {
							want = want + "." + b
						}
					}
					if got := getJavaPackageValue(f, stringOverrideOptions{prefix: a, suffix: b}); got != want && (fn == "getJavaPackageValue" || fn == "") {
						report("getJavaPackageValue(package %q, prefix %q, suffix %q) = %q, documented [prefix.]package[.suffix] = %q", pkg, a, b, got, want)
					}
				}
				cs := joinParts(pkg, ".", false)
				wantCs := cs
				if cs != "" && a != "" {
					wantCs = a + "." + cs
				}
				if got := getCsharpNamespaceValue(f, a); got != wantCs && (fn == "getCsharpNamespaceValue" || fn == "csharpNamespaceValue") {
					report("getCsharpNamespaceValue(package %q, prefix %q) = %q, documented %q", pkg, a, got, wantCs)
				}
				rb := joinParts(pkg, "::", false)
				wantRb := rb
				if rb != "" && a != "" {
					wantRb = rb + "::" + a
				}
				if got := getRubyPackageValue(f, a); got != wantRb && (fn == "getRubyPackageValue" || fn == "rubyPackageValue") {
					report("getRubyPackageValue(package %q, suffix %q) = %q, documented %q", pkg, a, got, wantRb)
				}
				php := joinParts(pkg, `\`, true)
				wantMeta := php
				if php != "" && a != "" {
					wantMeta = php + `\` + a
				}
				if got := getPhpMetadataNamespaceValue(f, a); got != wantMeta && (fn == "getPhpMetadataNamespaceValue" || fn == "phpNamespaceValue") {
					report("getPhpMetadataNamespaceValue(package %q, suffix %q) = %q, documented %q", pkg, a, got, wantMeta)
				}
				if a != "" {
					wantGo := path.Join(a, path.Dir(p))
					if parts := strings.Split(pkg, "."); pkg != "" && versioned(pkg) && len(parts) >= 2 {
						wantGo += ";" + parts[len(parts)-2] + parts[len(parts)-1]
					}
					if got := goPackageImportPathForFile(f, a); got != wantGo && fn == "goPackageImportPathForFile" {
						report("goPackageImportPathForFile(path %q, package %q, prefix %q) = %q, documented %q", p, pkg, a, got, wantGo)
					}
				}
			}
			if got, want := csharpNamespaceValue(f), joinParts(pkg, ".", false); got != want && fn == "csharpNamespaceValue" {
				report("csharpNamespaceValue(package %q) = %q, documented %q", pkg, got, want)
			}
			if got, want := rubyPackageValue(f), joinParts(pkg, "::", false); got != want && fn == "rubyPackageValue" {
				report("rubyPackageValue(package %q) = %q, documented %q", pkg, got, want)
			}
			if got, want := phpNamespaceValue(f), joinParts(pkg, `\`, true); got != want && fn == "phpNamespaceValue" {
				report("phpNamespaceValue(package %q) = %q, documented %q", pkg, got, want)
			}
			wantMeta := joinParts(pkg, `\`, true)
			if wantMeta != "" {
				wantMeta += `\GPBMetadata`
			}
			if got := phpMetadataNamespaceValue(f); got != wantMeta && fn == "phpMetadataNamespaceValue" {
				report("phpMetadataNamespaceValue(package %q) = %q, documented %q", pkg, got, wantMeta)
			}
			if got := objcClassPrefixValue(f); fn == "objcClassPrefixValue" && (got == "GPB" || (pkg == "") != (got == "")) {
				report("objcClassPrefixValue(package %q) = %q (reserved prefix GPB / value without a package)", pkg, got)
			}
			base := strings.TrimSuffix(path.Base(p), ".proto")
			if got, want := javaOuterClassnameValue(f), r4cPascal(base)+"Proto"; got != want && fn == "javaOuterClassnameValue" {
				report("javaOuterClassnameValue(path %q) = %q, documented %q", p, got, want)
			}
		}
	}
	if fn == "isJsTypePermittedForType" {
		for v := int32(1); v <= 18; v++ {
			tried++
			ty := descriptorpb.FieldDescriptorProto_Type(v)
			want := ty == descriptorpb.FieldDescriptorProto_TYPE_INT64 || ty == descriptorpb.FieldDescriptorProto_TYPE_UINT64 || ty == descriptorpb.FieldDescriptorProto_TYPE_SINT64 || ty == descriptorpb.FieldDescriptorProto_TYPE_FIXED64 || ty == descriptorpb.FieldDescriptorProto_TYPE_SFIXED64
			if got := isJsTypePermittedForType(ty); got != want {
				report("isJsTypePermittedForType(%v) = %v, descriptor.proto permits jstype only on 64-bit integer types (want %v)", ty, got, want)
			}
		}
	}
	if fn == "newModifyOptions" || fn == "ModifyPreserveExisting" {
		tried++
		o := newModifyOptions()
		if o.preserveExisting {
			report("newModifyOptions().preserveExisting = true, the default is to overwrite")
		}
		ModifyPreserveExisting()(o)
		if !o.preserveExisting {
			report("ModifyPreserveExisting() leaves preserveExisting = false")
		}
	}
	fmt.Printf("VERIF-REPLAY tried %d inputs for %s, %d failing\n", tried, fn, found)
}
