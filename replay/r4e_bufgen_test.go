package bufgen

// Replay / bounded contract run for the C17 obligations of package bufgen written by r4e (injected with go test
// -overlay): getPluginGenerationRequest over remote plugin names (full reference, bare identity, invalid), opt strings
// (empty / non-empty) and the two include flags; execLocalPlugin with a recording local generator over 1..3 images
// (a.proto, b/b.proto, each importing dep.proto), plugin path / protoc path settings and a failing generator;
// newGenerator wiring.
// Oracle (property C17 and the doc comments): the remote request names the plugin (with version and revision when
// the name has a version), carries the opt string exactly when it is non-empty and the include flags as given; the
// local generator is called exactly once, for the plugin's name, with one request per image whose file_to_generate
// are that image's non-import files, and with the plugin's path / protoc_path; its response comes back unchanged; a
// failing generator is an error without a response.

import (
	"context"
	"errors"
	"fmt"
	"io"
	"log/slog"
	"os"
	"reflect"
	"strings"
	"testing"

	"github.com/bufbuild/buf/private/buf/bufprotopluginexec"
	"github.com/bufbuild/buf/private/bufpkg/bufconfig"
	"github.com/bufbuild/buf/private/bufpkg/bufimage"
	"github.com/bufbuild/buf/private/pkg/app"
	"github.com/bufbuild/buf/private/pkg/storage/storageos"
	"github.com/google/uuid"
	"google.golang.org/protobuf/proto"
	"google.golang.org/protobuf/types/descriptorpb"
	"google.golang.org/protobuf/types/pluginpb"
)

type r4eLocalGenerator struct {
	calls    int
	name     string
	requests []*pluginpb.CodeGeneratorRequest
	nOptions int
	response *pluginpb.CodeGeneratorResponse
	err      error
}

func (g *r4eLocalGenerator) Generate(_ context.Context, _ app.EnvStderrContainer, pluginName string, requests []*pluginpb.CodeGeneratorRequest, options ...bufprotopluginexec.GenerateOption) (*pluginpb.CodeGeneratorResponse, error) {
	g.calls++
	g.name = pluginName
	g.requests = requests
	g.nOptions = len(options)
	if g.err != nil {
		return nil, g.err
	}
	return g.response, nil
}

func r4eImage(t *testing.T, target string) bufimage.Image {
	mk := func(name string, isImport bool, deps ...string) bufimage.ImageFile {
		f, err := bufimage.NewImageFile(&descriptorpb.FileDescriptorProto{Name: proto.String(name), Syntax: proto.String("proto3"), Dependency: deps}, nil, uuid.Nil, name, name, isImport, false, nil)
		if err != nil {
			t.Fatal(err)
		}
		return f
	}
	image, err := bufimage.NewImage([]bufimage.ImageFile{mk("dep.proto", true), mk(target, false, "dep.proto")})
	if err != nil {
		t.Fatal(err)
	}
	return image
}

func TestVerifReplayC17R4e(t *testing.T) {
	fn := os.Getenv("VERIF_REPLAY_FUNC")
	found, tried := 0, 0
	fail := func(format string, args ...any) {
		if found < 4 {
			fmt.Printf("VERIF-REPLAY FAILING-INPUT "+format+"\n", args...)
		}
		found++
	}
	switch fn {
	case "getPluginGenerationRequest":
		for _, name := range []string{"buf.build/acme/go:v1.2.3", "buf.build/acme/go", "not a plugin", "buf.build/acme"} {
			for _, opt := range [][]string{nil, {"paths=source_relative"}, {"a=1", "b=2"}} {
				for _, revision := range []int{0, 4} {
					for _, imports := range []bool{false, true} {
						for _, wkt := range []bool{false, true} {
							valid := strings.Count(name, "/") == 2 && !strings.Contains(name, " ")
							versioned := strings.Contains(name, ":")
							if !valid {
								// the config constructor accepts any name; the request builder must refuse it
								tried++
								config, err := bufconfig.NewRemoteGeneratePluginConfig(name, "gen", opt, imports, wkt && imports, nil, nil, 0)
								if err != nil {
									continue
								}
								if request, err := getPluginGenerationRequest(config, imports, wkt); err == nil || request != nil {
									fail("getPluginGenerationRequest(plugin %q) = (%v, %v): an invalid remote plugin name must be an error", name, request, err)
								}
								continue
							}
							if (revision != 0 && !versioned) || (wkt && !imports) {
								continue
							}
							tried++
							config, err := bufconfig.NewRemoteGeneratePluginConfig(name, "gen", opt, imports, wkt, nil, nil, revision)
							if err != nil {
								t.Fatal(err)
							}
							// the override has been applied by the caller: the flags are passed as they are
							for _, flags := range [][2]bool{{imports, wkt}, {!imports, wkt}} {
								request, err := getPluginGenerationRequest(config, flags[0], flags[1])
								desc := fmt.Sprintf("getPluginGenerationRequest(plugin %q revision %d opt %q, includeImports %v, includeWellKnownTypes %v)", name, revision, config.Opt(), flags[0], flags[1])
								if err != nil || request == nil {
									fail("%s fails: %v", desc, err)
									continue
								}
								ref := request.GetPluginReference()
								wantVersion, wantRevision := "", uint32(0)
								if versioned {
									wantVersion, wantRevision = "v1.2.3", uint32(revision)
								}
								if ref.GetOwner() != "acme" || ref.GetName() != "go" || ref.GetVersion() != wantVersion || ref.GetRevision() != wantRevision {
									fail("%s names plugin %s/%s version %q revision %d, want acme/go version %q revision %d", desc, ref.GetOwner(), ref.GetName(), ref.GetVersion(), ref.GetRevision(), wantVersion, wantRevision)
								}
								var wantOptions []string
								if config.Opt() != "" {
									wantOptions = []string{config.Opt()}
								}
								if !reflect.DeepEqual(request.GetOptions(), wantOptions) {
									fail("%s sends options %q, want %q", desc, request.GetOptions(), wantOptions)
								}
								if request.GetIncludeImports() != flags[0] || request.GetIncludeWellKnownTypes() != flags[1] {
									fail("%s sends include_imports %v include_well_known_types %v", desc, request.GetIncludeImports(), request.GetIncludeWellKnownTypes())
								}
							}
						}
					}
				}
			}
		}
	case "execLocalPlugin", "newGenerator":
		logger := slog.New(slog.NewTextHandler(io.Discard, nil))
		container := app.NewContainer(map[string]string{}, nil, io.Discard, io.Discard)
		g := newGenerator(logger, storageos.NewProvider(), nil)
		if g.pluginexecGenerator == nil || g.storageosProvider == nil {
			fail("newGenerator leaves the local generator or the storage provider unset")
		}
		targets := []string{"a.proto", "b/b.proto", "c/c.proto"}
		for n := 1; n <= 3; n++ {
			for _, pluginErr := range []bool{false, true} {
				for _, path := range [][]string{nil, {"/bin/protoc-gen-x", "--flag"}} {
					tried++
					var images []bufimage.Image
					for _, target := range targets[:n] {
						images = append(images, r4eImage(t, target))
					}
					config, err := bufconfig.NewLocalGeneratePluginConfig("x", "gen", []string{"o=1"}, false, false, nil, nil, nil, path)
					if path == nil {
						config, err = bufconfig.NewLocalOrProtocBuiltinGeneratePluginConfig("x", "gen", []string{"o=1"}, false, false, nil, nil, nil)
					}
					if err != nil {
						t.Fatal(err)
					}
					fake := &r4eLocalGenerator{response: &pluginpb.CodeGeneratorResponse{File: []*pluginpb.CodeGeneratorResponse_File{{Name: proto.String("x.go")}}}}
					if pluginErr {
						fake.err = errors.New("plugin crashed")
					}
					g.pluginexecGenerator = fake
					response, err := g.execLocalPlugin(context.Background(), container, images, config, false, false)
					desc := fmt.Sprintf("execLocalPlugin(%d images %v, plugin x path %q, generator fails: %v)", n, targets[:n], path, pluginErr)
					if fake.calls != 1 {
						fail("%s calls the local generator %d times", desc, fake.calls)
						continue
					}
					if fake.name != "x" {
						fail("%s runs plugin %q, want x", desc, fake.name)
					}
					if fake.nOptions != 2 {
						fail("%s passes %d generate options, want plugin path and protoc path", desc, fake.nOptions)
					}
					if len(fake.requests) != n {
						fail("%s sends %d requests, want one per image", desc, len(fake.requests))
					} else {
						for i, request := range fake.requests {
							if !reflect.DeepEqual(request.GetFileToGenerate(), []string{targets[i]}) || len(request.GetProtoFile()) != 2 || request.GetParameter() != "o=1" {
								fail("%s: request %d generates %v from %d files with parameter %q, want [%s] from 2 files with parameter \"o=1\"", desc, i, request.GetFileToGenerate(), len(request.GetProtoFile()), request.GetParameter(), targets[i])
							}
						}
					}
					switch {
					case pluginErr && (err == nil || response != nil):
						fail("%s = (%v, %v): a failing plugin must be an error without a response", desc, response, err)
					case !pluginErr && (err != nil || response != fake.response):
						fail("%s = (%v, %v): want the generator's response unchanged", desc, response, err)
					}
				}
			}
		}
	default:
		fmt.Printf("VERIF-REPLAY no harness for %q\n", fn)
		return
	}
	if found == 0 {
		fmt.Printf("VERIF-REPLAY no failing input found for %s (%d inputs)\n", fn, tried)
	} else {
		fmt.Printf("VERIF-REPLAY %d failing inputs in total for %s (%d tried)\n", found, fn, tried)
	}
}
