package build

// Replay harness for the C20 obligations of `buf build` (build.run; injected by gocv with `go test -overlay`; never
// written into /repo). Author ca-R4. The REAL command function is run (real controller, no network, captured
// stdout/stderr, cache and home in a temporary directory) on small source directories:
//
//	clean      a.proto, b.proto (b imports a)           -o <tmp>/out.binpb
//	warn       an unused import (compiler warning only)  -o <tmp>/out.binpb
//	broken     one syntax error at x.proto:4:9           -o <tmp>/out.binpb
//	broken2    syntax errors in two files                -o <tmp>/out.binpb
//	unwritable clean sources, the output path lies below a regular file (the write must fail)
//
// Documented: success means the image was built AND written (the output file exists and is an image holding exactly
// the input's files); a compile failure returns exactly bufctl.ErrFileAnnotation (exit code 100, the verdict is not
// re-wrapped), prints one line per compile error on stderr and writes NO output file; a failing write is returned.

import (
	"bytes"
	"context"
	"fmt"
	"log/slog"
	"os"
	"path/filepath"
	"sort"
	"strings"
	"testing"

	"github.com/bufbuild/buf/private/buf/bufctl"
	"github.com/bufbuild/buf/private/pkg/app"
	"github.com/bufbuild/buf/private/pkg/app/appext"
	"google.golang.org/protobuf/proto"
	"google.golang.org/protobuf/types/descriptorpb"
)

type vr4Env struct {
	dir            string
	stdout, stderr *bytes.Buffer
	container      appext.Container
}

func vr4Setup(t *testing.T, name string, files map[string]string) *vr4Env {
	base := t.TempDir()
	dir := filepath.Join(base, name)
	for n, content := range files {
		p := filepath.Join(dir, filepath.FromSlash(n))
		if err := os.MkdirAll(filepath.Dir(p), 0o755); err != nil {
			t.Fatal(err)
		}
		if err := os.WriteFile(p, []byte(content), 0o644); err != nil {
			t.Fatal(err)
		}
	}
	env := &vr4Env{dir: dir, stdout: &bytes.Buffer{}, stderr: &bytes.Buffer{}}
	appContainer := app.NewContainer(
		map[string]string{"HOME": filepath.Join(base, "home"), "BUF_CACHE_DIR": filepath.Join(base, "cache"), "BUF_CONFIG_DIR": filepath.Join(base, "config")},
		strings.NewReader(""), env.stdout, env.stderr, dir,
	)
	nameContainer, err := appext.NewNameContainer(appContainer, "buf")
	if err != nil {
		t.Fatal(err)
	}
	env.container = appext.NewContainer(nameContainer, slog.New(slog.NewTextHandler(&bytes.Buffer{}, nil)))
	return env
}

func vr4Names(files map[string]string) []string {
	var names []string
	for n := range files {
		names = append(names, n)
	}
	sort.Strings(names)
	return names
}

const (
	vr4A      = "syntax = \"proto3\";\npackage p;\nmessage A {}\n"
	vr4B      = "syntax = \"proto3\";\npackage p;\nimport \"a.proto\";\nmessage B { A a = 1; }\n"
	vr4Warn   = "syntax = \"proto3\";\npackage p;\nimport \"a.proto\";\nmessage W {}\n"
	vr4Syntax = "syntax = \"proto3\";\npackage p;\nmessage Broken {\n  int32 = 1;\n}\n"
	vr4Syn2   = "syntax = \"proto3\";\npackage p;\n\nmessage Broken2 {\n\n    int64 = 2;\n}\n"
)

func TestVerifReplayC20(t *testing.T) {
	fn := os.Getenv("VERIF_REPLAY_FUNC")
	if fn != "run" {
		fmt.Printf("VERIF-REPLAY no harness for %q\n", fn)
		return
	}
	found := 0
	report := func(format string, a ...any) {
		if found < 4 {
			fmt.Printf("VERIF-REPLAY FAILING-INPUT "+format+"\n", a...)
		}
		found++
	}
	ctx := context.Background()
	tried := 0
	for _, s := range []struct {
		name       string
		files      map[string]string
		protos     []string
		sites      []string
		unwritable bool
	}{
		{name: "clean", files: map[string]string{"a.proto": vr4A, "b.proto": vr4B}, protos: []string{"a.proto", "b.proto"}},
		{name: "warn", files: map[string]string{"a.proto": vr4A, "w.proto": vr4Warn}, protos: []string{"a.proto", "w.proto"}},
		{name: "broken", files: map[string]string{"a.proto": vr4A, "x.proto": vr4Syntax}, sites: []string{"x.proto:4:9:"}},
		{name: "broken2", files: map[string]string{"a.proto": vr4A, "x.proto": vr4Syntax, "y.proto": vr4Syn2}, sites: []string{"x.proto:4:9:", "y.proto:6:11:"}},
		{name: "unwritable", files: map[string]string{"a.proto": vr4A, "b.proto": vr4B}, protos: []string{"a.proto", "b.proto"}, unwritable: true},
	} {
		for _, asSet := range []bool{false, true} {
			tried++
			env := vr4Setup(t, s.name, s.files)
			outDir := t.TempDir()
			out := filepath.Join(outDir, "out.binpb")
			if s.unwritable {
				if err := os.WriteFile(filepath.Join(outDir, "file"), []byte("x"), 0o644); err != nil {
					t.Fatal(err)
				}
				out = filepath.Join(outDir, "file", "out.binpb")
			}
			flags := newFlags()
			flags.Output = out
			flags.ErrorFormat = "text"
			flags.AsFileDescriptorSet = asSet
			input := fmt.Sprintf("buf build <dir %q %v> -o %s --as-file-descriptor-set=%v", s.name, vr4Names(s.files), map[bool]string{false: "<tmp>/out.binpb", true: "<tmp>/file/out.binpb (below a regular file)"}[s.unwritable], asSet)
			err := run(ctx, env.container, flags)
			data, readErr := os.ReadFile(out)
			switch {
			case len(s.sites) > 0:
				switch {
				case err == nil:
					report("%s (compile errors at %v) returns nil (output file written: %v); documented: the compile failure is the command's verdict", input, s.sites, readErr == nil)
				case err != bufctl.ErrFileAnnotation:
					report("%s (compile errors at %v) returns %q (%T, exit code %d); documented: exactly bufctl.ErrFileAnnotation (exit code 100), the verdict of the build is returned unchanged", input, s.sites, err, err, app.GetExitCode(err))
				case readErr == nil:
					report("%s (compile errors at %v) fails but wrote an output file of %d bytes; documented: nothing is written when the build fails", input, s.sites, len(data))
				default:
					for _, site := range s.sites {
						if strings.Count(env.stderr.String(), site) != 1 {
							report("%s: stderr %q does not hold exactly one line for the error at %s", input, env.stderr.String(), site)
							break
						}
					}
				}
			case s.unwritable:
				if err == nil {
					report("%s returns nil although the output could not be written; documented: the write error is returned", input)
				}
			default:
				if err != nil {
					report("%s fails: %v (stderr %q); documented: success (warnings do not fail)", input, err, env.stderr.String())
					continue
				}
				if readErr != nil {
					report("%s returns nil but there is no output file (%v); documented: success means built and written", input, readErr)
					continue
				}
				set := &descriptorpb.FileDescriptorSet{}
				if uerr := (proto.UnmarshalOptions{DiscardUnknown: true}).Unmarshal(data, set); uerr != nil {
					report("%s: the output file is not a serialized image: %v", input, uerr)
					continue
				}
				var got []string
				for _, f := range set.GetFile() {
					got = append(got, f.GetName())
				}
				sort.Strings(got)
				if fmt.Sprint(got) != fmt.Sprint(s.protos) {
					report("%s: the written image holds %v; documented: the files of the input %v", input, got, s.protos)
				}
			}
		}
	}
	if found == 0 {
		fmt.Printf("VERIF-REPLAY no failing input found for %s (%d command runs)\n", fn, tried)
	}
}
