package bufconnect

// Replay / bounded contract run for C19 obligations of package bufconnect
// (injected with go test -overlay). Evaluates the contract clauses at run time on the real code.

import (
	"context"
	"errors"
	"fmt"
	"net/http"
	"os"
	"strings"
	"testing"

	"connectrpc.com/connect"
	"github.com/bufbuild/buf/private/pkg/app"
	"github.com/bufbuild/buf/private/pkg/netrc"
)

type vfMachine struct{ name, pw string }

func (m vfMachine) Name() string     { return m.name }
func (m vfMachine) Login() string    { return "l" }
func (m vfMachine) Password() string { return m.pw }

type vfProvider struct {
	byHost map[string]string
	all    string
}

func (p vfProvider) RemoteToken(a string) string {
	if t, ok := p.byHost[a]; ok {
		return t
	}
	return p.all
}
func (p vfProvider) IsFromEnvVar() bool { return false }

// vfExpected is the documented meaning of a BUF_TOKEN string: (table, single token, error?)
func vfExpected(s string) (map[string]string, string, bool) {
	if s == "" {
		return nil, "", false
	}
	elems := strings.Split(s, ",")
	if len(elems) == 1 && !strings.Contains(s, "@") {
		return nil, s, false
	}
	table := map[string]string{}
	for _, e := range elems {
		parts := strings.Split(e, "@")
		if len(parts) != 2 || parts[0] == "" || parts[1] == "" || strings.ContainsAny(parts[0], ":,") {
			return nil, "", true
		}
		if _, dup := table[parts[1]]; dup {
			return nil, "", true
		}
		table[parts[1]] = parts[0]
	}
	return table, "", false
}

func TestVerifReplayC19(t *testing.T) {
	fn := os.Getenv("VERIF_REPLAY_FUNC")
	found := 0
	report := func(format string, a ...any) {
		if found < 5 {
			fmt.Printf("VERIF-REPLAY FAILING-INPUT "+format+"\n", a...)
		}
		found++
	}
	hosts := []string{"a", "b", "aa", "a:b", "", "ab"}
	switch fn {
	case "newMultipleTokenProvider", "newTokenProviderFromString", "newSingleTokenProvider", "RemoteToken":
		var rec func(prefix string)
		check := func(s string) {
			table, single, wantErr := vfExpected(s)
			p, err := newTokenProviderFromString(s, true)
			if wantErr {
				if err == nil {
					got := map[string]string{}
					for _, h := range hosts {
						got[h] = p.RemoteToken(h)
					}
					report("BUF_TOKEN=%q is malformed but was accepted; tokens served per host: %v", s, got)
				}
				return
			}
			if err != nil {
				report("BUF_TOKEN=%q is well-formed but was rejected: %v", s, err)
				return
			}
			for _, h := range hosts {
				want := single
				if table != nil {
					want = table[h]
				}
				if got := p.RemoteToken(h); got != want {
					report("BUF_TOKEN=%q: RemoteToken(%q) = %q, want %q", s, h, got, want)
				}
			}
		}
		rec = func(prefix string) {
			check(prefix)
			if len(prefix) == 7 {
				return
			}
			for _, c := range "ab@,:" {
				rec(prefix + string(c))
			}
		}
		rec("")
		if fn == "RemoteToken" {
			// netrc provider: per-host lookups through one shared provider
			pw := map[string]string{"h1": "p1", "h2": "p2"}
			calls := 0
			nt := NewNetrcTokenProvider(app.NewEnvContainer(nil), func(_ app.EnvContainer, name string) (netrc.Machine, error) {
				calls++
				if name == "bad" {
					return nil, errors.New("boom")
				}
				if p, ok := pw[name]; ok {
					return vfMachine{name, p}, nil
				}
				return nil, nil
			})
			for _, seq := range [][]string{{"h1", "h2", "h3", "bad", "h1"}, {"h3", "h1"}, {"bad", "h2"}} {
				nt = NewNetrcTokenProvider(app.NewEnvContainer(nil), func(_ app.EnvContainer, name string) (netrc.Machine, error) {
					if name == "bad" {
						return nil, errors.New("boom")
					}
					if p, ok := pw[name]; ok {
						return vfMachine{name, p}, nil
					}
					return nil, nil
				})
				for _, h := range seq {
					if got := nt.RemoteToken(h); got != pw[h] {
						report("netrc provider, lookups %v: RemoteToken(%q) = %q, want %q (token of another host served)", seq, h, got, pw[h])
					}
				}
			}
		}
	case "NewAuthorizationInterceptorProvider":
		provs := []TokenProvider{
			vfProvider{byHost: map[string]string{}},
			vfProvider{byHost: map[string]string{"h1": "t1"}},
			vfProvider{byHost: map[string]string{"h1": "u1", "h2": "u2"}},
			vfProvider{all: "single"},
		}
		// every sub-sequence of providers, every address
		for mask := 0; mask < 16; mask++ {
			var tps []TokenProvider
			for i, p := range provs {
				if mask&(1<<i) != 0 {
					tps = append(tps, p)
				}
			}
			for _, addr := range []string{"h1", "h2", "h3"} {
				want := ""
				for _, p := range tps {
					if tok := p.RemoteToken(addr); tok != "" {
						want = AuthenticationTokenPrefix + tok
						break
					}
				}
				req := connect.NewRequest(&struct{}{})
				next := connect.UnaryFunc(func(ctx context.Context, r connect.AnyRequest) (connect.AnyResponse, error) {
					return nil, nil
				})
				_, _ = NewAuthorizationInterceptorProvider(tps...)(addr)(next)(context.Background(), req)
				if got := req.Header().Get(AuthenticationHeader); got != want {
					report("providers mask %04b, address %q: Authorization header %q, want %q", mask, addr, got, want)
				}
				_ = http.Header{}
			}
		}
	default:
		fmt.Printf("VERIF-REPLAY no harness for %q\n", fn)
		return
	}
	if found == 0 {
		fmt.Printf("VERIF-REPLAY no failing input found for %s (bounded enumeration)\n", fn)
	}
}
