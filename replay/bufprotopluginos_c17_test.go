package bufprotopluginos

// Replay / bounded scenario runs for the C17 (and C13) obligations of package bufprotopluginos (injected with
// go test -overlay, never written into /repo): the OS response writer (AddResponse / addResponse / writeZip /
// writeDirectory / Close) and the cleaner (DeleteOuts / deleteOut / validatePluginOut), on scratch directories.
//
// Oracles (from the interface documentation and the property text):
//   * AddResponse writes no generated file to disk; Close writes every file of every response beneath the plugin's
//     output location (directory) resp. into the archive at that location (.zip / .jar, a .jar with a manifest),
//     and creates nothing else in the scratch directory.
//   * With ResponseWriterWithCreateOutDirIfNotExists a missing output directory (for an archive: its parent) is
//     created and is NOT an error; without it it is an error and nothing is created.
//   * Two spellings of one location (relative / absolute / "./x/") share one bucket: a later plugin's insertion
//     point sees the earlier plugin's file.
//   * DeleteOuts refuses "", "." and every spelling of the working directory before removing anything; otherwise it
//     removes exactly the declared locations (a directory's content, an archive file) and nothing else.

import (
	"archive/zip"
	"context"
	"fmt"
	"io"
	"log/slog"
	"os"
	"path/filepath"
	"sort"
	"strings"
	"testing"

	"github.com/bufbuild/buf/private/pkg/osext"
	"github.com/bufbuild/buf/private/pkg/storage/storageos"
	"google.golang.org/protobuf/proto"
	"google.golang.org/protobuf/types/pluginpb"
)

func vo17Tree(root string) []string {
	var out []string
	_ = filepath.Walk(root, func(p string, info os.FileInfo, err error) error {
		if err != nil || p == root {
			return nil
		}
		rel, _ := filepath.Rel(root, p)
		if info.IsDir() {
			rel += "/"
		}
		out = append(out, rel)
		return nil
	})
	sort.Strings(out)
	return out
}

func vo17ZipEntries(path string) (map[string]string, error) {
	r, err := zip.OpenReader(path)
	if err != nil {
		return nil, err
	}
	defer r.Close()
	m := map[string]string{}
	for _, f := range r.File {
		rc, err := f.Open()
		if err != nil {
			return nil, err
		}
		data, _ := io.ReadAll(rc)
		rc.Close()
		m[f.Name] = string(data)
	}
	return m, nil
}

type vo17Plugin struct {
	out   string // relative to the scratch working directory, or "ABS:" + relative for the absolute spelling
	files [][3]string
}

func vo17Response(files [][3]string) *pluginpb.CodeGeneratorResponse {
	resp := &pluginpb.CodeGeneratorResponse{}
	for _, f := range files {
		file := &pluginpb.CodeGeneratorResponse_File{Name: proto.String(f[0]), Content: proto.String(f[2])}
		if f[1] != "" {
			file.InsertionPoint = proto.String(f[1])
		}
		resp.File = append(resp.File, file)
	}
	return resp
}

func TestVerifReplayC17(t *testing.T) {
	fn := os.Getenv("VERIF_REPLAY_FUNC")
	found, tried := 0, 0
	report := func(format string, args ...any) {
		if found < 4 {
			fmt.Printf("VERIF-REPLAY FAILING-INPUT "+format+"\n", args...)
		}
		found++
	}
	wd, _ := os.Getwd()
	defer osext.Chdir(wd)
	scratch := func() string {
		dir := t.TempDir()
		real, err := filepath.EvalSymlinks(dir)
		if err == nil {
			dir = real
		}
		if err := osext.Chdir(dir); err != nil {
			t.Fatal(err)
		}
		return dir
	}
	spell := func(dir, out string) string {
		if strings.HasPrefix(out, "ABS:") {
			return filepath.Join(dir, strings.TrimPrefix(out, "ABS:"))
		}
		return out
	}
	switch fn {
	case "AddResponse", "addResponse", "writeZip", "writeDirectory", "Close", "newResponseWriter":
		base := [][3]string{{"a.txt", "", "A\n  // @@protoc_insertion_point(p)\nZ"}, {"sub/b.txt", "", "B"}}
		inserter := [][3]string{{"a.txt", "p", "ins"}}
		type scenario struct {
			name    string
			prepare string // "", "parent-exists", "parent-is-file"
			plugins []vo17Plugin
		}
		var scenarios []scenario
		for _, out := range []string{"gen", "gen/deep/er", "arch/out.zip", "arch/out.jar", "out.zip", "out.jar"} {
			for _, prepare := range []string{"", "parent-exists", "parent-is-file"} {
				scenarios = append(scenarios, scenario{out + " one plugin", prepare, []vo17Plugin{{out, base}}})
			}
			scenarios = append(scenarios, scenario{out + " then the same out with an insertion point", "parent-exists", []vo17Plugin{{out, base}, {out, inserter}}})
			scenarios = append(scenarios, scenario{out + " then its absolute spelling with an insertion point", "parent-exists", []vo17Plugin{{out, base}, {"ABS:" + out, inserter}}})
			scenarios = append(scenarios, scenario{out + " then ./" + out + " with an insertion point", "parent-exists", []vo17Plugin{{out, base}, {"./" + out, inserter}}})
		}
		scenarios = append(scenarios, scenario{"two locations", "", []vo17Plugin{{"gen1", base}, {"gen2/out.zip", base}, {"gen1", inserter}}})
		scenarios = append(scenarios, scenario{"insertion point into another location", "", []vo17Plugin{{"gen1", base}, {"gen2", inserter}}})
		for _, sc := range scenarios {
			for _, create := range []bool{true, false} {
				tried++
				dir := scratch()
				isArchive := func(out string) bool { e := filepath.Ext(out); return e == ".zip" || e == ".jar" }
				firstOut := strings.TrimPrefix(sc.plugins[0].out, "ABS:")
				parent := firstOut
				if isArchive(firstOut) {
					parent = filepath.Dir(firstOut)
				}
				parentMissing := parent != "."
				switch sc.prepare {
				case "parent-exists":
					os.MkdirAll(parent, 0o755)
					parentMissing = false
				case "parent-is-file":
					if parent != "." {
						os.MkdirAll(filepath.Dir(parent), 0o755)
						os.WriteFile(parent, []byte("file"), 0o644)
					}
				}
				before := vo17Tree(dir)
				var options []ResponseWriterOption
				if create {
					options = append(options, ResponseWriterWithCreateOutDirIfNotExists())
				}
				w := NewResponseWriter(slog.New(slog.NewTextHandler(io.Discard, nil)), storageos.NewProvider(storageos.ProviderWithSymlinks()), options...)
				desc := fmt.Sprintf("scenario %q (%s, createOutDirIfNotExists=%v)", sc.name, map[string]string{"": "nothing prepared", "parent-exists": "output directory exists", "parent-is-file": "a FILE where the output directory should be"}[sc.prepare], create)
				var addErr error
				addedAll := true
				for i, p := range sc.plugins {
					if err := w.AddResponse(context.Background(), vo17Response(p.files), spell(dir, p.out)); err != nil {
						addErr = err
						addedAll = false
						if sc.prepare == "" && create && parentMissing && sc.name != "insertion point into another location" {
							report("%s: AddResponse #%d (out %q) = %v although the missing directory is to be created (tree now: %v)", desc, i, p.out, err, vo17Tree(dir))
						}
						if sc.prepare == "parent-exists" && sc.name != "insertion point into another location" {
							report("%s: AddResponse #%d (out %q) = %v", desc, i, p.out, err)
						}
						break
					}
				}
				// nothing generated may be on disk before Close
				for _, e := range vo17Tree(dir) {
					if strings.HasSuffix(e, ".txt") || strings.HasSuffix(e, ".zip") || strings.HasSuffix(e, ".jar") {
						report("%s: %s exists on disk before Close", desc, e)
					}
				}
				if addedAll && sc.name == "insertion point into another location" {
					report("%s: an insertion point into a file that only another output location holds was accepted", desc)
				}
				if !addedAll {
					if sc.prepare == "" && !create && len(vo17Tree(dir)) != len(before) {
						report("%s: AddResponse failed (%v) but created %v", desc, addErr, vo17Tree(dir))
					}
					continue
				}
				closeErr := w.Close()
				if closeErr != nil {
					if sc.prepare == "parent-exists" || (sc.prepare == "" && create) {
						report("%s: Close = %v", desc, closeErr)
					}
					continue
				}
				// expected content per location
				expected := map[string]map[string]string{}
				for _, p := range sc.plugins {
					loc := filepath.Clean(strings.TrimPrefix(p.out, "ABS:"))
					if expected[loc] == nil {
						expected[loc] = map[string]string{}
					}
					for _, f := range p.files {
						if f[1] == "" {
							expected[loc][f[0]] = f[2]
						} else {
							expected[loc][f[0]] = "A\n  " + f[2] + "\n  // @@protoc_insertion_point(p)\nZ"
						}
					}
				}
				allowed := map[string]bool{}
				for _, e := range before {
					allowed[e] = true
				}
				for loc, files := range expected {
					if isArchive(loc) {
						allowed[loc] = true
						for d := filepath.Dir(loc); d != "."; d = filepath.Dir(d) {
							allowed[d+"/"] = true
						}
						entries, err := vo17ZipEntries(loc)
						if err != nil {
							report("%s: archive %s unreadable after Close: %v", desc, loc, err)
							continue
						}
						for name, content := range files {
							if entries[name] != content {
								report("%s: archive %s entry %s = %q, want %q", desc, loc, name, entries[name], content)
							}
						}
						_, hasManifest := entries["META-INF/MANIFEST.MF"]
						if hasManifest != (filepath.Ext(loc) == ".jar") {
							report("%s: archive %s manifest present = %v", desc, loc, hasManifest)
						}
						for name := range entries {
							if _, ok := files[name]; !ok && name != "META-INF/MANIFEST.MF" {
								report("%s: archive %s has the unexpected entry %s", desc, loc, name)
							}
						}
						continue
					}
					for d := loc; d != "."; d = filepath.Dir(d) {
						allowed[d+"/"] = true
					}
					for name, content := range files {
						p := filepath.Join(loc, name)
						allowed[p] = true
						for d := filepath.Dir(p); d != "."; d = filepath.Dir(d) {
							allowed[d+"/"] = true
						}
						data, err := os.ReadFile(p)
						if err != nil || string(data) != content {
							report("%s: %s = %q (%v), want %q", desc, p, string(data), err, content)
						}
					}
				}
				for _, e := range vo17Tree(dir) {
					if !allowed[e] {
						report("%s: %s was created outside the declared output locations", desc, e)
					}
				}
			}
		}
	case "DeleteOuts", "deleteOut", "validatePluginOut", "reallyCleanPath":
		type scenario struct {
			outs   []string
			refuse bool
		}
		scenarios := []scenario{
			{[]string{"."}, true}, {[]string{""}, true}, {[]string{"ABS:."}, true}, {[]string{"link-to-cwd"}, true}, {[]string{"gen/.."}, true}, {[]string{"./"}, true},
			{[]string{"gen", "."}, true}, {[]string{"gen", "ABS:."}, true},
			{[]string{"gen"}, false}, {[]string{"gen/sub"}, false}, {[]string{"arch/out.zip"}, false}, {[]string{"arch/out.jar", "gen"}, false}, {[]string{"missing"}, false},
			{[]string{"ABS:gen"}, false}, {[]string{"missing/out.zip"}, false}, {[]string{"top.zip"}, false},
		}
		for _, sc := range scenarios {
			tried++
			dir := scratch()
			for _, f := range []string{"keep.txt", "gen/a.txt", "gen/sub/b.txt", "gen2/c.txt", "arch/out.zip", "arch/out.jar", "arch/other.txt", "top.zip"} {
				os.MkdirAll(filepath.Dir(f), 0o755)
				os.WriteFile(f, []byte("x"), 0o644)
			}
			os.Symlink(dir, "link-to-cwd")
			before := vo17Tree(dir)
			var outs []string
			for _, o := range sc.outs {
				outs = append(outs, spell(dir, o))
			}
			err := NewCleaner(storageos.NewProvider(storageos.ProviderWithSymlinks())).DeleteOuts(context.Background(), outs)
			after := vo17Tree(dir)
			desc := fmt.Sprintf("DeleteOuts(%q) in a directory holding %v", sc.outs, before)
			if sc.refuse {
				if err == nil {
					report("%s = nil although an output location is the working directory", desc)
				}
				if strings.Join(after, " ") != strings.Join(before, " ") {
					report("%s (err %v) removed something: left %v", desc, err, after)
				}
				continue
			}
			if err != nil {
				report("%s = %v", desc, err)
				continue
			}
			gone := func(e string) bool {
				e = strings.TrimSuffix(e, "/")
				for _, o := range sc.outs {
					loc := filepath.Clean(strings.TrimPrefix(o, "ABS:"))
					if ext := filepath.Ext(loc); ext == ".zip" || ext == ".jar" {
						if e == loc {
							return true
						}
					} else if strings.HasPrefix(e, loc+"/") {
						return true
					}
				}
				return false
			}
			left := map[string]bool{}
			for _, e := range after {
				left[e] = true
			}
			for _, e := range before {
				if strings.HasPrefix(e, "link-to-cwd") {
					continue
				}
				if gone(e) && left[e] {
					report("%s left %s behind", desc, e)
				}
				if !gone(e) && !left[e] && !(strings.HasSuffix(e, "/") && func() bool {
					for _, o := range sc.outs {
						if filepath.Clean(strings.TrimPrefix(o, "ABS:"))+"/" == e {
							return true
						}
					}
					return false
				}()) {
					report("%s removed %s, which is not beneath a declared output location", desc, e)
				}
			}
		}
	default:
		fmt.Printf("VERIF-REPLAY no harness for %q\n", fn)
		return
	}
	if found == 0 {
		fmt.Printf("VERIF-REPLAY no failing input found for %s (%d scenarios)\n", fn, tried)
	} else {
		fmt.Printf("VERIF-REPLAY %d failing inputs in total for %s (%d tried)\n", found, fn, tried)
	}
}
