package bufmodulestore

// Replay / bounded contract run for the C09 obligations (module cache) injected with go test -overlay.
//
// The REAL store (NewModuleDataStore, directory and tar layout) is driven over a storagemem bucket wrapped in a
// fault-injecting, recording bucket:
//
//   - fault family: for three modules (one file; two files + a dependency; v1 buf.yaml/buf.lock side files) and
//     every k, the k-th write-side operation (Put / Write / Close) fails, once or from k on (disk full).
//     A failed Write of a non-atomic Put leaves half of the data visible, a failed Close of a non-atomic Put
//     leaves all of it visible (an error from close(2) after the bytes reached the file); an atomic Put leaves
//     nothing. Oracle: a store during which a write failed returns an error, a failed store never leaves the
//     entry readable as complete, and a later fault-free store of the same module repairs the entry.
//   - history family: the store runs on a cache that already holds other things (another module, a stray valid
//     module.yaml at the cache root, an invalid marker or a partial entry in the module's own directory).
//     Oracle: a successful store is followed by a read that finds the module with exactly its files, deps and
//     v1 side files; and (directory layout) the store reads nothing outside the module's own directory.
//   - tamper family (accessor obligations of bufmodule.moduleData): every single-file tampering of a complete
//     entry (flip, truncate, delete, add a file). Oracle: the entry reads as not cached, or every accessor
//     (Bucket, DepModuleKeys, V1Beta1OrV1BufYAMLObjectData, V1Beta1OrV1BufLockObjectData) fails before
//     handing out anything.

import (
	"bytes"
	"context"
	"errors"
	"fmt"
	"log/slog"
	"os"
	"sort"
	"strings"
	"testing"
	"time"

	"github.com/bufbuild/buf/private/bufpkg/bufmodule"
	"github.com/bufbuild/buf/private/bufpkg/bufmodule/bufmoduletesting"
	"github.com/bufbuild/buf/private/bufpkg/bufparse"
	"github.com/bufbuild/buf/private/pkg/filelock"
	"github.com/bufbuild/buf/private/pkg/storage"
	"github.com/bufbuild/buf/private/pkg/storage/storagemem"
)

// ----- fault-injecting, recording bucket -----

type vr09Bucket struct {
	storage.ReadWriteBucket        // the storagemem bucket
	failAt                  int    // index of the write-side operation that fails; -1: none
	sticky                  bool   // every operation from failAt on fails
	n                       int    // write-side operations seen
	fired                   string // description of the first injected failure
	reads                   []string
}

func (b *vr09Bucket) hit(what string) error {
	k := b.n
	b.n++
	if b.failAt >= 0 && (k == b.failAt || (b.sticky && k > b.failAt)) {
		if b.fired == "" {
			b.fired = fmt.Sprintf("write operation #%d (%s) fails", k, what)
			if b.sticky {
				b.fired += " and so does every later one"
			}
		}
		return errors.New("injected failure: " + what)
	}
	return nil
}

func (b *vr09Bucket) Get(ctx context.Context, path string) (storage.ReadObjectCloser, error) {
	b.reads = append(b.reads, path)
	return b.ReadWriteBucket.Get(ctx, path)
}

func (b *vr09Bucket) Stat(ctx context.Context, path string) (storage.ObjectInfo, error) {
	b.reads = append(b.reads, path)
	return b.ReadWriteBucket.Stat(ctx, path)
}

func (b *vr09Bucket) Put(ctx context.Context, path string, options ...storage.PutOption) (storage.WriteObjectCloser, error) {
	atomic := storage.NewPutOptions(options).Atomic()
	what := "Put " + path
	if atomic {
		what += " [atomic]"
	}
	if err := b.hit(what); err != nil {
		return nil, err
	}
	return &vr09Writer{b: b, path: path, atomic: atomic}, nil
}

type vr09Writer struct {
	b      *vr09Bucket
	path   string
	atomic bool
	buf    bytes.Buffer
	failed bool
	closed bool
}

func (w *vr09Writer) SetExternalPath(string) error { return errors.New("not supported") }
func (w *vr09Writer) SetLocalPath(string) error    { return errors.New("not supported") }

func (w *vr09Writer) flush() {
	_ = storage.PutPath(context.Background(), w.b.ReadWriteBucket, w.path, w.buf.Bytes())
}

func (w *vr09Writer) Write(p []byte) (int, error) {
	if err := w.b.hit("Write " + w.path); err != nil {
		w.failed = true
		if !w.atomic {
			w.buf.Write(p[:len(p)/2])
			w.flush()
		}
		return len(p) / 2, err
	}
	w.buf.Write(p)
	return len(p), nil
}

func (w *vr09Writer) Close() error {
	if w.closed {
		return nil
	}
	w.closed = true
	if err := w.b.hit("Close " + w.path); err != nil {
		if !w.atomic {
			w.flush()
		}
		return err
	}
	if w.failed && w.atomic {
		return nil
	}
	w.flush()
	return nil
}

// ----- modules -----

type vr09Module struct {
	desc  string
	key   bufmodule.ModuleKey
	data  bufmodule.ModuleData
	files map[string]string
	deps  []string
	yaml  string
	lock  string
}

func vr09Modules(ctx context.Context) ([]*vr09Module, error) {
	bufYAML, err := bufmodule.NewObjectData("buf.yaml", []byte("version: v1\nname: buf.build/foo/side\n"))
	if err != nil {
		return nil, err
	}
	bufLock, err := bufmodule.NewObjectData("buf.lock", []byte("version: v1\n"))
	if err != nil {
		return nil, err
	}
	specs := []bufmoduletesting.ModuleData{
		{Name: "buf.build/foo/one", PathToData: map[string][]byte{"one.proto": []byte("syntax = \"proto3\"; package one; message One {}")}},
		{Name: "buf.build/foo/two", PathToData: map[string][]byte{
			"two.proto":     []byte("syntax = \"proto3\"; package two; import \"one.proto\"; message Two { one.One one = 1; }"),
			"dir/two2.proto": []byte("syntax = \"proto3\"; package two; message Two2 {}"),
		}},
		{Name: "buf.build/foo/side", PathToData: map[string][]byte{"side.proto": []byte("syntax = \"proto3\"; package side;")}, BufYAMLObjectData: bufYAML, BufLockObjectData: bufLock},
	}
	provider, err := bufmoduletesting.NewOmniProvider(specs...)
	if err != nil {
		return nil, err
	}
	var out []*vr09Module
	for _, spec := range specs {
		parts := strings.Split(spec.Name, "/")
		ref, err := bufparse.NewRef(parts[0], parts[1], parts[2], "")
		if err != nil {
			return nil, err
		}
		keys, err := provider.GetModuleKeysForModuleRefs(ctx, []bufparse.Ref{ref}, bufmodule.DigestTypeB5)
		if err != nil {
			return nil, err
		}
		datas, err := provider.GetModuleDatasForModuleKeys(ctx, keys)
		if err != nil {
			return nil, err
		}
		m := &vr09Module{desc: spec.Name, key: keys[0], data: datas[0], files: map[string]string{}}
		for p, d := range spec.PathToData {
			m.files[p] = string(d)
		}
		depKeys, err := datas[0].DepModuleKeys()
		if err != nil {
			return nil, err
		}
		for _, k := range depKeys {
			m.deps = append(m.deps, k.String())
		}
		sort.Strings(m.deps)
		if spec.BufYAMLObjectData != nil {
			m.yaml, m.lock = string(spec.BufYAMLObjectData.Data()), string(spec.BufLockObjectData.Data())
		}
		m.desc = fmt.Sprintf("%s (%d files, %d deps, v1 side files=%v)", spec.Name, len(m.files), len(m.deps), m.yaml != "")
		out = append(out, m)
	}
	return out, nil
}

// read outcome: "" when the module is not cached; otherwise a description of what the read hands out, and whether
// it is exactly the module.
func vr09Read(ctx context.Context, store ModuleDataStore, m *vr09Module) (found bool, exact bool, detail string) {
	datas, _, err := store.GetModuleDatasForModuleKeys(ctx, []bufmodule.ModuleKey{m.key})
	if err != nil {
		return false, false, "GetModuleDatasForModuleKeys fails: " + err.Error()
	}
	if len(datas) == 0 {
		return false, false, "not cached"
	}
	got := datas[0]
	var problems []string
	bucket, err := got.Bucket()
	if err != nil {
		problems = append(problems, "Bucket(): "+err.Error())
	} else {
		files := map[string]string{}
		_ = storage.WalkReadObjects(ctx, bucket, "", func(o storage.ReadObject) error {
			var b bytes.Buffer
			_, _ = b.ReadFrom(o)
			files[o.Path()] = b.String()
			return nil
		})
		for p, d := range m.files {
			if g, ok := files[p]; !ok {
				problems = append(problems, "file "+p+" is missing")
			} else if g != d {
				problems = append(problems, fmt.Sprintf("file %s has content %q", p, g))
			}
		}
		for p := range files {
			if _, ok := m.files[p]; !ok {
				problems = append(problems, "extra file "+p)
			}
		}
	}
	depKeys, err := got.DepModuleKeys()
	if err != nil {
		problems = append(problems, "DepModuleKeys(): "+err.Error())
	} else {
		var deps []string
		for _, k := range depKeys {
			deps = append(deps, k.String())
		}
		sort.Strings(deps)
		if fmt.Sprint(deps) != fmt.Sprint(m.deps) {
			problems = append(problems, fmt.Sprintf("deps are %v", deps))
		}
	}
	for _, side := range []struct {
		name string
		get  func() (bufmodule.ObjectData, error)
		want string
	}{{"buf.yaml", got.V1Beta1OrV1BufYAMLObjectData, m.yaml}, {"buf.lock", got.V1Beta1OrV1BufLockObjectData, m.lock}} {
		od, err := side.get()
		switch {
		case err != nil:
			problems = append(problems, "v1 "+side.name+": "+err.Error())
		case od == nil && side.want != "":
			problems = append(problems, "v1 "+side.name+" is missing")
		case od != nil && string(od.Data()) != side.want:
			problems = append(problems, fmt.Sprintf("v1 %s has content %q", side.name, od.Data()))
		}
	}
	sort.Strings(problems)
	if len(problems) == 0 {
		return true, true, "complete and exact"
	}
	return true, false, vr09Short(errors.New(strings.Join(problems, "; ")))
}

type vr09 struct{ found int }

func (v *vr09) report(format string, a ...any) {
	if v.found < 4 {
		fmt.Printf("VERIF-REPLAY FAILING-INPUT "+format+"\n", a...)
	}
	v.found++
}

func vr09Store(b *vr09Bucket, tar bool) ModuleDataStore {
	logger := slog.New(slog.NewTextHandler(bytes.NewBuffer(nil), nil))
	var options []ModuleDataStoreOption
	if tar {
		options = append(options, ModuleDataStoreWithTar())
	}
	return NewModuleDataStore(logger, b, filelock.NewNopLocker(), options...)
}

func vr09Layout(tar bool) string {
	if tar {
		return "tar layout"
	}
	return "directory layout"
}

func vr09Faults(ctx context.Context, v *vr09, modules []*vr09Module) int {
	tried := 0
	for _, tar := range []bool{false, true} {
		for _, m := range modules {
			// fault-free run: counts the operations and must round-trip
			clean := &vr09Bucket{ReadWriteBucket: storagemem.NewReadWriteBucket(), failAt: -1}
			store := vr09Store(clean, tar)
			if err := store.PutModuleDatas(ctx, []bufmodule.ModuleData{m.data}); err != nil {
				v.report("%s, module %s: a store on an empty healthy cache fails: %v", vr09Layout(tar), m.desc, err)
				continue
			}
			if found, exact, detail := vr09Read(ctx, store, m); !found || !exact {
				v.report("%s, module %s: after a successful store on an empty healthy cache the read yields: %s", vr09Layout(tar), m.desc, detail)
				continue
			}
			total := clean.n
			for _, sticky := range []bool{false, true} {
				for k := 0; k < total; k++ {
					tried++
					b := &vr09Bucket{ReadWriteBucket: storagemem.NewReadWriteBucket(), failAt: k, sticky: sticky}
					store := vr09Store(b, tar)
					err := store.PutModuleDatas(ctx, []bufmodule.ModuleData{m.data})
					if b.fired == "" {
						continue
					}
					input := fmt.Sprintf("%s, store of module %s where %s", vr09Layout(tar), m.desc, b.fired)
					b.failAt = -1 // the cache is healthy again for the reads and the repair
					found, exact, detail := vr09Read(ctx, store, m)
					if err == nil {
						v.report("%s: the store reports success although a write failed (a later read yields: %s)", input, detail)
						continue
					}
					if found {
						v.report("%s: the store fails (%v) but leaves the entry marked complete; a later read finds the module (%s)", input, vr09Short(err), detail)
						continue
					}
					// a later store repairs the entry
					if err := store.PutModuleDatas(ctx, []bufmodule.ModuleData{m.data}); err != nil {
						v.report("%s: a later fault-free store of the same module fails: %v", input, vr09Short(err))
						continue
					}
					if found, exact, detail = vr09Read(ctx, store, m); !found || !exact {
						v.report("%s: a later fault-free store of the same module does not repair the entry; the read yields: %s", input, detail)
					}
				}
			}
		}
	}
	return tried
}

func vr09Short(err error) string {
	s := strings.Join(strings.Fields(err.Error()), " ")
	if len(s) > 200 {
		s = s[:200] + "..."
	}
	return s
}

func vr09Histories(ctx context.Context, v *vr09, modules []*vr09Module) int {
	tried := 0
	validMarker := "version: v1\nfiles_dir: files\n"
	for _, tar := range []bool{false, true} {
		for i, m := range modules {
			dirPath, err := getModuleDataStoreDirPath(m.key)
			if err != nil {
				continue
			}
			other := modules[(i+1)%len(modules)]
			type history struct {
				desc  string
				setup func(b *vr09Bucket, store ModuleDataStore) error
			}
			histories := []history{
				{"an empty cache", func(*vr09Bucket, ModuleDataStore) error { return nil }},
				{"a cache that already holds module " + other.desc, func(_ *vr09Bucket, s ModuleDataStore) error {
					return s.PutModuleDatas(ctx, []bufmodule.ModuleData{other.data})
				}},
				{fmt.Sprintf("a cache with a stray file module.yaml = %q at the cache root", validMarker), func(b *vr09Bucket, _ ModuleDataStore) error {
					return storage.PutPath(ctx, b.ReadWriteBucket, "module.yaml", []byte(validMarker))
				}},
				{"a cache whose directory of this module holds an invalid module.yaml (\"version: v0\")", func(b *vr09Bucket, _ ModuleDataStore) error {
					return storage.PutPath(ctx, b.ReadWriteBucket, dirPath+"/module.yaml", []byte("version: v0\n"))
				}},
				{"a cache whose directory of this module holds a partial entry (first file half written, no module.yaml)", func(b *vr09Bucket, _ ModuleDataStore) error {
					var names []string
					for p := range m.files {
						names = append(names, p)
					}
					sort.Strings(names)
					return storage.PutPath(ctx, b.ReadWriteBucket, dirPath+"/files/"+names[0], []byte(m.files[names[0]][:len(m.files[names[0]])/2]))
				}},
			}
			for _, h := range histories {
				tried++
				b := &vr09Bucket{ReadWriteBucket: storagemem.NewReadWriteBucket(), failAt: -1}
				store := vr09Store(b, tar)
				if err := h.setup(b, store); err != nil {
					continue
				}
				b.reads = nil
				input := fmt.Sprintf("%s, store of module %s into %s", vr09Layout(tar), m.desc, h.desc)
				if err := store.PutModuleDatas(ctx, []bufmodule.ModuleData{m.data}); err != nil {
					v.report("%s fails: %v", input, vr09Short(err))
					continue
				}
				if !tar {
					for _, p := range b.reads {
						if p != dirPath && !strings.HasPrefix(p, dirPath+"/") {
							v.report("%s: the store reads %q, which is outside the module's cache directory %q (the completeness check must look at the module's own module.yaml)", input, p, dirPath)
							break
						}
					}
				}
				if found, exact, detail := vr09Read(ctx, store, m); !found || !exact {
					v.report("%s reports success, but a subsequent read yields: %s", input, detail)
				}
			}
		}
	}
	return tried
}

func vr09Tamper(ctx context.Context, v *vr09, modules []*vr09Module) int {
	tried := 0
	for _, tar := range []bool{false} {
		for _, m := range modules {
			base := storagemem.NewReadWriteBucket()
			b := &vr09Bucket{ReadWriteBucket: base, failAt: -1}
			store := vr09Store(b, tar)
			if err := store.PutModuleDatas(ctx, []bufmodule.ModuleData{m.data}); err != nil {
				continue
			}
			dirPath, _ := getModuleDataStoreDirPath(m.key)
			var paths []string
			_ = base.Walk(ctx, dirPath+"/files", func(o storage.ObjectInfo) error { paths = append(paths, o.Path()); return nil })
			type tamper struct {
				desc  string
				apply func(bucket storage.ReadWriteBucket) error
			}
			var tampers []tamper
			for _, p := range paths {
				p := p
				tampers = append(tampers,
					tamper{"flip the last byte of " + p, func(bk storage.ReadWriteBucket) error {
						d, err := storage.ReadPath(ctx, bk, p)
						if err != nil {
							return err
						}
						d[len(d)-1] ^= 1
						return storage.PutPath(ctx, bk, p, d)
					}},
					tamper{"truncate " + p, func(bk storage.ReadWriteBucket) error {
						d, err := storage.ReadPath(ctx, bk, p)
						if err != nil {
							return err
						}
						return storage.PutPath(ctx, bk, p, d[:len(d)/2])
					}},
					tamper{"delete " + p, func(bk storage.ReadWriteBucket) error { return bk.Delete(ctx, p) }},
				)
			}
			tampers = append(tampers, tamper{"add " + dirPath + "/files/extra.proto", func(bk storage.ReadWriteBucket) error {
				return storage.PutPath(ctx, bk, dirPath+"/files/extra.proto", []byte("syntax = \"proto3\";"))
			}})
			for _, tm := range tampers {
				tried++
				copyBucket := storagemem.NewReadWriteBucket()
				if _, err := storage.Copy(ctx, base, copyBucket); err != nil {
					continue
				}
				if err := tm.apply(copyBucket); err != nil {
					continue
				}
				store := vr09Store(&vr09Bucket{ReadWriteBucket: copyBucket, failAt: -1}, tar)
				datas, _, _ := store.GetModuleDatasForModuleKeys(ctx, []bufmodule.ModuleKey{m.key})
				if len(datas) == 0 {
					continue // not cached
				}
				input := fmt.Sprintf("%s, complete entry of module %s, then %s", vr09Layout(tar), m.desc, tm.desc)
				// every accessor on its own, each on a fresh read (the check is lazy and memoised)
				for _, acc := range []string{"Bucket", "DepModuleKeys", "V1Beta1OrV1BufYAMLObjectData", "V1Beta1OrV1BufLockObjectData"} {
					datas, _, _ := store.GetModuleDatasForModuleKeys(ctx, []bufmodule.ModuleKey{m.key})
					if len(datas) == 0 {
						break
					}
					var err error
					switch acc {
					case "Bucket":
						_, err = datas[0].Bucket()
					case "DepModuleKeys":
						_, err = datas[0].DepModuleKeys()
					case "V1Beta1OrV1BufYAMLObjectData":
						_, err = datas[0].V1Beta1OrV1BufYAMLObjectData()
					case "V1Beta1OrV1BufLockObjectData":
						_, err = datas[0].V1Beta1OrV1BufLockObjectData()
					}
					if err == nil {
						v.report("%s: the read finds the module and ModuleData.%s() succeeds although the content no longer has the key's digest (the digest must be verified before any accessor answers)", input, acc)
					}
				}
			}
		}
	}
	return tried
}

// ----- commit store (ca-U) -----
//
//   - invalid-file family: the commit file of a requested key holds something that is not a valid record of the
//     current version for that key (empty, corrupted JSON, incomplete / other version, unparsable digest, digest of
//     another digest type). Oracle: the read reports the key as NOT FOUND (or fails) - it never reports a hit without a
//     Commit; the invalid file is evicted; a later store of the commit repairs the entry.
//   - fault family: the k-th write-side operation of PutCommits fails. Oracle: the store reports the failure, the
//     commit is not readable afterwards, a later fault-free store repairs it.
//   - pinned-digest family: a commit cached for a module key is read through a module key with another digest.
//     Oracle: the digest of the returned Commit's ModuleKey fails (DigestMismatchError), it never yields a digest.
func vr09Commits(ctx context.Context, v *vr09, modules []*vr09Module) int {
	tried := 0
	logger := slog.New(slog.NewTextHandler(bytes.NewBuffer(nil), nil))
	createTime := time.Date(2024, 1, 2, 3, 4, 5, 0, time.UTC)
	for _, m := range modules {
		m := m
		commit := bufmodule.NewCommit(m.key, func() (time.Time, error) { return createTime, nil })
		commitKey, err := bufmodule.ModuleKeyToCommitKey(m.key)
		if err != nil {
			continue
		}
		filePath := getCommitStoreDirPath(commitKey) + "/" + getCommitStoreFilePath(commitKey)
		digest, err := m.key.Digest()
		if err != nil {
			continue
		}
		// fault-free round trip
		clean := &vr09Bucket{ReadWriteBucket: storagemem.NewReadWriteBucket(), failAt: -1}
		store := NewCommitStore(logger, clean)
		if err := store.PutCommits(ctx, []bufmodule.Commit{commit}); err != nil {
			v.report("commit store, commit of module %s: a store on an empty healthy cache fails: %v", m.desc, vr09Short(err))
			continue
		}
		validFile, err := storage.ReadPath(ctx, clean.ReadWriteBucket, filePath)
		if err != nil {
			v.report("commit store, commit of module %s: after a successful store the commit file %s does not exist", m.desc, filePath)
			continue
		}
		readBack := func(store CommitStore, input string) (found bool) {
			for _, via := range []string{"GetCommitsForCommitKeys", "GetCommitsForModuleKeys"} {
				var commits []bufmodule.Commit
				var missing int
				var err error
				if via == "GetCommitsForCommitKeys" {
					var nf []bufmodule.CommitKey
					commits, nf, err = store.GetCommitsForCommitKeys(ctx, []bufmodule.CommitKey{commitKey})
					missing = len(nf)
				} else {
					var nf []bufmodule.ModuleKey
					commits, nf, err = store.GetCommitsForModuleKeys(ctx, []bufmodule.ModuleKey{m.key})
					missing = len(nf)
				}
				if err != nil {
					continue // an error is not a hit
				}
				if len(commits)+missing != 1 {
					v.report("%s: %s answers with %d found and %d not found for 1 key", input, via, len(commits), missing)
					continue
				}
				if len(commits) == 1 {
					found = true
					if commits[0] == nil {
						v.report("%s: %s reports the key as FOUND with a nil Commit and no error (an invalid commit file must be a miss)", input, via)
						continue
					}
					gotDigest, err := commits[0].ModuleKey().Digest()
					if err != nil || !bufmodule.DigestEqual(gotDigest, digest) || commits[0].ModuleKey().CommitID() != m.key.CommitID() {
						v.report("%s: %s finds a commit that is not the stored one (digest %v, err %v)", input, via, gotDigest, err)
					}
				}
			}
			return found
		}
		if !readBack(store, fmt.Sprintf("commit store, commit of module %s stored on an empty cache", m.desc)) {
			v.report("commit store, commit of module %s: after a successful store the commit is not found", m.desc)
		}
		// invalid-file family
		otherType := strings.Replace(string(validFile), "\"digest\":\"b5:", "\"digest\":\"shake256:", 1)
		invalids := []struct{ desc, content string }{
			{"an empty file", ""},
			{"corrupted JSON", string(validFile[:len(validFile)/2])},
			{"an incomplete record without version: " + `{"owner":"foo","module":"bar"}`, `{"owner":"foo","module":"bar"}`},
			{"a record of another version (v0)", strings.Replace(string(validFile), "\"version\":\"v1\"", "\"version\":\"v0\"", 1)},
			{"a record with an unparsable digest", strings.Replace(string(validFile), "\"digest\":\"b5:", "\"digest\":\"zz:", 1)},
			{"a record whose digest has another digest type (b4) than the key (b5)", otherType},
		}
		for _, inv := range invalids {
			if inv.content == string(validFile) {
				continue
			}
			tried++
			b := &vr09Bucket{ReadWriteBucket: storagemem.NewReadWriteBucket(), failAt: -1}
			if err := storage.PutPath(ctx, b.ReadWriteBucket, filePath, []byte(inv.content)); err != nil {
				continue
			}
			store := NewCommitStore(logger, b)
			input := fmt.Sprintf("commit store, key of module %s, commit file %s holds %s", m.desc, filePath, inv.desc)
			if readBack(store, input) {
				continue // reported above if it was a nil / wrong commit
			}
			if err := store.PutCommits(ctx, []bufmodule.Commit{commit}); err != nil {
				v.report("%s: a later store of the commit fails: %v", input, vr09Short(err))
				continue
			}
			if !readBack(store, input+", then a store of the commit") {
				v.report("%s: a later store of the commit does not repair the entry (still not found)", input)
			}
		}
		// fault family
		total := clean.n
		for _, sticky := range []bool{false, true} {
			for k := 0; k < total; k++ {
				tried++
				b := &vr09Bucket{ReadWriteBucket: storagemem.NewReadWriteBucket(), failAt: k, sticky: sticky}
				store := NewCommitStore(logger, b)
				err := store.PutCommits(ctx, []bufmodule.Commit{commit})
				if b.fired == "" {
					continue
				}
				input := fmt.Sprintf("commit store, store of the commit of module %s where %s", m.desc, b.fired)
				b.failAt = -1
				if err == nil {
					v.report("%s: the store reports success although a write failed", input)
					continue
				}
				if readBack(store, input) {
					v.report("%s: the store fails (%v) but the commit is readable afterwards", input, vr09Short(err))
					continue
				}
				if err := store.PutCommits(ctx, []bufmodule.Commit{commit}); err != nil || !readBack(store, input+", then a fault-free store") {
					v.report("%s: a later fault-free store does not repair the entry (err %v)", input, err)
				}
			}
		}
		// pinned-digest family: same name and commit ID, the digest of another module
		for _, other := range modules {
			if other == m {
				continue
			}
			tried++
			otherDigest, err := other.key.Digest()
			if err != nil {
				continue
			}
			pinned, err := bufmodule.NewModuleKey(m.key.FullName(), m.key.CommitID(), func() (bufmodule.Digest, error) { return otherDigest, nil })
			if err != nil {
				continue
			}
			b := &vr09Bucket{ReadWriteBucket: storagemem.NewReadWriteBucket(), failAt: -1}
			store := NewCommitStore(logger, b)
			if err := store.PutCommits(ctx, []bufmodule.Commit{commit}); err != nil {
				continue
			}
			commits, _, err := store.GetCommitsForModuleKeys(ctx, []bufmodule.ModuleKey{pinned})
			if err != nil || len(commits) == 0 || commits[0] == nil {
				continue
			}
			if d, err := commits[0].ModuleKey().Digest(); err == nil {
				v.report("commit store, commit of module %s cached, read through a module key pinning the digest of %s: the returned commit yields digest %v without a mismatch error", m.desc, other.desc, d)
			}
		}
	}
	return tried
}

func TestVerifReplayC09(t *testing.T) {
	fn := os.Getenv("VERIF_REPLAY_FUNC")
	ctx := context.Background()
	modules, err := vr09Modules(ctx)
	if err != nil {
		fmt.Printf("VERIF-REPLAY cannot build the test modules: %v\n", err)
		return
	}
	v := &vr09{}
	tried := 0
	switch fn {
	case "putModuleData", "PutModuleDatas", "getModuleDataForModuleKey", "GetModuleDatasForModuleKeys",
		"getWriteBucketAndCallbackForTar", "getReadBucketForTar", "PutPath", "ReadPath", "Copy":
		tried += vr09Faults(ctx, v, modules)
		tried += vr09Histories(ctx, v, modules)
		if fn == "getModuleDataForModuleKey" || fn == "GetModuleDatasForModuleKeys" {
			tried += vr09Tamper(ctx, v, modules)
		}
	case "getCommitForCommitKey", "GetCommitsForCommitKeys", "GetCommitsForModuleKeys", "putCommit", "PutCommits",
		"deleteInvalidCommitFile", "getReadWriteBucketForDir", "getCommitStoreDirPath", "getCommitStoreFilePath", "newCommit", "NewCommit":
		tried += vr09Commits(ctx, v, modules)
	case "Bucket", "DepModuleKeys", "V1Beta1OrV1BufYAMLObjectData", "V1Beta1OrV1BufLockObjectData", "newModuleData", "NewModuleData", "checkDigest":
		tried += vr09Tamper(ctx, v, modules)
	default:
		fmt.Printf("VERIF-REPLAY no harness for %q\n", fn)
		return
	}
	if v.found == 0 {
		fmt.Printf("VERIF-REPLAY no failing input found for %s (%d scenarios)\n", fn, tried)
	} else {
		fmt.Printf("VERIF-REPLAY %d failing scenarios in total for %s (%d tried)\n", v.found, fn, tried)
	}
}
