package bufmodule

// Replay / bounded contract run for the C10 obligations of package bufmodule; injected with go test -overlay.
//
// Inputs: generated module sets - 2..4 modules (named and unnamed, OpaqueID order different from dependency
// order), two .proto files each, EVERY acyclic inter-module import graph on up to four modules (chains, fans,
// diamonds), imports inside a module, well-known-type imports with and without a module that supplies the
// file, a path supplied by two modules (imported / not imported, the second supplier reachable or not), an
// import nobody supplies, import cycles of length two and three, a module whose storage fails; candidate lists
// of up to three local/remote target/non-target modules with one name and remote commits of different age.
//
// Oracle (from the C10 statement): ModuleDeps() of a module = exactly the modules reachable through the import
// statements of its files, flagged direct iff one of its own files imports a file of that module; a path
// supplied by two modules, an import nobody supplies (other than a well-known type) and an import cycle are
// errors (DuplicateProtoPathError / ImportNotExistError / ModuleCycleError); among same-named candidates a
// target beats a non-target, then local beats remote (first added wins), then the newest remote commit.

import (
	"context"
	"errors"
	"fmt"
	"io"
	"io/fs"
	"log/slog"
	"os"
	"sort"
	"strings"
	"testing"
	"time"

	"github.com/bufbuild/buf/private/bufpkg/bufparse"
	"github.com/bufbuild/buf/private/pkg/storage"
	"github.com/bufbuild/buf/private/pkg/storage/storagemem"
	"github.com/google/uuid"
)

var c10Logger = slog.New(slog.NewTextHandler(io.Discard, nil))

type c10File struct {
	path    string
	imports []string
}

type c10Module struct {
	name    string // full name, or "" (unnamed: the OpaqueID is the bucket ID)
	id      string // the expected OpaqueID
	files   []c10File
	failing string // a path for which the module's storage fails with c10Boom
}

type c10Workspace struct {
	modules []c10Module
}

var errC10Boom = errors.New("storage failure (planted)")

type c10FailingBucket struct {
	storage.ReadBucket
	path string
}

func (b *c10FailingBucket) Stat(ctx context.Context, path string) (storage.ObjectInfo, error) {
	if path == b.path {
		return nil, errC10Boom
	}
	return b.ReadBucket.Stat(ctx, path)
}

func (b *c10FailingBucket) Get(ctx context.Context, path string) (storage.ReadObjectCloser, error) {
	if path == b.path {
		return nil, errC10Boom
	}
	return b.ReadBucket.Get(ctx, path)
}

func c10Source(f c10File) string {
	var b strings.Builder
	b.WriteString("syntax = \"proto3\";\n")
	fmt.Fprintf(&b, "package %s;\n", strings.NewReplacer("/", "_", ".", "_").Replace(f.path))
	for _, imp := range f.imports {
		fmt.Fprintf(&b, "import %q;\n", imp)
	}
	return b.String()
}

func (w *c10Workspace) describe() string {
	var parts []string
	for _, m := range w.modules {
		var files []string
		for _, f := range m.files {
			if len(f.imports) > 0 {
				files = append(files, fmt.Sprintf("%s[import %s]", f.path, strings.Join(f.imports, ", ")))
			} else {
				files = append(files, f.path)
			}
		}
		extra := ""
		if m.failing != "" {
			extra = fmt.Sprintf(" (storage fails for %s)", m.failing)
		}
		parts = append(parts, fmt.Sprintf("%s{%s}%s", m.id, strings.Join(files, " "), extra))
	}
	return "module set {" + strings.Join(parts, "; ") + "}"
}

func (w *c10Workspace) build(ctx context.Context) (ModuleSet, error) {
	builder := NewModuleSetBuilder(ctx, c10Logger, NopModuleDataProvider, NopCommitProvider)
	for i := range w.modules {
		m := &w.modules[i]
		data := map[string][]byte{}
		for _, f := range m.files {
			data[f.path] = []byte(c10Source(f))
		}
		var bucket storage.ReadBucket
		bucket, err := storagemem.NewReadBucket(data)
		if err != nil {
			return nil, err
		}
		if m.failing != "" {
			bucket = &c10FailingBucket{ReadBucket: bucket, path: m.failing}
		}
		bucketID := fmt.Sprintf("bucket-%d", i)
		var options []LocalModuleOption
		if m.name != "" {
			fullName, err := bufparse.ParseFullName(m.name)
			if err != nil {
				return nil, err
			}
			options = append(options, LocalModuleWithFullNameAndCommitID(fullName, uuid.New()))
		}
		builder.AddLocalModule(bucket, bucketID, i == 0, options...)
	}
	return builder.Build()
}

type c10Failure struct {
	tag  string
	text string
}

type c10Run struct {
	failures []c10Failure
	checked  int
}

func (r *c10Run) fail(tag string, format string, a ...any) {
	r.failures = append(r.failures, c10Failure{tag, fmt.Sprintf(format, a...)})
}

func (w *c10Workspace) providers(path string) []int {
	var out []int
	for i, m := range w.modules {
		for _, f := range m.files {
			if f.path == path {
				out = append(out, i)
				break
			}
		}
	}
	return out
}

var c10WKT = map[string]bool{
	"google/protobuf/timestamp.proto": true,
	"google/protobuf/duration.proto":  true,
	"google/protobuf/any.proto":       true,
}

// expectation for ModuleDeps() of module i: the dependency map (id -> direct) or the kind of error
func (w *c10Workspace) expected(i int) (map[string]bool, string) {
	deps := map[string]bool{}
	errKind := ""
	onStack := map[int]bool{}
	visited := map[int]bool{}
	var visit func(m int, direct bool)
	visit = func(m int, direct bool) {
		if onStack[m] {
			// ModuleDeps() of a module reports the cycles that module is part of; a cycle among its
			// dependencies only is reported by ModuleDeps() of the modules on that cycle
			if errKind == "" && m == i {
				errKind = "cycle"
			}
			return
		}
		if visited[m] {
			return
		}
		visited[m] = true
		onStack[m] = true
		var next []int
		for _, f := range w.modules[m].files {
			for _, imp := range f.imports {
				ps := w.providers(imp)
				switch {
				case len(ps) == 0:
					if !c10WKT[imp] && errKind == "" {
						errKind = "import-not-exist:" + imp
					}
				case len(ps) > 1:
					if errKind == "" {
						errKind = "duplicate:" + imp
					}
				default:
					if ps[0] != m {
						if _, ok := deps[w.modules[ps[0]].id]; !ok && ps[0] != i {
							deps[w.modules[ps[0]].id] = direct
						}
						next = append(next, ps[0])
					}
				}
			}
		}
		for _, n := range next {
			visit(n, false)
		}
		onStack[m] = false
	}
	visit(i, true)
	if errKind == "" {
		// a path held by two modules of the dependency closure
		seen := map[string]int{}
		for m := range visited {
			for _, f := range w.modules[m].files {
				if other, ok := seen[f.path]; ok && other != m {
					errKind = "duplicate:" + f.path
				}
				seen[f.path] = m
			}
		}
	}
	return deps, errKind
}

func c10ErrKind(err error) string {
	var dup *DuplicateProtoPathError
	var notExist *ImportNotExistError
	var cycle *ModuleCycleError
	switch {
	case err == nil:
		return ""
	case errors.As(err, &cycle):
		return "cycle"
	case errors.As(err, &dup):
		return "duplicate:" + dup.ProtoPath
	case errors.As(err, &notExist):
		return "import-not-exist:" + notExist.importPath
	default:
		return "other:" + err.Error()
	}
}

func (r *c10Run) checkDeps(ctx context.Context, w *c10Workspace) {
	r.checked++
	mset, err := w.build(ctx)
	if err != nil {
		// the builder may already reject the set (e.g. duplicate paths among all modules are found lazily, so this is rare)
		fmt.Printf("VERIF-REPLAY generator note: %s does not build: %v\n", w.describe(), err)
		return
	}
	for i, wm := range w.modules {
		module := mset.GetModuleForOpaqueID(wm.id)
		if module == nil {
			r.fail("GetModuleForOpaqueID Modules OpaqueID", "%s: GetModuleForOpaqueID(%q) = nil", w.describe(), wm.id)
			continue
		}
		wantDeps, wantErr := w.expected(i)
		moduleDeps, err := module.ModuleDeps()
		gotErr := c10ErrKind(err)
		if wantErr != "" {
			ok := gotErr == wantErr
			if strings.HasPrefix(wantErr, "duplicate:") && strings.HasPrefix(gotErr, "duplicate:") {
				ok = true
			}
			if !ok {
				var got []string
				for _, d := range moduleDeps {
					got = append(got, d.OpaqueID())
				}
				tag := "duplicate-is-error success-means-unique duplicate-path-is-error two-providers-is-error errors-not-swallowed other-error-returned"
				if !strings.HasPrefix(wantErr, "duplicate:") {
					tag = "none-is-not-exist inv-step"
				}
				r.fail(tag, "%s: ModuleDeps() of %s: want the error %s, got err=%q deps=%v", w.describe(), wm.id, wantErr, gotErr, got)
			}
			continue
		}
		if err != nil {
			r.fail("clean-is-nil unique-provider none-is-not-exist", "%s: ModuleDeps() of %s: unexpected error %q; want dependencies %v (true = direct)", w.describe(), wm.id, err.Error(), wantDeps)
			continue
		}
		got := map[string]bool{}
		for _, d := range moduleDeps {
			got[d.OpaqueID()] = d.IsDirect()
		}
		if fmt.Sprint(got) != fmt.Sprint(wantDeps) {
			tag := "inv-step new-deps-are-fresh-records existing-deps-kept unique-provider success-means-unique old-deps-frame newModuleDep"
			r.fail(tag, "%s: ModuleDeps() of %s = %v, want %v (module -> is direct; exactly the modules reachable through imports)", w.describe(), wm.id, got, wantDeps)
			continue
		}
		for _, d := range moduleDeps {
			// (The ModuleDep documentation says that Parent() is the top-level module also for transitive
			// dependencies; the pinned code records the intermediate module there. Only the first hop is checked.)
			if d.IsDirect() && (d.Parent() == nil || d.Parent().OpaqueID() != wm.id) {
				r.fail("newModuleDep new-deps-are-fresh-records inv-step", "%s: ModuleDeps() of %s: direct dependency %s has parent %v", w.describe(), wm.id, d.OpaqueID(), d.Parent())
			}
		}
	}
}

var c10Names = []string{"buf.build/acme/zeta", "", "buf.build/acme/mid", "buf.build/acme/alpha"}
var c10Dirs = []string{"zeta", "local", "mid", "alpha"}

// module i: <dir>/a.proto (imports <dir>/b.proto) and <dir>/b.proto; the inter-module imports alternate between the two files
func c10Graph(n int, edges [][2]int) *c10Workspace {
	w := &c10Workspace{}
	for i := 0; i < n; i++ {
		d := c10Dirs[i]
		w.modules = append(w.modules, c10Module{
			name: c10Names[i],
			files: []c10File{
				{path: d + "/a.proto", imports: []string{d + "/b.proto"}},
				{path: d + "/b.proto"},
			},
		})
	}
	for k, e := range edges {
		target := c10Dirs[e[1]] + "/a.proto"
		if k%3 == 1 {
			target = c10Dirs[e[1]] + "/b.proto"
		}
		file := k % 2
		w.modules[e[0]].files[file].imports = append(w.modules[e[0]].files[file].imports, target)
	}
	return c10FixIDs(w)
}

func c10AllDAGs(n int) [][][2]int {
	var pairs [][2]int
	for i := 0; i < n; i++ {
		for j := i + 1; j < n; j++ {
			pairs = append(pairs, [2]int{i, j})
		}
	}
	var out [][][2]int
	for mask := 0; mask < 1<<len(pairs); mask++ {
		var edges [][2]int
		for b, p := range pairs {
			if mask&(1<<b) != 0 {
				// orientation varies so that OpaqueID order and dependency order disagree
				if (mask+b)%2 == 0 {
					edges = append(edges, p)
				} else {
					edges = append(edges, [2]int{p[1], p[0]})
				}
			}
		}
		out = append(out, edges)
	}
	return out
}

func c10Acyclic(n int, edges [][2]int) bool {
	state := make([]int, n)
	var visit func(i int) bool
	visit = func(i int) bool {
		if state[i] == 1 {
			return false
		}
		if state[i] == 2 {
			return true
		}
		state[i] = 1
		for _, e := range edges {
			if e[0] == i && !visit(e[1]) {
				return false
			}
		}
		state[i] = 2
		return true
	}
	for i := 0; i < n; i++ {
		if !visit(i) {
			return false
		}
	}
	return true
}

func c10FixIDs(w *c10Workspace) *c10Workspace {
	for i := range w.modules {
		// the OpaqueID: the full name, or the bucket ID of an unnamed module (see build)
		if w.modules[i].name != "" {
			w.modules[i].id = w.modules[i].name
		} else {
			w.modules[i].id = fmt.Sprintf("bucket-%d", i)
		}
	}
	return w
}

func (r *c10Run) familyGraphs(ctx context.Context) {
	for n := 2; n <= 4; n++ {
		for _, edges := range c10AllDAGs(n) {
			// cyclic orientations are part of the family: they must be reported as cycles
			w := c10FixIDs(c10Graph(n, edges))
			r.checkDeps(ctx, w)
		}
	}
}

const c10WKTPath = "google/protobuf/timestamp.proto"

func (r *c10Run) familyFaults(ctx context.Context) {
	base := func() *c10Workspace {
		// zeta -> mid -> alpha, local -> mid
		return c10FixIDs(c10Graph(4, [][2]int{{0, 2}, {2, 3}, {1, 2}}))
	}
	// well-known type: nobody supplies it / a module supplies it
	for importer := 0; importer < 4; importer++ {
		w := base()
		w.modules[importer].files[1].imports = append(w.modules[importer].files[1].imports, c10WKTPath)
		r.checkDeps(ctx, w)
		for supplier := 0; supplier < 4; supplier++ {
			if supplier == importer {
				continue
			}
			w := base()
			w.modules[importer].files[1].imports = append(w.modules[importer].files[1].imports, c10WKTPath)
			w.modules[supplier].files = append(w.modules[supplier].files, c10File{path: c10WKTPath})
			r.checkDeps(ctx, w)
		}
		// a dedicated module that supplies the well-known types
		w = base()
		w.modules[importer].files[0].imports = append(w.modules[importer].files[0].imports, c10WKTPath)
		w.modules = append(w.modules, c10Module{name: "buf.build/acme/wkt", id: "buf.build/acme/wkt", files: []c10File{{path: c10WKTPath}, {path: "google/protobuf/duration.proto"}}})
		r.checkDeps(ctx, w)
	}
	// a path supplied by two modules
	for importer := 0; importer < 4; importer++ {
		for a := 0; a < 4; a++ {
			for b := a + 1; b < 4; b++ {
				if a == importer || b == importer {
					continue
				}
				w := base()
				w.modules[a].files = append(w.modules[a].files, c10File{path: "common/common.proto"})
				w.modules[b].files = append(w.modules[b].files, c10File{path: "common/common.proto"})
				// not imported by anyone: an error only for modules whose closure holds both suppliers
				r.checkDeps(ctx, w)
				w2 := base()
				w2.modules[a].files = append(w2.modules[a].files, c10File{path: "common/common.proto"})
				w2.modules[b].files = append(w2.modules[b].files, c10File{path: "common/common.proto"})
				w2.modules[importer].files[1].imports = append(w2.modules[importer].files[1].imports, "common/common.proto")
				r.checkDeps(ctx, w2)
			}
		}
	}
	// the classic: an app importing a path that two otherwise unrelated libraries supply
	for _, names := range [][3]string{{"buf.build/acme/app", "buf.build/acme/lib1", "buf.build/acme/lib2"}, {"buf.build/acme/lib1", "buf.build/acme/app", "buf.build/acme/lib2"}, {"", "", ""}} {
		w := &c10Workspace{modules: []c10Module{
			{name: names[0], files: []c10File{{path: "app/app.proto", imports: []string{"shared/v1/shared.proto"}}}},
			{name: names[1], files: []c10File{{path: "shared/v1/shared.proto"}, {path: "lib1/x.proto"}}},
			{name: names[2], files: []c10File{{path: "shared/v1/shared.proto"}, {path: "lib2/x.proto"}}},
		}}
		r.checkDeps(ctx, c10FixIDs(w))
	}
	// an import nobody supplies
	for importer := 0; importer < 4; importer++ {
		w := base()
		w.modules[importer].files[1].imports = append(w.modules[importer].files[1].imports, "nobody/has/this.proto")
		r.checkDeps(ctx, w)
	}
	// cycles
	r.checkDeps(ctx, c10FixIDs(c10Graph(2, [][2]int{{0, 1}, {1, 0}})))
	r.checkDeps(ctx, c10FixIDs(c10Graph(3, [][2]int{{0, 1}, {1, 2}, {2, 0}})))
	r.checkDeps(ctx, c10FixIDs(c10Graph(4, [][2]int{{0, 1}, {1, 2}, {2, 3}, {3, 1}})))
}

// ---- getModuleForFilePathUncached and the union bucket, directly

func (r *c10Run) familyLookup(ctx context.Context) {
	var workspaces []*c10Workspace
	w := c10FixIDs(c10Graph(4, [][2]int{{0, 2}, {2, 3}, {1, 2}}))
	workspaces = append(workspaces, w)
	for a := 0; a < 4; a++ {
		for b := a + 1; b < 4; b++ {
			w := c10FixIDs(c10Graph(4, [][2]int{{0, 2}, {2, 3}}))
			w.modules[a].files = append(w.modules[a].files, c10File{path: "common/common.proto"})
			w.modules[b].files = append(w.modules[b].files, c10File{path: "common/common.proto"})
			workspaces = append(workspaces, w)
			if b+1 < 4 || a > 0 {
				c := (b + 1) % 4
				if c != a {
					w3 := c10FixIDs(c10Graph(4, nil))
					for _, m := range []int{a, b, c} {
						w3.modules[m].files = append(w3.modules[m].files, c10File{path: "common/common.proto"})
					}
					workspaces = append(workspaces, w3)
				}
			}
		}
	}
	for _, w := range workspaces {
		mset, err := w.build(ctx)
		if err != nil {
			continue
		}
		set, ok := mset.(*moduleSet)
		if !ok {
			fmt.Printf("VERIF-REPLAY generator problem: module set is a %T\n", mset)
			return
		}
		paths := map[string]bool{"nobody/has/this.proto": true, c10WKTPath: true, "common": true}
		for _, m := range w.modules {
			for _, f := range m.files {
				paths[f.path] = true
			}
		}
		union := ModuleSetToModuleReadBucketWithOnlyProtoFiles(mset)
		for p := range paths {
			r.checked++
			ps := w.providers(p)
			module, err := set.getModuleForFilePathUncached(ctx, p)
			var names []string
			for _, i := range ps {
				names = append(names, w.modules[i].id)
			}
			what := fmt.Sprintf("%s: getModuleForFilePathUncached(%q) (supplied by %v)", w.describe(), p, names)
			switch len(ps) {
			case 0:
				var pathError *fs.PathError
				if err == nil || !errors.Is(err, fs.ErrNotExist) || !errors.As(err, &pathError) || pathError.Path != p || module != nil {
					r.fail("none-is-not-exist", "%s = %v, err=%v; want a not-exist error for that path", what, module, err)
				}
			case 1:
				if err != nil || module == nil || module.OpaqueID() != w.modules[ps[0]].id {
					r.fail("unique-provider success-means-unique", "%s = %v, err=%v; want the module %s", what, module, err, w.modules[ps[0]].id)
				}
			default:
				var dup *DuplicateProtoPathError
				if err == nil || !errors.As(err, &dup) || dup.ProtoPath != p || module != nil {
					got := "<nil>"
					if module != nil {
						got = module.OpaqueID()
					}
					r.fail("duplicate-is-error success-means-unique errors-not-swallowed other-error-returned", "%s = %s, err=%v; want a DuplicateProtoPathError for the path (never an arbitrary supplier)", what, got, err)
				} else if len(dup.ModuleDescriptions) != len(ps) {
					r.fail("duplicate-is-error", "%s: the DuplicateProtoPathError names %v; %d modules supply the path", what, dup.ModuleDescriptions, len(ps))
				}
			}
			// the union of the modules' .proto files
			fileInfo, err := union.StatFileInfo(ctx, p)
			what = fmt.Sprintf("%s: StatFileInfo(%q) on the union of all modules (supplied by %v)", w.describe(), p, names)
			switch len(ps) {
			case 0:
				if err == nil || !errors.Is(err, fs.ErrNotExist) {
					r.fail("none-is-not-exist", "%s: err=%v, want not-exist", what, err)
				}
			case 1:
				if err != nil || fileInfo == nil || fileInfo.Module().OpaqueID() != w.modules[ps[0]].id || fileInfo.Path() != p {
					r.fail("single-provider success-means-single", "%s = %v, err=%v; want the file of module %s", what, fileInfo, err, w.modules[ps[0]].id)
				}
			default:
				if err == nil {
					r.fail("two-providers-is-error success-means-single", "%s = file of %s, no error; a path served by two modules must be an error", what, fileInfo.Module().OpaqueID())
				}
			}
		}
	}
	// a module whose storage fails: the failure is returned, not swallowed, not turned into not-exist
	for failing := 0; failing < 3; failing++ {
		for supplier := -1; supplier < 3; supplier++ {
			if supplier == failing {
				continue
			}
			r.checked++
			w := c10FixIDs(c10Graph(3, nil))
			w.modules[failing].failing = "common/common.proto"
			if supplier >= 0 {
				w.modules[supplier].files = append(w.modules[supplier].files, c10File{path: "common/common.proto"})
			}
			mset, err := w.build(ctx)
			if err != nil {
				continue
			}
			set := mset.(*moduleSet)
			module, err := set.getModuleForFilePathUncached(ctx, "common/common.proto")
			if err == nil || !errors.Is(err, errC10Boom) {
				got := "<nil>"
				if module != nil {
					got = module.OpaqueID()
				}
				r.fail("other-error-returned errors-not-swallowed", "%s: getModuleForFilePathUncached(\"common/common.proto\") = %s, err=%v; want the storage failure of %s", w.describe(), got, err, w.modules[failing].id)
			}
		}
	}
}

// ---- the choice among same-named candidates

type c10CommitProvider struct {
	createTimes map[uuid.UUID]time.Time
}

func (p *c10CommitProvider) GetCommitsForModuleKeys(ctx context.Context, moduleKeys []ModuleKey) ([]Commit, error) {
	out := make([]Commit, len(moduleKeys))
	for i, key := range moduleKeys {
		t, ok := p.createTimes[key.CommitID()]
		if !ok {
			return nil, fmt.Errorf("unknown commit %v", key.CommitID())
		}
		out[i] = NewCommit(key, func() (time.Time, error) { return t, nil })
	}
	return out, nil
}

func (p *c10CommitProvider) GetCommitsForCommitKeys(ctx context.Context, commitKeys []CommitKey) ([]Commit, error) {
	return nil, errors.New("not used")
}

func (r *c10Run) familySelect(ctx context.Context) {
	const name = "buf.build/acme/x"
	fullName, err := bufparse.ParseFullName(name)
	if err != nil {
		return
	}
	// three distinct local modules with that name
	var locals []Module
	for i := 0; i < 3; i++ {
		w := c10FixIDs(&c10Workspace{modules: []c10Module{{name: name, files: []c10File{{path: fmt.Sprintf("x/v%d.proto", i)}}}}})
		mset, err := w.build(ctx)
		if err != nil {
			fmt.Printf("VERIF-REPLAY generator problem: %v\n", err)
			return
		}
		locals = append(locals, mset.Modules()[0])
	}
	commitIDs := []uuid.UUID{
		uuid.MustParse("00000000-0000-4000-8000-000000000001"),
		uuid.MustParse("00000000-0000-4000-8000-000000000002"),
		uuid.MustParse("00000000-0000-4000-8000-000000000003"),
	}
	base := time.Date(2024, 1, 1, 0, 0, 0, 0, time.UTC)
	// commit 2 is the newest, commit 1 the oldest
	provider := &c10CommitProvider{createTimes: map[uuid.UUID]time.Time{commitIDs[0]: base, commitIDs[1]: base.Add(72 * time.Hour), commitIDs[2]: base.Add(24 * time.Hour)}}
	age := map[uuid.UUID]int{commitIDs[0]: 0, commitIDs[1]: 72, commitIDs[2]: 24}
	kinds := []string{"L", "Lt", "R1", "R1t", "R2", "R2t", "R3", "R3t"}
	mk := func(kind string, position int) *addedModule {
		target := strings.HasSuffix(kind, "t")
		if strings.HasPrefix(kind, "L") {
			return newLocalAddedModule(locals[position], target)
		}
		c := int(kind[1] - '1')
		key, err := NewModuleKey(fullName, commitIDs[c], func() (Digest, error) { return locals[0].Digest(DigestTypeB5) })
		if err != nil {
			panic(err)
		}
		return newRemoteAddedModule(key, nil, nil, target)
	}
	var lists [][]string
	for _, a := range kinds {
		lists = append(lists, []string{a})
		for _, b := range kinds {
			lists = append(lists, []string{a, b})
			for _, c := range kinds {
				lists = append(lists, []string{a, b, c})
			}
		}
	}
	describe := func(list []string) string {
		var out []string
		for _, k := range list {
			s := map[byte]string{'L': "local"}[k[0]]
			if k[0] == 'R' {
				s = fmt.Sprintf("remote@commit%c(+%dh)", k[1], age[commitIDs[int(k[1]-'1')]])
			}
			if strings.HasSuffix(k, "t") {
				s += ",target"
			}
			out = append(out, s)
		}
		return "[" + strings.Join(out, " | ") + "]"
	}
	// the documented choice: index set of acceptable candidates
	choose := func(list []string, useTargets bool) []int {
		var candidates []int
		if useTargets {
			for i, k := range list {
				if strings.HasSuffix(k, "t") {
					candidates = append(candidates, i)
				}
			}
		}
		if len(candidates) == 0 {
			for i := range list {
				candidates = append(candidates, i)
			}
		}
		for _, i := range candidates {
			if list[i][0] == 'L' {
				return []int{i}
			}
		}
		newest := -1
		for _, i := range candidates {
			if a := age[commitIDs[int(list[i][1]-'1')]]; a > newest {
				newest = a
			}
		}
		var out []int
		for _, i := range candidates {
			if age[commitIDs[int(list[i][1]-'1')]] == newest {
				out = append(out, i)
			}
		}
		return out
	}
	check := func(fn string, list []string, got *addedModule, err error, acceptable []int, in []*addedModule) {
		if err != nil {
			r.fail("member local-first target-local-first error-only-for-remotes single", "%s(candidates %s): error %v", fn, describe(list), err)
			return
		}
		for _, i := range acceptable {
			if in[i] == got {
				return
			}
		}
		gotIndex := -1
		for i := range in {
			if in[i] == got {
				gotIndex = i
			}
		}
		r.fail("local-first local-beats-remote first-local-exists target-local-first target-beats-non-target no-target-local-first only-target-selected member single members order unique-match complete groups", "%s(candidates %s) chose candidate #%d; documented choice (target over non-target, then local over remote in the order added, then the newest remote commit): #%v", fn, describe(list), gotIndex, acceptable)
	}
	for _, list := range lists {
		r.checked++
		in := make([]*addedModule, len(list))
		for i, k := range list {
			in[i] = mk(k, i)
		}
		got, err := selectAddedModuleForOpaqueID(ctx, provider, in)
		check("selectAddedModuleForOpaqueID", list, got, err, choose(list, true), in)
		got, err = selectAddedModuleForOpaqueIDIgnoreTargeting(ctx, provider, in)
		check("selectAddedModuleForOpaqueIDIgnoreTargeting", list, got, err, choose(list, false), in)
		anyLocal := false
		for _, k := range list {
			if k[0] == 'L' {
				anyLocal = true
			}
		}
		got, err = selectRemoteAddedModuleForOpaqueIDIgnoreTargeting(ctx, provider, in)
		if anyLocal {
			if err == nil {
				r.fail("local-rejected", "selectRemoteAddedModuleForOpaqueIDIgnoreTargeting(candidates %s): no error although a candidate is local", describe(list))
			}
		} else {
			check("selectRemoteAddedModuleForOpaqueIDIgnoreTargeting", list, got, err, choose(list, false), in)
		}
		// the accessors
		for i, k := range list {
			if in[i].IsLocal() != (k[0] == 'L') || in[i].IsTarget() != strings.HasSuffix(k, "t") || in[i].OpaqueID() != name {
				r.fail("IsLocal IsTarget OpaqueID", "added module %s: IsLocal()=%v IsTarget()=%v OpaqueID()=%q", describe([]string{k}), in[i].IsLocal(), in[i].IsTarget(), in[i].OpaqueID())
			}
		}
	}
	r.checked++
	if _, err := selectRemoteAddedModuleForOpaqueIDIgnoreTargeting(ctx, provider, nil); err == nil {
		r.fail("empty-rejected", "selectRemoteAddedModuleForOpaqueIDIgnoreTargeting(no candidates): no error")
	}
	// through the builder: a local module and a same-named local module added later, target first
	for _, order := range [][2]bool{{true, false}, {false, true}} {
		r.checked++
		builder := NewModuleSetBuilder(ctx, c10Logger, NopModuleDataProvider, NopCommitProvider)
		for i, target := range order {
			bucket, err := storagemem.NewReadBucket(map[string][]byte{fmt.Sprintf("x/v%d.proto", i): []byte("syntax = \"proto3\";\npackage x;\n")})
			if err != nil {
				return
			}
			builder.AddLocalModule(bucket, fmt.Sprintf("bucket-%d", i), target, LocalModuleWithFullNameAndCommitID(fullName, uuid.New()))
		}
		mset, err := builder.Build()
		if err != nil {
			r.fail("member", "ModuleSetBuilder with two local modules named %s (targets %v): error %v", name, order, err)
			continue
		}
		modules := mset.Modules()
		wantBucket := "bucket-0"
		if order[1] {
			wantBucket = "bucket-1"
		}
		if len(modules) != 1 || modules[0].BucketID() != wantBucket || !modules[0].IsTarget() {
			var got []string
			for _, m := range modules {
				got = append(got, fmt.Sprintf("%s(%s,target=%v)", m.OpaqueID(), m.BucketID(), m.IsTarget()))
			}
			r.fail("target-beats-non-target only-target-selected target-local-first", "ModuleSetBuilder with two local modules named %s added as [bucket-0 target=%v, bucket-1 target=%v] builds %v; want only the targeted one (%s)", name, order[0], order[1], got, wantBucket)
		}
	}
}

// ---- protoFileTracker directly

func (r *c10Run) familyTracker(ctx context.Context) {
	w := c10FixIDs(c10Graph(3, nil))
	w.modules[0].files = append(w.modules[0].files, c10File{path: "common/common.proto"})
	w.modules[2].files = append(w.modules[2].files, c10File{path: "common/common.proto"})
	mset, err := w.build(ctx)
	if err != nil {
		return
	}
	modules := mset.Modules()
	infos := map[string][]FileInfo{}
	for _, m := range modules {
		m := m
		_ = m.WalkFileInfos(ctx, func(fileInfo FileInfo) error {
			infos[m.OpaqueID()] = append(infos[m.OpaqueID()], fileInfo)
			return nil
		})
	}
	// every subset of modules tracked; for each tracked module its files are tracked or not
	for mask := 0; mask < 1<<len(modules); mask++ {
		for filesMask := 0; filesMask < 1<<len(modules); filesMask++ {
			r.checked++
			tracker := newProtoFileTracker()
			if tracker == nil || tracker.opaqueIDToProtoFileExists == nil || tracker.protoPathToOpaqueIDMap == nil || len(tracker.protoPathToOpaqueIDMap) != 0 || len(tracker.opaqueIDToProtoFileExists) != 0 {
				r.fail("newProtoFileTracker", "newProtoFileTracker() is not empty / allocated")
				return
			}
			var steps []string
			paths := map[string]map[string]bool{}
			withoutProto := ""
			for i, m := range modules {
				if mask&(1<<i) == 0 {
					continue
				}
				tracker.trackModule(m)
				steps = append(steps, "trackModule("+m.OpaqueID()+")")
				if filesMask&(1<<i) != 0 {
					for _, fileInfo := range infos[m.OpaqueID()] {
						tracker.trackFileInfo(fileInfo)
						steps = append(steps, "trackFileInfo("+fileInfo.Path()+" of "+m.OpaqueID()+")")
						if paths[fileInfo.Path()] == nil {
							paths[fileInfo.Path()] = map[string]bool{}
						}
						paths[fileInfo.Path()][m.OpaqueID()] = true
					}
					// tracking the module again must not forget that it has .proto files
					tracker.trackModule(m)
				} else {
					withoutProto = m.OpaqueID()
				}
			}
			duplicate := ""
			for p, ids := range paths {
				if len(ids) > 1 {
					duplicate = p
				}
			}
			err := tracker.validate()
			wantErr := duplicate != "" || withoutProto != ""
			if (err != nil) != wantErr {
				tag := "clean-is-nil"
				if duplicate != "" {
					tag = "duplicate-path-is-error proto-tracked-by-path-and-module ids-of-path id-count path-set"
				} else if withoutProto != "" {
					tag = "module-without-proto-is-error tracked flag-kept module-has-proto"
				}
				r.fail(tag, "protoFileTracker after %v: validate() = %v; path held by two modules: %q, tracked module without .proto file: %q", steps, err, duplicate, withoutProto)
				continue
			}
			if err != nil && duplicate != "" {
				var dup *DuplicateProtoPathError
				if !errors.As(err, &dup) || dup.ProtoPath != duplicate {
					r.fail("duplicate-path-is-error", "protoFileTracker after %v: validate() = %v; want a DuplicateProtoPathError for %q", steps, err, duplicate)
				}
			}
		}
	}
}

func TestVerifReplayC10(t *testing.T) {
	fn := os.Getenv("VERIF_REPLAY_FUNC")
	obligation := os.Getenv("VERIF_REPLAY_OBLIGATION")
	ctx := context.Background()
	r := &c10Run{}
	switch fn {
	case "getModuleDepsRec", "getModuleDeps", "newModuleDep", "ModuleDeps":
		r.familyFaults(ctx)
		r.familyGraphs(ctx)
	case "getModuleForFilePathUncached", "getModuleForFilePath", "getFileInfoAndDelegateIndex", "newExistsMultipleModulesError", "Modules", "GetModuleForOpaqueID":
		r.familyLookup(ctx)
		r.familyFaults(ctx)
	case "selectAddedModuleForOpaqueID", "selectAddedModuleForOpaqueIDIgnoreTargeting", "selectRemoteAddedModuleForOpaqueIDIgnoreTargeting",
		"OpaqueID", "IsLocal", "IsTarget", "Filter", "ToValuesMap":
		r.familySelect(ctx)
	case "trackFileInfo", "trackModule", "validate", "newProtoFileTracker":
		r.familyTracker(ctx)
		r.familyFaults(ctx)
	default:
		fmt.Printf("VERIF-REPLAY no harness for %q\n", fn)
		return
	}
	label := ""
	if i := strings.LastIndex(obligation, "["); i >= 0 {
		label = strings.TrimSuffix(obligation[i+1:], "]")
	}
	if strings.Contains(obligation, "#inv-step") || strings.Contains(obligation, "#inv-entry") {
		label = "inv-step"
	}
	sort.SliceStable(r.failures, func(a, b int) bool {
		ma := label != "" && strings.Contains(" "+r.failures[a].tag+" ", " "+label+" ")
		mb := label != "" && strings.Contains(" "+r.failures[b].tag+" ", " "+label+" ")
		return ma && !mb
	})
	printed := map[string]bool{}
	count := 0
	for _, f := range r.failures {
		if count >= 5 {
			break
		}
		key := f.text
		if i := strings.Index(key, "}: "); i >= 0 {
			key = key[:i]
		}
		if printed[key] {
			continue
		}
		printed[key] = true
		fmt.Printf("VERIF-REPLAY FAILING-INPUT %s\n", f.text)
		count++
	}
	fmt.Printf("VERIF-REPLAY %s: checked %d inputs, %d deviations from the documented behaviour\n", fn, r.checked, len(r.failures))
}
