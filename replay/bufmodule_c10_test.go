package bufmodule

// Replay / bounded contract run for the C10 obligations of package bufmodule; injected with go test -overlay.
//
// Inputs: generated module sets - 2..4 modules (named and unnamed, OpaqueID order different from dependency
// order), two .proto files each, EVERY acyclic inter-module import graph on up to four modules (chains, fans,
// diamonds), imports inside a module, well-known-type imports with and without a module that supplies the
// file, a path supplied by two modules (imported / not imported, the second supplier reachable or not), an
// import nobody supplies, import cycles of length two and three, a module whose storage fails; candidate lists
// of up to three local/remote target/non-target modules with one name and remote commits of different age.
//
// Oracle (from the C10 statement): ModuleDeps() of a module = exactly the modules reachable through the import
// statements of its files, flagged direct iff one of its own files imports a file of that module; a path
// supplied by two modules, an import nobody supplies (other than a well-known type) and an import cycle are
// errors (DuplicateProtoPathError / ImportNotExistError / ModuleCycleError); among same-named candidates a
// target beats a non-target, then local beats remote (first added wins), then the newest remote commit.
//
// The module set builder (Add* / Build / records / de-duplication), newModuleSet, WithTargetOpaqueIDs and the
// target-file / file-type filters of module_read_bucket.go: see the section "a2" further down.

import (
	"context"
	"errors"
	"fmt"
	"io"
	"io/fs"
	"log/slog"
	"os"
	"sort"
	"strings"
	"testing"
	"time"

	"github.com/bufbuild/buf/private/bufpkg/bufparse"
	"github.com/bufbuild/buf/private/pkg/storage"
	"github.com/bufbuild/buf/private/pkg/storage/storagemem"
	"github.com/google/uuid"
)

var c10Logger = slog.New(slog.NewTextHandler(io.Discard, nil))

type c10File struct {
	path    string
	imports []string
}

type c10Module struct {
	name    string // full name, or "" (unnamed: the OpaqueID is the bucket ID)
	id      string // the expected OpaqueID
	files   []c10File
	failing string // a path for which the module's storage fails with c10Boom
}

type c10Workspace struct {
	modules []c10Module
}

var errC10Boom = errors.New("storage failure (planted)")

type c10FailingBucket struct {
	storage.ReadBucket
	path string
}

func (b *c10FailingBucket) Stat(ctx context.Context, path string) (storage.ObjectInfo, error) {
	if path == b.path {
		return nil, errC10Boom
	}
	return b.ReadBucket.Stat(ctx, path)
}

func (b *c10FailingBucket) Get(ctx context.Context, path string) (storage.ReadObjectCloser, error) {
	if path == b.path {
		return nil, errC10Boom
	}
	return b.ReadBucket.Get(ctx, path)
}

func c10Source(f c10File) string {
	var b strings.Builder
	b.WriteString("syntax = \"proto3\";\n")
	fmt.Fprintf(&b, "package %s;\n", strings.NewReplacer("/", "_", ".", "_").Replace(f.path))
	for _, imp := range f.imports {
		fmt.Fprintf(&b, "import %q;\n", imp)
	}
	return b.String()
}

func (w *c10Workspace) describe() string {
	var parts []string
	for _, m := range w.modules {
		var files []string
		for _, f := range m.files {
			if len(f.imports) > 0 {
				files = append(files, fmt.Sprintf("%s[import %s]", f.path, strings.Join(f.imports, ", ")))
			} else {
				files = append(files, f.path)
			}
		}
		extra := ""
		if m.failing != "" {
			extra = fmt.Sprintf(" (storage fails for %s)", m.failing)
		}
		parts = append(parts, fmt.Sprintf("%s{%s}%s", m.id, strings.Join(files, " "), extra))
	}
	return "module set {" + strings.Join(parts, "; ") + "}"
}

func (w *c10Workspace) build(ctx context.Context) (ModuleSet, error) {
	builder := NewModuleSetBuilder(ctx, c10Logger, NopModuleDataProvider, NopCommitProvider)
	for i := range w.modules {
		m := &w.modules[i]
		data := map[string][]byte{}
		for _, f := range m.files {
			data[f.path] = []byte(c10Source(f))
		}
		var bucket storage.ReadBucket
		bucket, err := storagemem.NewReadBucket(data)
		if err != nil {
			return nil, err
		}
		if m.failing != "" {
			bucket = &c10FailingBucket{ReadBucket: bucket, path: m.failing}
		}
		bucketID := fmt.Sprintf("bucket-%d", i)
		var options []LocalModuleOption
		if m.name != "" {
			fullName, err := bufparse.ParseFullName(m.name)
			if err != nil {
				return nil, err
			}
			options = append(options, LocalModuleWithFullNameAndCommitID(fullName, uuid.New()))
		}
		builder.AddLocalModule(bucket, bucketID, i == 0, options...)
	}
	return builder.Build()
}

type c10Failure struct {
	tag  string
	text string
	key  string // the input the failure is about (one line is printed per input); "" = derived from text
}

type c10Run struct {
	failures []c10Failure
	checked  int
}

func (r *c10Run) fail(tag string, format string, a ...any) {
	r.failures = append(r.failures, c10Failure{tag: tag, text: fmt.Sprintf(format, a...)})
}

// failAt: a deviation for the input described by what (the message follows the description)
func (r *c10Run) failAt(tag string, what string, format string, a ...any) {
	r.failures = append(r.failures, c10Failure{tag: tag, text: what + fmt.Sprintf(format, a...), key: what})
}

func (w *c10Workspace) providers(path string) []int {
	var out []int
	for i, m := range w.modules {
		for _, f := range m.files {
			if f.path == path {
				out = append(out, i)
				break
			}
		}
	}
	return out
}

var c10WKT = map[string]bool{
	"google/protobuf/timestamp.proto": true,
	"google/protobuf/duration.proto":  true,
	"google/protobuf/any.proto":       true,
}

// expectation for ModuleDeps() of module i: the dependency map (id -> direct) or the kind of error
func (w *c10Workspace) expected(i int) (map[string]bool, string) {
	deps := map[string]bool{}
	errKind := ""
	onStack := map[int]bool{}
	visited := map[int]bool{}
	var visit func(m int, direct bool)
	visit = func(m int, direct bool) {
		if onStack[m] {
			// ModuleDeps() of a module reports the cycles that module is part of; a cycle among its
			// dependencies only is reported by ModuleDeps() of the modules on that cycle
			if errKind == "" && m == i {
				errKind = "cycle"
			}
			return
		}
		if visited[m] {
			return
		}
		visited[m] = true
		onStack[m] = true
		var next []int
		for _, f := range w.modules[m].files {
			for _, imp := range f.imports {
				ps := w.providers(imp)
				switch {
				case len(ps) == 0:
					if !c10WKT[imp] && errKind == "" {
						errKind = "import-not-exist:" + imp
					}
				case len(ps) > 1:
					if errKind == "" {
						errKind = "duplicate:" + imp
					}
				default:
					if ps[0] != m {
						if _, ok := deps[w.modules[ps[0]].id]; !ok && ps[0] != i {
							deps[w.modules[ps[0]].id] = direct
						}
						next = append(next, ps[0])
					}
				}
			}
		}
		for _, n := range next {
			visit(n, false)
		}
		onStack[m] = false
	}
	visit(i, true)
	if errKind == "" {
		// a path held by two modules of the dependency closure
		seen := map[string]int{}
		for m := range visited {
			for _, f := range w.modules[m].files {
				if other, ok := seen[f.path]; ok && other != m {
					errKind = "duplicate:" + f.path
				}
				seen[f.path] = m
			}
		}
	}
	return deps, errKind
}

func c10ErrKind(err error) string {
	var dup *DuplicateProtoPathError
	var notExist *ImportNotExistError
	var cycle *ModuleCycleError
	switch {
	case err == nil:
		return ""
	case errors.As(err, &cycle):
		return "cycle"
	case errors.As(err, &dup):
		return "duplicate:" + dup.ProtoPath
	case errors.As(err, &notExist):
		return "import-not-exist:" + notExist.importPath
	default:
		return "other:" + err.Error()
	}
}

func (r *c10Run) checkDeps(ctx context.Context, w *c10Workspace) {
	r.checked++
	mset, err := w.build(ctx)
	if err != nil {
		// the builder may already reject the set (e.g. duplicate paths among all modules are found lazily, so this is rare)
		fmt.Printf("VERIF-REPLAY generator note: %s does not build: %v\n", w.describe(), err)
		return
	}
	for i, wm := range w.modules {
		module := mset.GetModuleForOpaqueID(wm.id)
		if module == nil {
			r.fail("GetModuleForOpaqueID Modules OpaqueID", "%s: GetModuleForOpaqueID(%q) = nil", w.describe(), wm.id)
			continue
		}
		wantDeps, wantErr := w.expected(i)
		moduleDeps, err := module.ModuleDeps()
		gotErr := c10ErrKind(err)
		if wantErr != "" {
			ok := gotErr == wantErr
			if strings.HasPrefix(wantErr, "duplicate:") && strings.HasPrefix(gotErr, "duplicate:") {
				ok = true
			}
			if !ok {
				var got []string
				for _, d := range moduleDeps {
					got = append(got, d.OpaqueID())
				}
				tag := "duplicate-is-error success-means-unique duplicate-path-is-error two-providers-is-error errors-not-swallowed other-error-returned"
				if !strings.HasPrefix(wantErr, "duplicate:") {
					tag = "none-is-not-exist inv-step"
				}
				r.fail(tag, "%s: ModuleDeps() of %s: want the error %s, got err=%q deps=%v", w.describe(), wm.id, wantErr, gotErr, got)
			}
			continue
		}
		if err != nil {
			r.fail("clean-is-nil unique-provider none-is-not-exist", "%s: ModuleDeps() of %s: unexpected error %q; want dependencies %v (true = direct)", w.describe(), wm.id, err.Error(), wantDeps)
			continue
		}
		got := map[string]bool{}
		for _, d := range moduleDeps {
			got[d.OpaqueID()] = d.IsDirect()
		}
		if fmt.Sprint(got) != fmt.Sprint(wantDeps) {
			tag := "inv-step new-deps-are-fresh-records existing-deps-kept unique-provider success-means-unique old-deps-frame newModuleDep"
			r.fail(tag, "%s: ModuleDeps() of %s = %v, want %v (module -> is direct; exactly the modules reachable through imports)", w.describe(), wm.id, got, wantDeps)
			continue
		}
		for _, d := range moduleDeps {
			// (The ModuleDep documentation says that Parent() is the top-level module also for transitive
			// dependencies; the pinned code records the intermediate module there. Only the first hop is checked.)
			if d.IsDirect() && (d.Parent() == nil || d.Parent().OpaqueID() != wm.id) {
				r.fail("newModuleDep new-deps-are-fresh-records inv-step", "%s: ModuleDeps() of %s: direct dependency %s has parent %v", w.describe(), wm.id, d.OpaqueID(), d.Parent())
			}
		}
	}
}

var c10Names = []string{"buf.build/acme/zeta", "", "buf.build/acme/mid", "buf.build/acme/alpha"}
var c10Dirs = []string{"zeta", "local", "mid", "alpha"}

// module i: <dir>/a.proto (imports <dir>/b.proto) and <dir>/b.proto; the inter-module imports alternate between the two files
func c10Graph(n int, edges [][2]int) *c10Workspace {
	w := &c10Workspace{}
	for i := 0; i < n; i++ {
		d := c10Dirs[i]
		w.modules = append(w.modules, c10Module{
			name: c10Names[i],
			files: []c10File{
				{path: d + "/a.proto", imports: []string{d + "/b.proto"}},
				{path: d + "/b.proto"},
			},
		})
	}
	for k, e := range edges {
		target := c10Dirs[e[1]] + "/a.proto"
		if k%3 == 1 {
			target = c10Dirs[e[1]] + "/b.proto"
		}
		file := k % 2
		w.modules[e[0]].files[file].imports = append(w.modules[e[0]].files[file].imports, target)
	}
	return c10FixIDs(w)
}

func c10AllDAGs(n int) [][][2]int {
	var pairs [][2]int
	for i := 0; i < n; i++ {
		for j := i + 1; j < n; j++ {
			pairs = append(pairs, [2]int{i, j})
		}
	}
	var out [][][2]int
	for mask := 0; mask < 1<<len(pairs); mask++ {
		var edges [][2]int
		for b, p := range pairs {
			if mask&(1<<b) != 0 {
				// orientation varies so that OpaqueID order and dependency order disagree
				if (mask+b)%2 == 0 {
					edges = append(edges, p)
				} else {
					edges = append(edges, [2]int{p[1], p[0]})
				}
			}
		}
		out = append(out, edges)
	}
	return out
}

func c10Acyclic(n int, edges [][2]int) bool {
	state := make([]int, n)
	var visit func(i int) bool
	visit = func(i int) bool {
		if state[i] == 1 {
			return false
		}
		if state[i] == 2 {
			return true
		}
		state[i] = 1
		for _, e := range edges {
			if e[0] == i && !visit(e[1]) {
				return false
			}
		}
		state[i] = 2
		return true
	}
	for i := 0; i < n; i++ {
		if !visit(i) {
			return false
		}
	}
	return true
}

func c10FixIDs(w *c10Workspace) *c10Workspace {
	for i := range w.modules {
		// the OpaqueID: the full name, or the bucket ID of an unnamed module (see build)
		if w.modules[i].name != "" {
			w.modules[i].id = w.modules[i].name
		} else {
			w.modules[i].id = fmt.Sprintf("bucket-%d", i)
		}
	}
	return w
}

func (r *c10Run) familyGraphs(ctx context.Context) {
	for n := 2; n <= 4; n++ {
		for _, edges := range c10AllDAGs(n) {
			// cyclic orientations are part of the family: they must be reported as cycles
			w := c10FixIDs(c10Graph(n, edges))
			r.checkDeps(ctx, w)
		}
	}
}

const c10WKTPath = "google/protobuf/timestamp.proto"

func (r *c10Run) familyFaults(ctx context.Context) {
	base := func() *c10Workspace {
		// zeta -> mid -> alpha, local -> mid
		return c10FixIDs(c10Graph(4, [][2]int{{0, 2}, {2, 3}, {1, 2}}))
	}
	// well-known type: nobody supplies it / a module supplies it
	for importer := 0; importer < 4; importer++ {
		w := base()
		w.modules[importer].files[1].imports = append(w.modules[importer].files[1].imports, c10WKTPath)
		r.checkDeps(ctx, w)
		for supplier := 0; supplier < 4; supplier++ {
			if supplier == importer {
				continue
			}
			w := base()
			w.modules[importer].files[1].imports = append(w.modules[importer].files[1].imports, c10WKTPath)
			w.modules[supplier].files = append(w.modules[supplier].files, c10File{path: c10WKTPath})
			r.checkDeps(ctx, w)
		}
		// a dedicated module that supplies the well-known types
		w = base()
		w.modules[importer].files[0].imports = append(w.modules[importer].files[0].imports, c10WKTPath)
		w.modules = append(w.modules, c10Module{name: "buf.build/acme/wkt", id: "buf.build/acme/wkt", files: []c10File{{path: c10WKTPath}, {path: "google/protobuf/duration.proto"}}})
		r.checkDeps(ctx, w)
	}
	// a path supplied by two modules
	for importer := 0; importer < 4; importer++ {
		for a := 0; a < 4; a++ {
			for b := a + 1; b < 4; b++ {
				if a == importer || b == importer {
					continue
				}
				w := base()
				w.modules[a].files = append(w.modules[a].files, c10File{path: "common/common.proto"})
				w.modules[b].files = append(w.modules[b].files, c10File{path: "common/common.proto"})
				// not imported by anyone: an error only for modules whose closure holds both suppliers
				r.checkDeps(ctx, w)
				w2 := base()
				w2.modules[a].files = append(w2.modules[a].files, c10File{path: "common/common.proto"})
				w2.modules[b].files = append(w2.modules[b].files, c10File{path: "common/common.proto"})
				w2.modules[importer].files[1].imports = append(w2.modules[importer].files[1].imports, "common/common.proto")
				r.checkDeps(ctx, w2)
			}
		}
	}
	// the classic: an app importing a path that two otherwise unrelated libraries supply
	for _, names := range [][3]string{{"buf.build/acme/app", "buf.build/acme/lib1", "buf.build/acme/lib2"}, {"buf.build/acme/lib1", "buf.build/acme/app", "buf.build/acme/lib2"}, {"", "", ""}} {
		w := &c10Workspace{modules: []c10Module{
			{name: names[0], files: []c10File{{path: "app/app.proto", imports: []string{"shared/v1/shared.proto"}}}},
			{name: names[1], files: []c10File{{path: "shared/v1/shared.proto"}, {path: "lib1/x.proto"}}},
			{name: names[2], files: []c10File{{path: "shared/v1/shared.proto"}, {path: "lib2/x.proto"}}},
		}}
		r.checkDeps(ctx, c10FixIDs(w))
	}
	// an import nobody supplies
	for importer := 0; importer < 4; importer++ {
		w := base()
		w.modules[importer].files[1].imports = append(w.modules[importer].files[1].imports, "nobody/has/this.proto")
		r.checkDeps(ctx, w)
	}
	// cycles
	r.checkDeps(ctx, c10FixIDs(c10Graph(2, [][2]int{{0, 1}, {1, 0}})))
	r.checkDeps(ctx, c10FixIDs(c10Graph(3, [][2]int{{0, 1}, {1, 2}, {2, 0}})))
	r.checkDeps(ctx, c10FixIDs(c10Graph(4, [][2]int{{0, 1}, {1, 2}, {2, 3}, {3, 1}})))
}

// ---- getModuleForFilePathUncached and the union bucket, directly

func (r *c10Run) familyLookup(ctx context.Context) {
	var workspaces []*c10Workspace
	w := c10FixIDs(c10Graph(4, [][2]int{{0, 2}, {2, 3}, {1, 2}}))
	workspaces = append(workspaces, w)
	for a := 0; a < 4; a++ {
		for b := a + 1; b < 4; b++ {
			w := c10FixIDs(c10Graph(4, [][2]int{{0, 2}, {2, 3}}))
			w.modules[a].files = append(w.modules[a].files, c10File{path: "common/common.proto"})
			w.modules[b].files = append(w.modules[b].files, c10File{path: "common/common.proto"})
			workspaces = append(workspaces, w)
			if b+1 < 4 || a > 0 {
				c := (b + 1) % 4
				if c != a {
					w3 := c10FixIDs(c10Graph(4, nil))
					for _, m := range []int{a, b, c} {
						w3.modules[m].files = append(w3.modules[m].files, c10File{path: "common/common.proto"})
					}
					workspaces = append(workspaces, w3)
				}
			}
		}
	}
	for _, w := range workspaces {
		mset, err := w.build(ctx)
		if err != nil {
			continue
		}
		set, ok := mset.(*moduleSet)
		if !ok {
			fmt.Printf("VERIF-REPLAY generator problem: module set is a %T\n", mset)
			return
		}
		paths := map[string]bool{"nobody/has/this.proto": true, c10WKTPath: true, "common": true}
		for _, m := range w.modules {
			for _, f := range m.files {
				paths[f.path] = true
			}
		}
		union := ModuleSetToModuleReadBucketWithOnlyProtoFiles(mset)
		for p := range paths {
			r.checked++
			ps := w.providers(p)
			module, err := set.getModuleForFilePathUncached(ctx, p)
			var names []string
			for _, i := range ps {
				names = append(names, w.modules[i].id)
			}
			what := fmt.Sprintf("%s: getModuleForFilePathUncached(%q) (supplied by %v)", w.describe(), p, names)
			switch len(ps) {
			case 0:
				var pathError *fs.PathError
				if err == nil || !errors.Is(err, fs.ErrNotExist) || !errors.As(err, &pathError) || pathError.Path != p || module != nil {
					r.fail("none-is-not-exist", "%s = %v, err=%v; want a not-exist error for that path", what, module, err)
				}
			case 1:
				if err != nil || module == nil || module.OpaqueID() != w.modules[ps[0]].id {
					r.fail("unique-provider success-means-unique", "%s = %v, err=%v; want the module %s", what, module, err, w.modules[ps[0]].id)
				}
			default:
				var dup *DuplicateProtoPathError
				if err == nil || !errors.As(err, &dup) || dup.ProtoPath != p || module != nil {
					got := "<nil>"
					if module != nil {
						got = module.OpaqueID()
					}
					r.fail("duplicate-is-error success-means-unique errors-not-swallowed other-error-returned", "%s = %s, err=%v; want a DuplicateProtoPathError for the path (never an arbitrary supplier)", what, got, err)
				} else if len(dup.ModuleDescriptions) != len(ps) {
					r.fail("duplicate-is-error", "%s: the DuplicateProtoPathError names %v; %d modules supply the path", what, dup.ModuleDescriptions, len(ps))
				}
			}
			// the union of the modules' .proto files
			fileInfo, err := union.StatFileInfo(ctx, p)
			what = fmt.Sprintf("%s: StatFileInfo(%q) on the union of all modules (supplied by %v)", w.describe(), p, names)
			switch len(ps) {
			case 0:
				if err == nil || !errors.Is(err, fs.ErrNotExist) {
					r.fail("none-is-not-exist", "%s: err=%v, want not-exist", what, err)
				}
			case 1:
				if err != nil || fileInfo == nil || fileInfo.Module().OpaqueID() != w.modules[ps[0]].id || fileInfo.Path() != p {
					r.fail("single-provider success-means-single", "%s = %v, err=%v; want the file of module %s", what, fileInfo, err, w.modules[ps[0]].id)
				}
			default:
				if err == nil {
					r.fail("two-providers-is-error success-means-single", "%s = file of %s, no error; a path served by two modules must be an error", what, fileInfo.Module().OpaqueID())
				}
			}
		}
	}
	// a module whose storage fails: the failure is returned, not swallowed, not turned into not-exist
	for failing := 0; failing < 3; failing++ {
		for supplier := -1; supplier < 3; supplier++ {
			if supplier == failing {
				continue
			}
			r.checked++
			w := c10FixIDs(c10Graph(3, nil))
			w.modules[failing].failing = "common/common.proto"
			if supplier >= 0 {
				w.modules[supplier].files = append(w.modules[supplier].files, c10File{path: "common/common.proto"})
			}
			mset, err := w.build(ctx)
			if err != nil {
				continue
			}
			set := mset.(*moduleSet)
			module, err := set.getModuleForFilePathUncached(ctx, "common/common.proto")
			if err == nil || !errors.Is(err, errC10Boom) {
				got := "<nil>"
				if module != nil {
					got = module.OpaqueID()
				}
				r.fail("other-error-returned errors-not-swallowed", "%s: getModuleForFilePathUncached(\"common/common.proto\") = %s, err=%v; want the storage failure of %s", w.describe(), got, err, w.modules[failing].id)
			}
		}
	}
}

// ---- the choice among same-named candidates

type c10CommitProvider struct {
	createTimes map[uuid.UUID]time.Time
}

func (p *c10CommitProvider) GetCommitsForModuleKeys(ctx context.Context, moduleKeys []ModuleKey) ([]Commit, error) {
	out := make([]Commit, len(moduleKeys))
	for i, key := range moduleKeys {
		t, ok := p.createTimes[key.CommitID()]
		if !ok {
			return nil, fmt.Errorf("unknown commit %v", key.CommitID())
		}
		out[i] = NewCommit(key, func() (time.Time, error) { return t, nil })
	}
	return out, nil
}

func (p *c10CommitProvider) GetCommitsForCommitKeys(ctx context.Context, commitKeys []CommitKey) ([]Commit, error) {
	return nil, errors.New("not used")
}

func (r *c10Run) familySelect(ctx context.Context) {
	const name = "buf.build/acme/x"
	fullName, err := bufparse.ParseFullName(name)
	if err != nil {
		return
	}
	// three distinct local modules with that name
	var locals []Module
	for i := 0; i < 3; i++ {
		w := c10FixIDs(&c10Workspace{modules: []c10Module{{name: name, files: []c10File{{path: fmt.Sprintf("x/v%d.proto", i)}}}}})
		mset, err := w.build(ctx)
		if err != nil {
			fmt.Printf("VERIF-REPLAY generator problem: %v\n", err)
			return
		}
		locals = append(locals, mset.Modules()[0])
	}
	commitIDs := []uuid.UUID{
		uuid.MustParse("00000000-0000-4000-8000-000000000001"),
		uuid.MustParse("00000000-0000-4000-8000-000000000002"),
		uuid.MustParse("00000000-0000-4000-8000-000000000003"),
	}
	base := time.Date(2024, 1, 1, 0, 0, 0, 0, time.UTC)
	// commit 2 is the newest, commit 1 the oldest
	provider := &c10CommitProvider{createTimes: map[uuid.UUID]time.Time{commitIDs[0]: base, commitIDs[1]: base.Add(72 * time.Hour), commitIDs[2]: base.Add(24 * time.Hour)}}
	age := map[uuid.UUID]int{commitIDs[0]: 0, commitIDs[1]: 72, commitIDs[2]: 24}
	kinds := []string{"L", "Lt", "R1", "R1t", "R2", "R2t", "R3", "R3t"}
	mk := func(kind string, position int) *addedModule {
		target := strings.HasSuffix(kind, "t")
		if strings.HasPrefix(kind, "L") {
			return newLocalAddedModule(locals[position], target)
		}
		c := int(kind[1] - '1')
		key, err := NewModuleKey(fullName, commitIDs[c], func() (Digest, error) { return locals[0].Digest(DigestTypeB5) })
		if err != nil {
			panic(err)
		}
		return newRemoteAddedModule(key, nil, nil, target)
	}
	var lists [][]string
	for _, a := range kinds {
		lists = append(lists, []string{a})
		for _, b := range kinds {
			lists = append(lists, []string{a, b})
			for _, c := range kinds {
				lists = append(lists, []string{a, b, c})
			}
		}
	}
	describe := func(list []string) string {
		var out []string
		for _, k := range list {
			s := map[byte]string{'L': "local"}[k[0]]
			if k[0] == 'R' {
				s = fmt.Sprintf("remote@commit%c(+%dh)", k[1], age[commitIDs[int(k[1]-'1')]])
			}
			if strings.HasSuffix(k, "t") {
				s += ",target"
			}
			out = append(out, s)
		}
		return "[" + strings.Join(out, " | ") + "]"
	}
	// the documented choice: index set of acceptable candidates
	choose := func(list []string, useTargets bool) []int {
		var candidates []int
		if useTargets {
			for i, k := range list {
				if strings.HasSuffix(k, "t") {
					candidates = append(candidates, i)
				}
			}
		}
		if len(candidates) == 0 {
			for i := range list {
				candidates = append(candidates, i)
			}
		}
		for _, i := range candidates {
			if list[i][0] == 'L' {
				return []int{i}
			}
		}
		newest := -1
		for _, i := range candidates {
			if a := age[commitIDs[int(list[i][1]-'1')]]; a > newest {
				newest = a
			}
		}
		var out []int
		for _, i := range candidates {
			if age[commitIDs[int(list[i][1]-'1')]] == newest {
				out = append(out, i)
			}
		}
		return out
	}
	check := func(fn string, list []string, got *addedModule, err error, acceptable []int, in []*addedModule) {
		if err != nil {
			r.fail("member local-first target-local-first error-only-for-remotes single", "%s(candidates %s): error %v", fn, describe(list), err)
			return
		}
		for _, i := range acceptable {
			if in[i] == got {
				return
			}
		}
		gotIndex := -1
		for i := range in {
			if in[i] == got {
				gotIndex = i
			}
		}
		r.fail("local-first local-beats-remote first-local-exists target-local-first target-beats-non-target no-target-local-first only-target-selected member single members order unique-match complete groups", "%s(candidates %s) chose candidate #%d; documented choice (target over non-target, then local over remote in the order added, then the newest remote commit): #%v", fn, describe(list), gotIndex, acceptable)
	}
	for _, list := range lists {
		r.checked++
		in := make([]*addedModule, len(list))
		for i, k := range list {
			in[i] = mk(k, i)
		}
		got, err := selectAddedModuleForOpaqueID(ctx, provider, in)
		check("selectAddedModuleForOpaqueID", list, got, err, choose(list, true), in)
		got, err = selectAddedModuleForOpaqueIDIgnoreTargeting(ctx, provider, in)
		check("selectAddedModuleForOpaqueIDIgnoreTargeting", list, got, err, choose(list, false), in)
		anyLocal := false
		for _, k := range list {
			if k[0] == 'L' {
				anyLocal = true
			}
		}
		got, err = selectRemoteAddedModuleForOpaqueIDIgnoreTargeting(ctx, provider, in)
		if anyLocal {
			if err == nil {
				r.fail("local-rejected", "selectRemoteAddedModuleForOpaqueIDIgnoreTargeting(candidates %s): no error although a candidate is local", describe(list))
			}
		} else {
			check("selectRemoteAddedModuleForOpaqueIDIgnoreTargeting", list, got, err, choose(list, false), in)
		}
		// the accessors
		for i, k := range list {
			if in[i].IsLocal() != (k[0] == 'L') || in[i].IsTarget() != strings.HasSuffix(k, "t") || in[i].OpaqueID() != name {
				r.fail("IsLocal IsTarget OpaqueID", "added module %s: IsLocal()=%v IsTarget()=%v OpaqueID()=%q", describe([]string{k}), in[i].IsLocal(), in[i].IsTarget(), in[i].OpaqueID())
			}
		}
	}
	r.checked++
	if _, err := selectRemoteAddedModuleForOpaqueIDIgnoreTargeting(ctx, provider, nil); err == nil {
		r.fail("empty-rejected", "selectRemoteAddedModuleForOpaqueIDIgnoreTargeting(no candidates): no error")
	}
	// through the builder: a local module and a same-named local module added later, target first
	for _, order := range [][2]bool{{true, false}, {false, true}} {
		r.checked++
		builder := NewModuleSetBuilder(ctx, c10Logger, NopModuleDataProvider, NopCommitProvider)
		for i, target := range order {
			bucket, err := storagemem.NewReadBucket(map[string][]byte{fmt.Sprintf("x/v%d.proto", i): []byte("syntax = \"proto3\";\npackage x;\n")})
			if err != nil {
				return
			}
			builder.AddLocalModule(bucket, fmt.Sprintf("bucket-%d", i), target, LocalModuleWithFullNameAndCommitID(fullName, uuid.New()))
		}
		mset, err := builder.Build()
		if err != nil {
			r.fail("member", "ModuleSetBuilder with two local modules named %s (targets %v): error %v", name, order, err)
			continue
		}
		modules := mset.Modules()
		wantBucket := "bucket-0"
		if order[1] {
			wantBucket = "bucket-1"
		}
		if len(modules) != 1 || modules[0].BucketID() != wantBucket || !modules[0].IsTarget() {
			var got []string
			for _, m := range modules {
				got = append(got, fmt.Sprintf("%s(%s,target=%v)", m.OpaqueID(), m.BucketID(), m.IsTarget()))
			}
			r.fail("target-beats-non-target only-target-selected target-local-first", "ModuleSetBuilder with two local modules named %s added as [bucket-0 target=%v, bucket-1 target=%v] builds %v; want only the targeted one (%s)", name, order[0], order[1], got, wantBucket)
		}
	}
}

// ---- protoFileTracker directly

func (r *c10Run) familyTracker(ctx context.Context) {
	w := c10FixIDs(c10Graph(3, nil))
	w.modules[0].files = append(w.modules[0].files, c10File{path: "common/common.proto"})
	w.modules[2].files = append(w.modules[2].files, c10File{path: "common/common.proto"})
	mset, err := w.build(ctx)
	if err != nil {
		return
	}
	modules := mset.Modules()
	infos := map[string][]FileInfo{}
	for _, m := range modules {
		m := m
		_ = m.WalkFileInfos(ctx, func(fileInfo FileInfo) error {
			infos[m.OpaqueID()] = append(infos[m.OpaqueID()], fileInfo)
			return nil
		})
	}
	// every subset of modules tracked; for each tracked module its files are tracked or not
	for mask := 0; mask < 1<<len(modules); mask++ {
		for filesMask := 0; filesMask < 1<<len(modules); filesMask++ {
			r.checked++
			tracker := newProtoFileTracker()
			if tracker == nil || tracker.opaqueIDToProtoFileExists == nil || tracker.protoPathToOpaqueIDMap == nil || len(tracker.protoPathToOpaqueIDMap) != 0 || len(tracker.opaqueIDToProtoFileExists) != 0 {
				r.fail("newProtoFileTracker", "newProtoFileTracker() is not empty / allocated")
				return
			}
			var steps []string
			paths := map[string]map[string]bool{}
			withoutProto := ""
			for i, m := range modules {
				if mask&(1<<i) == 0 {
					continue
				}
				tracker.trackModule(m)
				steps = append(steps, "trackModule("+m.OpaqueID()+")")
				if filesMask&(1<<i) != 0 {
					for _, fileInfo := range infos[m.OpaqueID()] {
						tracker.trackFileInfo(fileInfo)
						steps = append(steps, "trackFileInfo("+fileInfo.Path()+" of "+m.OpaqueID()+")")
						if paths[fileInfo.Path()] == nil {
							paths[fileInfo.Path()] = map[string]bool{}
						}
						paths[fileInfo.Path()][m.OpaqueID()] = true
					}
					// tracking the module again must not forget that it has .proto files
					tracker.trackModule(m)
				} else {
					withoutProto = m.OpaqueID()
				}
			}
			duplicate := ""
			for p, ids := range paths {
				if len(ids) > 1 {
					duplicate = p
				}
			}
			err := tracker.validate()
			wantErr := duplicate != "" || withoutProto != ""
			if (err != nil) != wantErr {
				tag := "clean-is-nil"
				if duplicate != "" {
					tag = "duplicate-path-is-error proto-tracked-by-path-and-module ids-of-path id-count path-set"
				} else if withoutProto != "" {
					tag = "module-without-proto-is-error tracked flag-kept module-has-proto"
				}
				r.fail(tag, "protoFileTracker after %v: validate() = %v; path held by two modules: %q, tracked module without .proto file: %q", steps, err, duplicate, withoutProto)
				continue
			}
			if err != nil && duplicate != "" {
				var dup *DuplicateProtoPathError
				if !errors.As(err, &dup) || dup.ProtoPath != duplicate {
					r.fail("duplicate-path-is-error", "protoFileTracker after %v: validate() = %v; want a DuplicateProtoPathError for %q", steps, err, duplicate)
				}
			}
		}
	}
}

// ==== a2: what the module set builder records and builds, the module set, the target-file filters
//
// Inputs: (1) every sequence of one to three Add* calls out of 28 kinds (local / remote, target / non-target,
// unnamed / named x / named y, remote commits of different age, no paths / target+exclude paths / only target
// paths / only exclude paths / a proto-file target), the remote modules served by an in-memory ModuleDataProvider;
// followed by the direct de-duplication, Build, a second Build, Add* after Build and WithTargetOpaqueIDs for every
// non-empty subset of the built modules. (2) a module with the files a/a.proto a/b/b.proto c/c.proto LICENSE
// README.md buf.md x target paths subsets of {a, a/b, c, a/a.proto} x exclude paths subsets of {a/b, c} x
// target / non-target, looked at through Walk / Stat / GetFile of the module, of ModuleReadBucketWithOnlyFileTypes
// (all 8 type sets) and of ModuleReadBucketWithOnlyTargetFiles. (3) newModuleSet on hand-built module lists whose
// OpaqueIDs / names / bucket IDs / descriptions collide or not.
//
// Oracle (doc comments of ModuleSetBuilder, LocalModuleWithTargetPaths, RemoteModuleWithTargetPaths, ModuleSet,
// ModuleReadBucketWithOnly*): Build works once; Add* after Build is an error; paths on a non-target module are an
// error reported by Build; a non-empty builder needs a target; one module per OpaqueID (target over non-target,
// local over remote in the order added, newest remote commit), sorted by OpaqueID, with IsTarget / IsLocal as
// added; a file is a target file iff its module is a target and it lies under a target path (any file when there
// are none) and under no exclude path; a filtered bucket shows only the listed file types, a targeted bucket only
// target files (others are not-exist); WithTargetOpaqueIDs makes exactly the named modules targets.

var c10aFiles = []string{"a/a.proto", "a/b/b.proto", "c/c.proto", "LICENSE", "README.md", "buf.md"}

// the files of the module: buf.md is the documentation file, README.md is discarded (GetDocFile doc comment)
var c10aModuleFiles = []string{"LICENSE", "a/a.proto", "a/b/b.proto", "buf.md", "c/c.proto"}

var c10aPackage = map[string]string{"a/a.proto": "pkg.a", "a/b/b.proto": "pkg.a", "c/c.proto": "pkg.c"}

func c10aNewBucket() storage.ReadBucket {
	data := map[string][]byte{}
	for _, p := range c10aFiles {
		if pkg, ok := c10aPackage[p]; ok {
			data[p] = []byte("syntax = \"proto3\";\npackage " + pkg + ";\n")
		} else {
			data[p] = []byte("text of " + p + "\n")
		}
	}
	bucket, err := storagemem.NewReadBucket(data)
	if err != nil {
		panic(err)
	}
	return bucket
}

type c10aTargeting struct {
	tp, ex      []string
	protoTarget string
	includePkg  bool
}

func (tg c10aTargeting) String() string {
	if tg.protoTarget != "" {
		return fmt.Sprintf("proto-file target %s (package files=%v)", tg.protoTarget, tg.includePkg)
	}
	if len(tg.tp)+len(tg.ex) == 0 {
		return "no paths"
	}
	return fmt.Sprintf("target paths %v exclude paths %v", tg.tp, tg.ex)
}

func (tg c10aTargeting) empty() bool {
	return len(tg.tp) == 0 && len(tg.ex) == 0 && tg.protoTarget == ""
}

func c10aUnder(dir string, path string) bool {
	return path == dir || strings.HasPrefix(path, dir+"/")
}

func c10aWantType(path string) FileType {
	switch {
	case strings.HasSuffix(path, ".proto"):
		return FileTypeProto
	case path == "LICENSE":
		return FileTypeLicense
	default:
		return FileTypeDoc
	}
}

func c10aWantTarget(isTarget bool, tg c10aTargeting, path string) bool {
	if !isTarget {
		return false
	}
	if tg.protoTarget != "" {
		if !strings.HasSuffix(path, ".proto") {
			return false
		}
		if path == tg.protoTarget {
			return true
		}
		return tg.includePkg && c10aPackage[tg.protoTarget] != "" && c10aPackage[tg.protoTarget] == c10aPackage[path]
	}
	in := len(tg.tp) == 0
	for _, t := range tg.tp {
		if c10aUnder(t, path) {
			in = true
		}
	}
	for _, e := range tg.ex {
		if c10aUnder(e, path) {
			in = false
		}
	}
	return in
}

func c10aEntry(path string, fileType FileType, target bool) string {
	s := path + ":" + fileType.String()
	if target {
		s += ":TARGET"
	}
	return s
}

// the expected listing: all files of the module (onlyTargets: the target files), of the given types
func c10aWantListing(isTarget bool, tg c10aTargeting, onlyTargets bool, types map[FileType]bool) string {
	var out []string
	for _, p := range c10aModuleFiles {
		target := c10aWantTarget(isTarget, tg, p)
		if onlyTargets && !target {
			continue
		}
		if types != nil && !types[c10aWantType(p)] {
			continue
		}
		out = append(out, c10aEntry(p, c10aWantType(p), target))
	}
	return "[" + strings.Join(out, " ") + "]"
}

func c10aListing(ctx context.Context, bucket ModuleReadBucket, owner string, options ...WalkFileInfosOption) string {
	var out []string
	err := bucket.WalkFileInfos(ctx, func(fileInfo FileInfo) error {
		entry := c10aEntry(fileInfo.Path(), fileInfo.FileType(), fileInfo.IsTargetFile())
		if fileInfo.Module() == nil || fileInfo.Module().OpaqueID() != owner {
			entry += ":WRONG-MODULE"
		}
		out = append(out, entry)
		return nil
	}, options...)
	sort.Strings(out)
	s := "[" + strings.Join(out, " ") + "]"
	if err != nil {
		s += " err=" + err.Error()
	}
	return s
}

const (
	c10aTagNonTargetModule = "non-target-module-file-never-target target-flag-is-the-decision as-given"
	c10aTagDecision        = "target-flag-is-the-decision target-paths-normalized target-path-set exclude-path-set targeting-from-options remote-path-filters file-target-normalized own-read-bucket-same-targeting same-targeting target-paths-as-given exclude-paths-as-given file-target-as-given paths-as-given target-as-given as-given proto license success-is-classified file-of-this-module"
	c10aTagTargetedStat    = "only-target-files-visible non-target-file-is-absent target-file-found delegate-error-forwarded"
	c10aTagFilteredWalk    = "only-listed-types-handed-on other-types-skipped listed-type-handed-on exactly-the-listed-types"
	c10aTagFilteredStat    = "only-listed-types-visible other-type-is-absent listed-type-found exactly-the-listed-types"
)

// the files of one module as seen through the module, the file-type filter and the target-file filter
func (r *c10Run) c10aCheckFiles(ctx context.Context, what string, module Module, isTarget bool, tg c10aTargeting, deep bool) {
	owner := module.OpaqueID()
	flagTag := c10aTagDecision
	if !isTarget {
		flagTag = c10aTagNonTargetModule
	}
	if got, want := c10aListing(ctx, module, owner), c10aWantListing(isTarget, tg, false, nil); got != want {
		r.failAt(flagTag, what, ": WalkFileInfos = %s; want %s", got, want)
	}
	if !deep {
		return
	}
	if got, want := c10aListing(ctx, module, owner, WalkFileInfosWithOnlyTargetFiles()), c10aWantListing(isTarget, tg, true, nil); got != want {
		r.failAt(flagTag, what, ": WalkFileInfos(only target files) = %s; want %s", got, want)
	}
	inModule := map[string]bool{}
	for _, p := range c10aModuleFiles {
		inModule[p] = true
	}
	paths := append(append([]string{}, c10aFiles...), "a/nobody.proto")
	for _, p := range paths {
		fileInfo, err := module.StatFileInfo(ctx, p)
		if !inModule[p] {
			if err == nil || !errors.Is(err, fs.ErrNotExist) {
				r.failAt("unclassified-rejected", what, ": StatFileInfo(%q): err=%v; want not-exist (not a file of the module)", p, err)
			}
			continue
		}
		if err != nil || fileInfo == nil {
			r.failAt(flagTag, what, ": StatFileInfo(%q): err=%v; want the file", p, err)
			continue
		}
		if got, want := c10aEntry(fileInfo.Path(), fileInfo.FileType(), fileInfo.IsTargetFile()), c10aEntry(p, c10aWantType(p), c10aWantTarget(isTarget, tg, p)); got != want || fileInfo.Module() == nil || fileInfo.Module().OpaqueID() != owner {
			gotOwner := "<nil>"
			if fileInfo.Module() != nil {
				gotOwner = fileInfo.Module().OpaqueID()
			}
			r.failAt(flagTag, what, ": StatFileInfo(%q) = %s of module %s; want %s of module %s", p, got, gotOwner, want, owner)
		}
	}
	// only target files
	targeted := ModuleReadBucketWithOnlyTargetFiles(module)
	if got, want := c10aListing(ctx, targeted, owner), c10aWantListing(isTarget, tg, true, nil); got != want {
		r.failAt(flagTag+" "+c10aTagTargetedStat, what, ": ModuleReadBucketWithOnlyTargetFiles: WalkFileInfos = %s; want %s", got, want)
	}
	for _, p := range paths {
		wantVisible := inModule[p] && c10aWantTarget(isTarget, tg, p)
		fileInfo, err := targeted.StatFileInfo(ctx, p)
		file, fileErr := targeted.GetFile(ctx, p)
		if file != nil {
			_ = file.Close()
		}
		if wantVisible {
			if err != nil || fileInfo == nil || !fileInfo.IsTargetFile() || fileInfo.Path() != p || fileErr != nil {
				r.failAt(c10aTagTargetedStat+" "+flagTag, what, ": ModuleReadBucketWithOnlyTargetFiles: StatFileInfo(%q) = %v err=%v, GetFile err=%v; want the target file", p, fileInfo, err, fileErr)
			}
			continue
		}
		var pathError *fs.PathError
		if err == nil || fileInfo != nil || !errors.Is(err, fs.ErrNotExist) || (inModule[p] && (!errors.As(err, &pathError) || pathError.Path != p)) {
			got := "<nil>"
			if fileInfo != nil {
				got = c10aEntry(fileInfo.Path(), fileInfo.FileType(), fileInfo.IsTargetFile())
			}
			r.failAt(c10aTagTargetedStat+" "+flagTag, what, ": ModuleReadBucketWithOnlyTargetFiles: StatFileInfo(%q) = %s err=%v; want not-exist (%q is not a target file)", p, got, err, p)
		}
		if fileErr == nil || !errors.Is(fileErr, fs.ErrNotExist) {
			r.failAt(c10aTagTargetedStat, what, ": ModuleReadBucketWithOnlyTargetFiles: GetFile(%q): err=%v; want not-exist (%q is not a target file)", p, fileErr, p)
		}
	}
	// only some file types
	allTypes := []FileType{FileTypeProto, FileTypeDoc, FileTypeLicense}
	for mask := 0; mask < 8; mask++ {
		var types []FileType
		typeSet := map[FileType]bool{}
		for i, t := range allTypes {
			if mask&(1<<i) != 0 {
				types = append(types, t)
				typeSet[t] = true
			}
		}
		filtered := ModuleReadBucketWithOnlyFileTypes(module, types...)
		if got, want := c10aListing(ctx, filtered, owner), c10aWantListing(isTarget, tg, false, typeSet); got != want {
			r.failAt(c10aTagFilteredWalk, what, ": ModuleReadBucketWithOnlyFileTypes(%v): WalkFileInfos = %s; want %s", types, got, want)
		}
		if got, want := c10aListing(ctx, filtered, owner, WalkFileInfosWithOnlyTargetFiles()), c10aWantListing(isTarget, tg, true, typeSet); got != want {
			r.failAt(c10aTagFilteredWalk+" "+flagTag, what, ": ModuleReadBucketWithOnlyFileTypes(%v): WalkFileInfos(only target files) = %s; want %s", types, got, want)
		}
		for _, p := range paths {
			wantVisible := inModule[p] && typeSet[c10aWantType(p)]
			fileInfo, err := filtered.StatFileInfo(ctx, p)
			if wantVisible {
				if err != nil || fileInfo == nil || fileInfo.Path() != p || fileInfo.FileType() != c10aWantType(p) {
					r.failAt(c10aTagFilteredStat, what, ": ModuleReadBucketWithOnlyFileTypes(%v): StatFileInfo(%q) = %v err=%v; want the file", types, p, fileInfo, err)
				}
				continue
			}
			if err == nil || fileInfo != nil || !errors.Is(err, fs.ErrNotExist) {
				r.failAt(c10aTagFilteredStat, what, ": ModuleReadBucketWithOnlyFileTypes(%v): StatFileInfo(%q) = %v err=%v; want not-exist", types, p, fileInfo, err)
			}
		}
	}
}

func c10aModuleFlags(module Module) string {
	if module == nil {
		return "<nil>"
	}
	return fmt.Sprintf("{OpaqueID=%s BucketID=%q IsTarget=%v IsLocal=%v}", module.OpaqueID(), module.BucketID(), module.IsTarget(), module.IsLocal())
}

func c10aSubset(choices []string, mask int) []string {
	var out []string
	for i, c := range choices {
		if mask&(1<<i) != 0 {
			out = append(out, c)
		}
	}
	return out
}

func c10aNilObjectData() (ObjectData, error) { return nil, nil }

func (r *c10Run) familyTargetFiles(ctx context.Context) {
	otherBucket, err := storagemem.NewReadBucket(map[string][]byte{"z/z.proto": []byte("syntax = \"proto3\";\npackage z;\n")})
	if err != nil {
		return
	}
	var targetings []c10aTargeting
	for tpMask := 0; tpMask < 16; tpMask++ {
		for exMask := 0; exMask < 4; exMask++ {
			targetings = append(targetings, c10aTargeting{tp: c10aSubset([]string{"a", "a/b", "c", "a/a.proto"}, tpMask), ex: c10aSubset([]string{"a/b", "c"}, exMask)})
		}
	}
	for _, p := range []string{"a/a.proto", "a/b/b.proto", "c/c.proto", "d/none.proto"} {
		targetings = append(targetings, c10aTargeting{protoTarget: p}, c10aTargeting{protoTarget: p, includePkg: true})
	}
	for _, tg := range targetings {
		for _, isTarget := range []bool{true, false} {
			r.checked++
			what := fmt.Sprintf("module bucket-m {%s} added with AddLocalModule(isTarget=%v, %s) next to the target module bucket-other", strings.Join(c10aFiles, " "), isTarget, tg)
			builder := NewModuleSetBuilder(ctx, c10Logger, NopModuleDataProvider, NopCommitProvider)
			var options []LocalModuleOption
			if len(tg.tp)+len(tg.ex) > 0 {
				options = append(options, LocalModuleWithTargetPaths(tg.tp, tg.ex))
			}
			if tg.protoTarget != "" {
				options = append(options, LocalModuleWithProtoFileTargetPath(tg.protoTarget, tg.includePkg))
			}
			builder.AddLocalModule(c10aNewBucket(), "bucket-m", isTarget, options...)
			builder.AddLocalModule(otherBucket, "bucket-other", true)
			mset, err := builder.Build()
			if !isTarget && !tg.empty() {
				if err == nil {
					r.failAt("non-target-has-no-targeting one-record-or-one-error add-errors-reported", what, ": Build() succeeds; paths for a non-target module are documented as an error during Build()")
				}
				// the unexported constructor accepts them: still no file of a non-target module is a target file
				bucket := c10aNewBucket()
				module, err := newModule(ctx, getSyncOnceValuesGetBucketWithStorageMatcherApplied(ctx, func() (storage.ReadBucket, error) { return bucket, nil }),
					"bucket-m", "", nil, uuid.Nil, false, true, c10aNilObjectData, c10aNilObjectData, func() ([]ModuleKey, error) { return nil, nil },
					tg.tp, tg.ex, tg.protoTarget, tg.includePkg)
				if err != nil {
					r.fail("otherwise-accepted", "newModule(bucket-m, isTarget=false, %s): error %v", tg, err)
					continue
				}
				if module.IsTarget() || !module.IsLocal() || module.BucketID() != "bucket-m" {
					r.fail("flags-as-given identity-as-given", "newModule(bucket-m, isTarget=false, isLocal=true, %s): IsTarget=%v IsLocal=%v BucketID=%q", tg, module.IsTarget(), module.IsLocal(), module.BucketID())
				}
				r.c10aCheckFiles(ctx, fmt.Sprintf("module bucket-m {%s} made with newModule(isTarget=false, %s)", strings.Join(c10aFiles, " "), tg), module, false, tg, true)
				continue
			}
			if err != nil {
				r.failAt("otherwise-accepted one-record-or-one-error", what, ": Build() fails: %v", err)
				continue
			}
			module := mset.GetModuleForBucketID("bucket-m")
			if module == nil || module.IsTarget() != isTarget || !module.IsLocal() {
				r.failAt("flags-as-given module-flags record-as-given records-module", what, ": built module %s: want IsTarget=%v IsLocal=true", c10aModuleFlags(module), isTarget)
				continue
			}
			r.c10aCheckFiles(ctx, what, module, isTarget, tg, true)
			// WithTargetOpaqueIDs: the module keeps its paths, only the flag changes
			for _, ids := range [][]string{{"bucket-other"}, {"bucket-m"}, {"bucket-m", "bucket-other"}} {
				r.checked++
				want := ids[0] == "bucket-m"
				what2 := fmt.Sprintf("%s, then WithTargetOpaqueIDs(%s)", what, strings.Join(ids, ", "))
				mset2, err := mset.WithTargetOpaqueIDs(ids...)
				if err != nil || mset2 == nil {
					r.failAt("copy-with-flag same-modules-retargeted", what2, ": error %v", err)
					continue
				}
				module2 := mset2.GetModuleForOpaqueID("bucket-m")
				if module2 == nil || module2.IsTarget() != want || module2.BucketID() != "bucket-m" || !module2.IsLocal() {
					r.failAt("copy-with-flag same-modules-retargeted identity-kept inv-step", what2, ": module bucket-m is now %s; want IsTarget=%v", c10aModuleFlags(module2), want)
					continue
				}
				if module.IsTarget() != isTarget {
					r.failAt("original-untouched", what2, ": the module of the original set changed its IsTarget to %v", module.IsTarget())
				}
				r.c10aCheckFiles(ctx, what2, module2, want, tg, false)
			}
		}
	}
}

// ---- the builder

type c10aAdd struct {
	local  bool
	target bool
	name   string // "" = an unnamed local module (OpaqueID = bucket ID)
	commit int    // remote: index into c10aCommitIDs
	tg     c10aTargeting
}

var c10aCommitIDs = []uuid.UUID{
	uuid.MustParse("00000000-0000-4000-8000-0000000000a1"), // x, old
	uuid.MustParse("00000000-0000-4000-8000-0000000000a2"), // x, 48h newer
	uuid.MustParse("00000000-0000-4000-8000-0000000000a3"), // y
}
var c10aCommitAge = []int{0, 48, 24}

const c10aNameX = "buf.build/acme/x"
const c10aNameY = "buf.build/acme/y"

func (a c10aAdd) describe() string {
	var s string
	if a.local {
		s = "AddLocalModule(" + map[bool]string{true: "unnamed", false: a.name}[a.name == ""]
	} else {
		s = fmt.Sprintf("AddRemoteModule(%s@commit%d(+%dh)", a.name, a.commit+1, c10aCommitAge[a.commit])
	}
	s += map[bool]string{true: ", target", false: ", non-target"}[a.target]
	if !a.tg.empty() {
		s += ", " + a.tg.String()
	}
	return s + ")"
}

func c10aDescribeSeq(seq []c10aAdd) string {
	var parts []string
	for _, a := range seq {
		parts = append(parts, a.describe())
	}
	return "builder calls [" + strings.Join(parts, "; ") + "]"
}

func (a c10aAdd) id(pos int) string {
	if a.name != "" {
		return a.name
	}
	return fmt.Sprintf("bucket-%d", pos)
}

type c10aDataProvider struct {
	ctx       context.Context
	bucket    storage.ReadBucket
	requested []uuid.UUID
}

func (p *c10aDataProvider) GetModuleDatasForModuleKeys(ctx context.Context, moduleKeys []ModuleKey) ([]ModuleData, error) {
	out := make([]ModuleData, len(moduleKeys))
	for i, key := range moduleKeys {
		p.requested = append(p.requested, key.CommitID())
		out[i] = NewModuleData(ctx, key, func() (storage.ReadBucket, error) { return p.bucket, nil }, func() ([]ModuleKey, error) { return nil, nil }, c10aNilObjectData, c10aNilObjectData)
	}
	return out, nil
}

// the documented choice among the candidates (positions in seq) with one OpaqueID: the acceptable positions
func c10aChoose(seq []c10aAdd, positions []int) []int {
	var pool []int
	for _, p := range positions {
		if seq[p].target {
			pool = append(pool, p)
		}
	}
	if len(pool) == 0 {
		pool = positions
	}
	for _, p := range pool {
		if seq[p].local {
			return []int{p}
		}
	}
	newest := -1
	for _, p := range pool {
		if age := c10aCommitAge[seq[p].commit]; age > newest {
			newest = age
		}
	}
	var out []int
	for _, p := range pool {
		if c10aCommitAge[seq[p].commit] == newest {
			out = append(out, p)
		}
	}
	return out
}

func c10aKinds() []c10aAdd {
	both := c10aTargeting{tp: []string{"a"}, ex: []string{"a/b"}}
	var kinds []c10aAdd
	for _, target := range []bool{true, false} {
		for _, name := range []string{"", c10aNameX, c10aNameY} {
			kinds = append(kinds, c10aAdd{local: true, target: target, name: name}, c10aAdd{local: true, target: target, name: name, tg: both})
		}
		kinds = append(kinds, c10aAdd{local: true, target: target, name: c10aNameX, tg: c10aTargeting{protoTarget: "a/a.proto"}})
		for _, remote := range []struct {
			name   string
			commit int
		}{{c10aNameX, 0}, {c10aNameX, 1}, {c10aNameY, 2}} {
			kinds = append(kinds, c10aAdd{target: target, name: remote.name, commit: remote.commit}, c10aAdd{target: target, name: remote.name, commit: remote.commit, tg: both})
		}
	}
	kinds = append(kinds, c10aAdd{local: true, target: true, tg: c10aTargeting{tp: []string{"c"}}})
	kinds = append(kinds, c10aAdd{target: true, name: c10aNameY, commit: 2, tg: c10aTargeting{ex: []string{"a"}}})
	return kinds
}

type c10aEnv struct {
	bucket         storage.ReadBucket
	digest         Digest
	names          map[string]bufparse.FullName
	commitProvider *c10CommitProvider
}

func c10aNewEnv(ctx context.Context) (*c10aEnv, error) {
	env := &c10aEnv{bucket: c10aNewBucket(), names: map[string]bufparse.FullName{}}
	filtered, err := getSyncOnceValuesGetBucketWithStorageMatcherApplied(ctx, func() (storage.ReadBucket, error) { return env.bucket, nil })()
	if err != nil {
		return nil, err
	}
	env.digest, err = getB5DigestForBucketAndDepModuleKeys(ctx, filtered, nil)
	if err != nil {
		return nil, err
	}
	for _, name := range []string{c10aNameX, c10aNameY} {
		fullName, err := bufparse.ParseFullName(name)
		if err != nil {
			return nil, err
		}
		env.names[name] = fullName
	}
	base := time.Date(2024, 1, 1, 0, 0, 0, 0, time.UTC)
	env.commitProvider = &c10CommitProvider{createTimes: map[uuid.UUID]time.Time{}}
	for i, id := range c10aCommitIDs {
		env.commitProvider.createTimes[id] = base.Add(time.Duration(c10aCommitAge[i]) * time.Hour)
	}
	return env, nil
}

func c10aModuleSignature(ctx context.Context, module Module) string {
	s := map[bool]string{true: "local", false: "remote"}[module.IsLocal()]
	s += map[bool]string{true: ",target", false: ",non-target"}[module.IsTarget()]
	if module.BucketID() != "" {
		s += "," + module.BucketID()
	}
	if module.CommitID() != uuid.Nil {
		for i, id := range c10aCommitIDs {
			if id == module.CommitID() {
				s += fmt.Sprintf(",commit%d", i+1)
			}
		}
	}
	return s + ",files" + c10aListing(ctx, module, module.OpaqueID())
}

func c10aWantSignature(a c10aAdd, pos int) string {
	s := map[bool]string{true: "local", false: "remote"}[a.local]
	s += map[bool]string{true: ",target", false: ",non-target"}[a.target]
	if a.local {
		s += fmt.Sprintf(",bucket-%d", pos)
	} else {
		s += fmt.Sprintf(",commit%d", a.commit+1)
	}
	return s + ",files" + c10aWantListing(a.target, a.tg, false, nil)
}

const (
	c10aTagIDs      = "inv-step every-opaque-id-kept visited-ids-kept one-per-opaque-id distinct-ids sorted-by-opaque-id members local-over-pinned opaque-ids-unique modules-as-given one-module-per-kept-record kept-records-were-added"
	c10aTagRecord   = "records-module records-key records-paths record-as-given not-remote not-local module-flags"
	c10aTagFlags    = "remote-module-from-key remote-from-key remote-modules-from-their-keys flags-as-given records-module record-as-given target-kept module-flags"
	c10aTagIdentity = "local-over-pinned local-as-is local-is-returned-as-is one-module-per-kept-record kept-records-were-added inv-step local-kept-unless-remote-target target-kept identity-as-given"
	c10aTagRetarget = "copy-with-flag same-modules-retargeted identity-kept inv-step"
)

func (r *c10Run) c10aRunSequence(ctx context.Context, env *c10aEnv, seq []c10aAdd, retarget bool) {
	r.checked++
	what := c10aDescribeSeq(seq)
	dataProvider := &c10aDataProvider{bucket: env.bucket}
	builder, ok := NewModuleSetBuilder(ctx, c10Logger, dataProvider, env.commitProvider).(*moduleSetBuilder)
	if !ok || builder == nil || len(builder.addedModules) != 0 || len(builder.errs) != 0 {
		r.fail("fresh empty providers-as-given", "NewModuleSetBuilder does not return an empty *moduleSetBuilder")
		return
	}
	anyAddError := false
	var valid []int
	for pos, a := range seq {
		beforeAdded, beforeErrs := len(builder.addedModules), len(builder.errs)
		var returned ModuleSetBuilder
		var key ModuleKey
		if a.local {
			var options []LocalModuleOption
			if a.name != "" {
				options = append(options, LocalModuleWithFullName(env.names[a.name]))
			}
			if len(a.tg.tp)+len(a.tg.ex) > 0 {
				options = append(options, LocalModuleWithTargetPaths(a.tg.tp, a.tg.ex))
			}
			if a.tg.protoTarget != "" {
				options = append(options, LocalModuleWithProtoFileTargetPath(a.tg.protoTarget, a.tg.includePkg))
			}
			returned = builder.AddLocalModule(env.bucket, fmt.Sprintf("bucket-%d", pos), a.target, options...)
		} else {
			var err error
			key, err = NewModuleKey(env.names[a.name], c10aCommitIDs[a.commit], func() (Digest, error) { return env.digest, nil })
			if err != nil {
				fmt.Printf("VERIF-REPLAY generator problem: %v\n", err)
				return
			}
			var options []RemoteModuleOption
			if len(a.tg.tp)+len(a.tg.ex) > 0 {
				options = append(options, RemoteModuleWithTargetPaths(a.tg.tp, a.tg.ex))
			}
			returned = builder.AddRemoteModule(key, a.target, options...)
		}
		if returned != ModuleSetBuilder(builder) {
			r.failAt("same-builder", what, ": call #%d does not return the same builder", pos+1)
		}
		wantError := !a.target && !a.tg.empty()
		gotError := len(builder.errs) == beforeErrs+1 && len(builder.addedModules) == beforeAdded
		gotRecord := len(builder.errs) == beforeErrs && len(builder.addedModules) == beforeAdded+1
		switch {
		case wantError && !gotError:
			r.failAt("non-target-has-no-paths non-target-has-no-targeting one-record-or-one-error", what, ": call #%d %s records %d module(s) and %d error(s); want one error and no module (paths are only valid for a target module)", pos+1, a.describe(), len(builder.addedModules)-beforeAdded, len(builder.errs)-beforeErrs)
		case !wantError && !gotRecord:
			r.failAt("one-record-or-one-error target-never-refused no-options-no-filters error-recorded", what, ": call #%d %s records %d module(s) and %d error(s); want one module and no error", pos+1, a.describe(), len(builder.addedModules)-beforeAdded, len(builder.errs)-beforeErrs)
		}
		if wantError {
			anyAddError = true
		} else {
			valid = append(valid, pos)
		}
		if gotRecord {
			record := builder.addedModules[len(builder.addedModules)-1]
			bad := record == nil || record.IsTarget() != a.target || record.IsLocal() != a.local || record.OpaqueID() != a.id(pos)
			if !bad && a.local {
				bad = record.localModule == nil || record.remoteModuleKey != nil || record.localModule.IsTarget() != a.target || !record.localModule.IsLocal() || record.localModule.BucketID() != fmt.Sprintf("bucket-%d", pos)
			}
			if !bad && !a.local {
				bad = record.localModule != nil || record.remoteModuleKey != key || fmt.Sprint(record.remoteTargetPaths) != fmt.Sprint(a.tg.tp) || fmt.Sprint(record.remoteTargetExcludePaths) != fmt.Sprint(a.tg.ex)
			}
			if bad {
				got := "<nil>"
				if record != nil {
					got = fmt.Sprintf("{IsTarget=%v IsLocal=%v remoteTargetPaths=%v remoteTargetExcludePaths=%v}", record.IsTarget(), record.IsLocal(), record.remoteTargetPaths, record.remoteTargetExcludePaths)
				}
				r.failAt(c10aTagRecord, what, ": call #%d %s records the added module %s; want it as given", pos+1, a.describe(), got)
			}
		}
	}
	// the expectation: OpaqueID -> acceptable positions
	groups := map[string][]int{}
	anyTarget := false
	for _, pos := range valid {
		groups[seq[pos].id(pos)] = append(groups[seq[pos].id(pos)], pos)
		anyTarget = anyTarget || seq[pos].target
	}
	var wantIDs []string
	for id := range groups {
		wantIDs = append(wantIDs, id)
	}
	sort.Strings(wantIDs)
	wantFor := func(id string) string {
		var out []string
		for _, pos := range c10aChoose(seq, groups[id]) {
			out = append(out, fmt.Sprintf("call #%d = %s", pos+1, c10aWantSignature(seq[pos], pos)))
		}
		return strings.Join(out, " or ")
	}
	// the de-duplication, directly on what the builder recorded
	if len(builder.addedModules) > 0 && len(builder.addedModules) == len(valid) {
		records := append([]*addedModule{}, builder.addedModules...)
		unique, err := getUniqueSortedAddedModulesByOpaqueID(ctx, env.commitProvider, records)
		var gotIDs []string
		for _, u := range unique {
			gotIDs = append(gotIDs, u.OpaqueID())
		}
		if err != nil || fmt.Sprint(gotIDs) != fmt.Sprint(wantIDs) {
			r.failAt(c10aTagIDs, what, ": getUniqueSortedAddedModulesByOpaqueID(the %d recorded modules) = %v, err=%v; want one per OpaqueID, sorted: %v", len(records), gotIDs, err, wantIDs)
		} else {
			for i, u := range unique {
				chosen := -1
				for k, rec := range records {
					if rec == u {
						chosen = valid[k]
					}
				}
				acceptable := c10aChoose(seq, groups[wantIDs[i]])
				okChoice := false
				for _, p := range acceptable {
					okChoice = okChoice || p == chosen
				}
				if !okChoice {
					r.failAt("members target-kept local-over-pinned local-kept-unless-remote-target inv-step", what, ": getUniqueSortedAddedModulesByOpaqueID keeps for %s the module of call #%d; documented choice: %s", wantIDs[i], chosen+1, wantFor(wantIDs[i]))
				}
			}
		}
	}
	mset, err := builder.Build()
	switch {
	case anyAddError:
		if err == nil {
			r.failAt("add-errors-reported non-target-has-no-paths non-target-has-no-targeting", what, ": Build() succeeds; want the error of the Add* call with paths for a non-target module")
		}
	case !anyTarget:
		if err == nil {
			r.failAt("no-target-rejected", what, ": Build() succeeds; want an error (no module is a target)")
		}
	case err != nil || mset == nil:
		r.failAt("records-module record-as-given "+c10aTagIDs, what, ": Build() fails: %v; want the modules %v", err, wantIDs)
	default:
		modules := mset.Modules()
		var gotIDs []string
		for _, m := range modules {
			gotIDs = append(gotIDs, m.OpaqueID())
		}
		if fmt.Sprint(gotIDs) != fmt.Sprint(wantIDs) {
			r.failAt(c10aTagIDs, what, ": Build() gives the modules %v; want one per OpaqueID, sorted: %v", gotIDs, wantIDs)
		} else {
			chosenCommits := map[uuid.UUID]bool{}
			var wantTargets, wantLocals []string
			for i, m := range modules {
				got := c10aModuleSignature(ctx, m)
				matched := -1
				acceptable := c10aChoose(seq, groups[wantIDs[i]])
				for _, pos := range acceptable {
					if got == c10aWantSignature(seq[pos], pos) {
						matched = pos
						break
					}
				}
				if !m.IsLocal() {
					chosenCommits[m.CommitID()] = true
				}
				if mset.GetModuleForOpaqueID(wantIDs[i]) != m || m.ModuleSet() != mset {
					r.failAt("opaque-id-index-exact opaque-id-index-values", what, ": GetModuleForOpaqueID(%q) / ModuleSet() of the built module are not the built module / set", wantIDs[i])
				}
				first := seq[acceptable[0]]
				if first.target {
					wantTargets = append(wantTargets, wantIDs[i])
				}
				if first.local {
					wantLocals = append(wantLocals, wantIDs[i])
				}
				if matched >= 0 {
					continue
				}
				tag := c10aTagDecision
				switch {
				case m.IsLocal() != first.local || (first.local && m.BucketID() != fmt.Sprintf("bucket-%d", acceptable[0])) || (!first.local && m.CommitID() != c10aCommitIDs[first.commit]):
					tag = c10aTagIdentity
				case m.IsTarget() != first.target:
					tag = c10aTagFlags
				case !first.target:
					tag = c10aTagNonTargetModule
				}
				r.failAt(tag, what, ": Build() gives for %s the module {%s}; want %s", wantIDs[i], got, wantFor(wantIDs[i]))
			}
			for _, requested := range dataProvider.requested {
				if !chosenCommits[requested] {
					r.failAt("local-over-pinned kept-records-were-added", what, ": the ModuleDataProvider is asked for commit %v, which is not a module of the set", requested)
				}
			}
			if got := ModuleSetTargetOpaqueIDs(mset); fmt.Sprint(got) != fmt.Sprint(wantTargets) {
				r.failAt("only-targets all-targets "+c10aTagFlags, what, ": ModuleSetTargetOpaqueIDs = %v; want %v", got, wantTargets)
			}
			if got := ModuleSetOpaqueIDs(mset); fmt.Sprint(got) != fmt.Sprint(wantIDs) {
				r.failAt("modulesOpaqueIDs", what, ": ModuleSetOpaqueIDs = %v; want %v", got, wantIDs)
			}
			if got := modulesOpaqueIDs(ModuleSetLocalModules(mset)); fmt.Sprint(got) != fmt.Sprint(wantLocals) {
				r.failAt("only-local all-local", what, ": ModuleSetLocalModules = %v; want %v", got, wantLocals)
			}
			if got, want := len(ModuleSetRemoteModules(mset)), len(wantIDs)-len(wantLocals); got != want {
				r.failAt("only-remote all-remote", what, ": ModuleSetRemoteModules has %d modules; want %d", got, want)
			}
			if got, want := len(ModuleSetNonTargetModules(mset)), len(wantIDs)-len(wantTargets); got != want {
				r.failAt("only-non-targets all-non-targets", what, ": ModuleSetNonTargetModules has %d modules; want %d", got, want)
			}
			if retarget {
				r.c10aRetarget(ctx, what, mset, wantIDs, wantTargets)
			}
		}
	}
	// a builder is used once
	mset2, err2 := builder.Build()
	if err2 == nil || mset2 != nil {
		r.failAt("second-use-rejected latched", what, "; Build(); Build(): the second Build() returns a module set (err=%v); want an error (Build may be called once)", err2)
	}
	for _, local := range []bool{true, false} {
		beforeAdded, beforeErrs := len(builder.addedModules), len(builder.errs)
		call := "AddLocalModule"
		if local {
			builder.AddLocalModule(env.bucket, "bucket-late", true)
		} else {
			call = "AddRemoteModule"
			key, _ := NewModuleKey(env.names[c10aNameY], c10aCommitIDs[2], func() (Digest, error) { return env.digest, nil })
			builder.AddRemoteModule(key, true)
		}
		if len(builder.addedModules) != beforeAdded || len(builder.errs) != beforeErrs+1 || !errors.Is(builder.errs[len(builder.errs)-1], errBuildAlreadyCalled) {
			r.failAt("after-build-rejected", what, "; Build(); %s(...): records %d module(s) and %d error(s); want no module and the already-built error", call, len(builder.addedModules)-beforeAdded, len(builder.errs)-beforeErrs)
		}
	}
}

func (r *c10Run) c10aRetarget(ctx context.Context, what string, mset ModuleSet, ids []string, targets []string) {
	if _, err := mset.WithTargetOpaqueIDs(); err == nil {
		r.failAt("empty-rejected", what, "; WithTargetOpaqueIDs(): no error; want one (at least one module must be targeted)")
	}
	before := mset.Modules()
	for mask := 1; mask < 1<<len(ids); mask++ {
		r.checked++
		chosen := c10aSubset(ids, mask)
		mset2, err := mset.WithTargetOpaqueIDs(chosen...)
		if err != nil || mset2 == nil {
			r.failAt(c10aTagRetarget, what, "; WithTargetOpaqueIDs(%v): error %v", chosen, err)
			continue
		}
		var got []string
		var gotTargets []string
		sameIdentity := true
		modules := mset2.Modules()
		for i, m := range modules {
			got = append(got, m.OpaqueID())
			if m.IsTarget() {
				gotTargets = append(gotTargets, m.OpaqueID())
			}
			if i < len(before) && (m.IsLocal() != before[i].IsLocal() || m.BucketID() != before[i].BucketID() || m.CommitID() != before[i].CommitID() || m == before[i]) {
				sameIdentity = false
			}
			if m.ModuleSet() != mset2 {
				sameIdentity = false
			}
		}
		if fmt.Sprint(got) != fmt.Sprint(ids) || fmt.Sprint(gotTargets) != fmt.Sprint(chosen) {
			r.failAt(c10aTagRetarget, what, " (targets %v); WithTargetOpaqueIDs(%v) gives the modules %v with the targets %v; want the modules %v with exactly the targets %v", targets, chosen, got, gotTargets, ids, chosen)
		} else if !sameIdentity {
			r.failAt("identity-kept fresh", what, "; WithTargetOpaqueIDs(%v): the modules are not fresh copies with the same IsLocal / BucketID / CommitID belonging to the new set", chosen)
		}
		if now := ModuleSetTargetOpaqueIDs(mset); fmt.Sprint(now) != fmt.Sprint(targets) {
			r.failAt("original-untouched", what, "; WithTargetOpaqueIDs(%v): the targets of the original set are now %v; want %v", chosen, now, targets)
		}
	}
}

func (r *c10Run) familyBuilder(ctx context.Context) {
	env, err := c10aNewEnv(ctx)
	if err != nil {
		fmt.Printf("VERIF-REPLAY generator problem: %v\n", err)
		return
	}
	kinds := c10aKinds()
	for _, a := range kinds {
		r.c10aRunSequence(ctx, env, []c10aAdd{a}, true)
	}
	for _, a := range kinds {
		for _, b := range kinds {
			r.c10aRunSequence(ctx, env, []c10aAdd{a, b}, true)
		}
	}
	for i, a := range kinds {
		for j, b := range kinds {
			for k, c := range kinds {
				r.c10aRunSequence(ctx, env, []c10aAdd{a, b, c}, (i+j+k)%4 == 0)
			}
		}
	}
	// an empty builder gives an empty set
	r.checked++
	mset, err := NewModuleSetBuilder(ctx, c10Logger, NopModuleDataProvider, NopCommitProvider).Build()
	if err != nil || mset == nil || len(mset.Modules()) != 0 {
		r.fail("modules-as-given", "builder without Add* calls: Build() = %v, err=%v; want an empty module set", mset, err)
	}
	// the records, directly
	for _, target := range []bool{true, false} {
		r.checked++
		single, err := (&c10Workspace{modules: []c10Module{{id: "bucket-0", files: []c10File{{path: "x/x.proto"}}}}}).build(ctx)
		if err != nil {
			continue
		}
		module := single.Modules()[0]
		record := newLocalAddedModule(module, target)
		if record == nil || record.localModule != module || record.isTarget != target || record.remoteModuleKey != nil || len(record.remoteTargetPaths) != 0 || len(record.remoteTargetExcludePaths) != 0 {
			r.fail("records-module not-remote fresh", "newLocalAddedModule(module bucket-0, isTarget=%v) = %+v; want the module and the flag as given", target, record)
		} else if back, err := record.ToModule(ctx, NopModuleDataProvider, NopCommitProvider); err != nil || back != module {
			r.fail("local-is-returned-as-is local-as-is", "newLocalAddedModule(module bucket-0, isTarget=%v).ToModule() = %v, err=%v; want the module itself", target, back, err)
		}
		key, _ := NewModuleKey(env.names[c10aNameX], c10aCommitIDs[0], func() (Digest, error) { return env.digest, nil })
		tp, ex := []string{"a"}, []string{"a/b"}
		remote := newRemoteAddedModule(key, tp, ex, target)
		if remote == nil || remote.localModule != nil || remote.remoteModuleKey != key || remote.isTarget != target || fmt.Sprint(remote.remoteTargetPaths) != "[a]" || fmt.Sprint(remote.remoteTargetExcludePaths) != "[a/b]" {
			r.fail("records-key records-paths not-local fresh", "newRemoteAddedModule(x@commit1, [a], [a/b], isTarget=%v) = %+v; want key, paths and flag as given", target, remote)
			continue
		}
		module2, err := remote.ToModule(ctx, &c10aDataProvider{bucket: env.bucket}, env.commitProvider)
		tg := c10aTargeting{tp: tp, ex: ex}
		whatRemote := fmt.Sprintf("newRemoteAddedModule(x@commit1, %s, isTarget=%v).ToModule()", tg, target)
		if err != nil || module2 == nil {
			r.failAt("remote-module-from-key", whatRemote, ": error %v", err)
			continue
		}
		if module2.IsTarget() != target || module2.IsLocal() || module2.OpaqueID() != c10aNameX || module2.CommitID() != c10aCommitIDs[0] || module2.BucketID() != "" {
			r.failAt("remote-module-from-key remote-from-key flags-as-given", whatRemote, " = {IsTarget=%v IsLocal=%v OpaqueID=%s CommitID=%v BucketID=%q}; want a remote module x@commit1 with IsTarget=%v", module2.IsTarget(), module2.IsLocal(), module2.OpaqueID(), module2.CommitID(), module2.BucketID(), target)
			continue
		}
		r.c10aCheckFiles(ctx, whatRemote, module2, target, tg, false)
	}
}

// ---- newModuleSet on hand-built lists

type c10aIdentity struct {
	name, bucketID, description string
}

func (r *c10Run) familyModuleSet(ctx context.Context) {
	env, err := c10aNewEnv(ctx)
	if err != nil {
		return
	}
	pool := []c10aIdentity{
		{c10aNameX, "b0", "d0"},
		{"", c10aNameX, "d1"}, // its OpaqueID (the bucket ID) is the name of the first
		{c10aNameY, "b2", "d2"},
		{"", "b0", "d3"},        // the bucket ID of the first
		{c10aNameX, "b4", "d4"}, // the name of the first
		{"", "b5", ""},
		{"", "b6", "d2"}, // the description of the third
	}
	make1 := func(identity c10aIdentity) Module {
		options := []LocalModuleOption{}
		if identity.name != "" {
			options = append(options, LocalModuleWithFullName(env.names[identity.name]))
		}
		if identity.description != "" {
			options = append(options, LocalModuleWithDescription(identity.description))
		}
		mset, err := NewModuleSetBuilder(ctx, c10Logger, NopModuleDataProvider, NopCommitProvider).AddLocalModule(env.bucket, identity.bucketID, true, options...).Build()
		if err != nil || len(mset.Modules()) != 1 {
			panic(fmt.Sprintf("generator: %v", err))
		}
		return mset.Modules()[0]
	}
	var lists [][]int
	for a := range pool {
		lists = append(lists, []int{a})
		for b := range pool {
			if b == a {
				continue
			}
			lists = append(lists, []int{a, b})
			for c := range pool {
				if c == a || c == b {
					continue
				}
				lists = append(lists, []int{a, b, c})
			}
		}
	}
	for _, list := range lists {
		r.checked++
		var modules []Module
		var parts []string
		collisions := map[string]string{}
		seen := map[string]bool{}
		for _, i := range list {
			identity := pool[i]
			modules = append(modules, make1(identity))
			opaqueID := identity.name
			if opaqueID == "" {
				opaqueID = identity.bucketID
			}
			description := identity.description
			if description == "" {
				description = opaqueID
			}
			parts = append(parts, fmt.Sprintf("{name=%q bucketID=%q description=%q -> OpaqueID %s}", identity.name, identity.bucketID, identity.description, opaqueID))
			keys := map[string]string{"OpaqueID": opaqueID, "BucketID": identity.bucketID, "Description": description}
			if identity.name != "" {
				keys["FullName"] = identity.name
			}
			for kind, value := range keys {
				if seen[kind+"="+value] {
					collisions[kind] = value
				}
				seen[kind+"="+value] = true
			}
		}
		what := "newModuleSet([" + strings.Join(parts, " ") + "])"
		set, err := newModuleSet(modules)
		if len(collisions) > 0 {
			if err == nil || set != nil {
				tag := "bucket-ids-unique failure-gives-nil"
				if _, ok := collisions["OpaqueID"]; ok {
					tag = "inv-step duplicate-opaque-id-rejected opaque-ids-unique failure-gives-nil"
				}
				r.failAt(tag, what, " succeeds; want an error: two of the modules share %v", collisions)
			}
			continue
		}
		if err != nil || set == nil {
			r.failAt("fresh", what, ": error %v; the identities are distinct", err)
			continue
		}
		got := set.Modules()
		same := len(got) == len(modules)
		for i := range modules {
			same = same && got[i] == modules[i] && set.GetModuleForOpaqueID(modules[i].OpaqueID()) == modules[i] && set.GetModuleForBucketID(modules[i].BucketID()) == modules[i] && modules[i].ModuleSet() == ModuleSet(set)
			if fullName := modules[i].FullName(); fullName != nil {
				same = same && set.GetModuleForFullName(fullName) == modules[i]
			}
		}
		if !same || set.GetModuleForBucketID("nobody") != nil || set.GetModuleForFullName(env.names[c10aNameY]) != set.GetModuleForOpaqueID(c10aNameY) {
			r.failAt("modules-as-given opaque-id-index-exact opaque-id-index-values bucket-id-index-exact bucket-id-index-values inv-step", what, ": Modules() / GetModuleForOpaqueID / GetModuleForBucketID / GetModuleForFullName / ModuleSet() do not give back the modules as given")
		}
	}
}

func TestVerifReplayC10(t *testing.T) {
	fn := os.Getenv("VERIF_REPLAY_FUNC")
	obligation := os.Getenv("VERIF_REPLAY_OBLIGATION")
	ctx := context.Background()
	r := &c10Run{}
	switch fn {
	case "getModuleDepsRec", "getModuleDeps", "newModuleDep", "ModuleDeps":
		r.familyFaults(ctx)
		r.familyGraphs(ctx)
	case "getModuleForFilePathUncached", "getModuleForFilePath", "getFileInfoAndDelegateIndex", "newExistsMultipleModulesError", "Modules", "GetModuleForOpaqueID":
		r.familyLookup(ctx)
		r.familyFaults(ctx)
	case "selectAddedModuleForOpaqueID", "selectAddedModuleForOpaqueIDIgnoreTargeting", "selectRemoteAddedModuleForOpaqueIDIgnoreTargeting",
		"OpaqueID", "IsLocal", "IsTarget", "Filter", "ToValuesMap":
		r.familySelect(ctx)
	case "trackFileInfo", "trackModule", "validate", "newProtoFileTracker":
		r.familyTracker(ctx)
		r.familyFaults(ctx)
	case "AddLocalModule", "AddRemoteModule", "Build", "addError", "newModuleSetBuilder", "NewModuleSetBuilder", "newLocalModuleOptions", "newRemoteModuleOptions",
		"LocalModuleWithFullName", "LocalModuleWithFullNameAndCommitID", "LocalModuleWithDescription", "RemoteModuleWithTargetPaths",
		"ToModule", "newLocalAddedModule", "newRemoteAddedModule", "getUniqueSortedAddedModulesByOpaqueID",
		"ModuleSetTargetModules", "ModuleSetNonTargetModules", "ModuleSetLocalModules", "ModuleSetRemoteModules", "ModuleSetOpaqueIDs", "ModuleSetTargetOpaqueIDs", "modulesOpaqueIDs":
		r.familyBuilder(ctx)
	case "newModuleSet", "GetModuleForBucketID", "GetModuleForFullName", "setModuleSet":
		r.familyModuleSet(ctx)
		r.familyBuilder(ctx)
	case "withIsTarget", "WithTargetOpaqueIDs", "withModule":
		r.familyTargetFiles(ctx)
		r.familyBuilder(ctx)
	case "newModule", "newModuleReadBucketForModule", "LocalModuleWithTargetPaths", "LocalModuleWithProtoFileTargetPath":
		r.familyTargetFiles(ctx)
		r.familyBuilder(ctx)
	case "getFileInfoUncached", "WalkFileInfos", "StatFileInfo", "newFileInfo", "IsTargetFile", "FileType", "Module", "FileTypeForPath",
		"newFilteredModuleReadBucket", "newTargetedModuleReadBucket":
		r.familyTargetFiles(ctx)
	default:
		fmt.Printf("VERIF-REPLAY no harness for %q\n", fn)
		return
	}
	label := ""
	if i := strings.LastIndex(obligation, "["); i >= 0 {
		label = strings.TrimSuffix(obligation[i+1:], "]")
	}
	if strings.Contains(obligation, "#inv-step") || strings.Contains(obligation, "#inv-entry") {
		label = "inv-step"
	}
	// the clause label proper: "0.visited-ids-kept" (loop / closure number first) -> "visited-ids-kept"
	specific := ""
	if i := strings.LastIndex(obligation, "["); i >= 0 {
		specific = strings.TrimLeft(strings.TrimSuffix(obligation[i+1:], "]"), "0123456789.")
	}
	sort.SliceStable(r.failures, func(a, b int) bool {
		ma := label != "" && strings.Contains(" "+r.failures[a].tag+" ", " "+label+" ")
		mb := label != "" && strings.Contains(" "+r.failures[b].tag+" ", " "+label+" ")
		if ma != mb {
			return ma
		}
		sa := specific != "" && strings.Contains(" "+r.failures[a].tag+" ", " "+specific+" ")
		sb := specific != "" && strings.Contains(" "+r.failures[b].tag+" ", " "+specific+" ")
		return sa && !sb
	})
	printed := map[string]bool{}
	count := 0
	for _, f := range r.failures {
		if count >= 5 {
			break
		}
		key := f.key
		if key == "" {
			key = f.text
			if i := strings.Index(key, "}: "); i >= 0 {
				key = key[:i]
			}
		}
		if printed[key] {
			continue
		}
		printed[key] = true
		fmt.Printf("VERIF-REPLAY FAILING-INPUT %s\n", f.text)
		count++
	}
	fmt.Printf("VERIF-REPLAY %s: checked %d inputs, %d deviations from the documented behaviour\n", fn, r.checked, len(r.failures))
}
