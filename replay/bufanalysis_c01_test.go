package bufanalysis

// Replay / bounded contract run for the C01 (and C20) obligations on the construction of a FileAnnotationSet
// (newFileAnnotationSet, NewFileAnnotationSet, fileAnnotationSet.FileAnnotations); injected with go test -overlay.
//
// Inputs: every list of length 0..3 over an alphabet of 12 annotations (no file / a.proto / b/c.proto, two
// positions, two messages). Every list element is a fresh object, so that a repeated letter is a second
// annotation with the same content, not the same pointer.
//
// Oracle (written from the documentation of NewFileAnnotationSet / FileAnnotationSet, not from
// file_annotation_set.go): no annotations - no set; otherwise the set holds each distinct annotation
// (file, start, end, type, message) exactly once, ordered by external path (no file first), start line,
// start column, type, message, end line, end column; every member is one of the objects handed in; the
// caller's slice is left as it was.

import (
	"fmt"
	"os"
	"sort"
	"strings"
	"testing"
)

type ca1Info struct{ p string }

func (i ca1Info) Path() string         { return i.p }
func (i ca1Info) ExternalPath() string { return i.p }

type ca1Letter struct {
	path string // "" = no file
	line int
	col  int
	msg  string
}

func ca1Alphabet() []ca1Letter {
	var out []ca1Letter
	for _, p := range []string{"b/c.proto", "", "a.proto"} {
		for _, pos := range [][2]int{{3, 1}, {1, 2}} {
			for _, m := range []string{"m2", "m1"} {
				out = append(out, ca1Letter{p, pos[0], pos[1], m})
			}
		}
	}
	return out
}

func (l ca1Letter) build() FileAnnotation {
	var fi FileInfo
	if l.path != "" {
		fi = ca1Info{l.path}
	}
	return NewFileAnnotation(fi, l.line, l.col, l.line, l.col+4, "COMPILE", l.msg, "")
}

func (l ca1Letter) String() string {
	p := l.path
	if p == "" {
		p = "<no file>"
	}
	return fmt.Sprintf("%s:%d:%d:%s", p, l.line, l.col, l.msg)
}

// the documented order on the letters
func ca1Less(a, b ca1Letter) bool {
	if (a.path == "") != (b.path == "") {
		return a.path == ""
	}
	if a.path != b.path {
		return a.path < b.path
	}
	if a.line != b.line {
		return a.line < b.line
	}
	if a.col != b.col {
		return a.col < b.col
	}
	return a.msg < b.msg
}

func ca1LetterOf(a FileAnnotation) ca1Letter {
	if a == nil {
		return ca1Letter{path: "<nil annotation>"}
	}
	l := ca1Letter{line: a.StartLine(), col: a.StartColumn(), msg: a.Message()}
	if a.FileInfo() != nil {
		l.path = a.FileInfo().ExternalPath()
	}
	return l
}

func ca1Expected(word []ca1Letter) []ca1Letter {
	seen := map[ca1Letter]bool{}
	var out []ca1Letter
	for _, l := range word {
		if !seen[l] {
			seen[l] = true
			out = append(out, l)
		}
	}
	sort.Slice(out, func(i, j int) bool { return ca1Less(out[i], out[j]) })
	return out
}

func ca1Words(alphabet []ca1Letter, maxLen int) [][]ca1Letter {
	words := [][]ca1Letter{{}}
	last := [][]ca1Letter{{}}
	for n := 1; n <= maxLen; n++ {
		var next [][]ca1Letter
		for _, w := range last {
			for _, l := range alphabet {
				nw := append(append([]ca1Letter{}, w...), l)
				next = append(next, nw)
			}
		}
		words = append(words, next...)
		last = next
	}
	return words
}

type ca1Failure struct {
	tag  string
	text string
}

func TestVerifReplayC01(t *testing.T) {
	fn := os.Getenv("VERIF_REPLAY_FUNC")
	obligation := os.Getenv("VERIF_REPLAY_OBLIGATION")
	var failures []ca1Failure
	fail := func(tag string, format string, a ...any) {
		failures = append(failures, ca1Failure{tag, fmt.Sprintf(format, a...)})
	}
	checked := 0
	exported := false
	switch fn {
	case "newFileAnnotationSet":
	case "NewFileAnnotationSet":
		exported = true
	case "FileAnnotations":
		// the accessor hands out the stored annotations
		for _, word := range ca1Words(ca1Alphabet()[:4], 3) {
			checked++
			var in []FileAnnotation
			for _, l := range word {
				in = append(in, l.build())
			}
			set := &fileAnnotationSet{fileAnnotations: in}
			got := set.FileAnnotations()
			same := len(got) == len(in)
			for k := 0; same && k < len(in); k++ {
				same = got[k] == in[k]
			}
			if !same {
				fail("0", "(&fileAnnotationSet{fileAnnotations: %v}).FileAnnotations() = %v; want the stored annotations", word, got)
			}
		}
	default:
		fmt.Printf("VERIF-REPLAY no harness for %q\n", fn)
		return
	}
	if fn != "FileAnnotations" {
		name := "newFileAnnotationSet"
		if exported {
			name = "NewFileAnnotationSet"
		}
		for _, word := range ca1Words(ca1Alphabet(), 3) {
			checked++
			var in []FileAnnotation
			for _, l := range word {
				in = append(in, l.build())
			}
			given := append([]FileAnnotation{}, in...)
			what := fmt.Sprintf("%s(%v)", name, word)
			if len(word) == 0 {
				what = name + "(no annotations)"
			}
			var set *fileAnnotationSet
			var iface FileAnnotationSet
			panicked := func() (p any) {
				defer func() { p = recover() }()
				if exported {
					iface = NewFileAnnotationSet(in...)
					if iface != nil {
						set, _ = iface.(*fileAnnotationSet)
					}
				} else {
					set = newFileAnnotationSet(in)
				}
				return nil
			}()
			if panicked != nil {
				fail("annotations-give-a-set only-the-given-annotations every-annotation-kept no-annotations-no-set", "%s panics: %v", what, panicked)
				continue
			}
			want := ca1Expected(word)
			if len(word) == 0 {
				// no annotations: no set. (For the exported constructor a nil *fileAnnotationSet wrapped in the
				// interface is tolerated here: that difference is a reported finding, not an obligation.)
				if set != nil {
					fail("no-annotations-no-set", "%s returns a set (with %d annotations); documented: no annotations, no set (nil)", what, len(set.fileAnnotations))
				}
				continue
			}
			if set == nil {
				fail("no-annotations-no-set annotations-give-a-set every-annotation-kept", "%s returns no set (nil); documented: the set of the %d distinct annotations %v", what, len(want), want)
				continue
			}
			var got []ca1Letter
			for _, a := range set.FileAnnotations() {
				got = append(got, ca1LetterOf(a))
			}
			if fmt.Sprint(got) != fmt.Sprint(want) {
				tag := "sorted"
				gotSet, wantSet := map[ca1Letter]int{}, map[ca1Letter]bool{}
				for _, l := range got {
					gotSet[l]++
				}
				for _, l := range want {
					wantSet[l] = true
				}
				for _, l := range want {
					if gotSet[l] == 0 {
						tag = "every-annotation-kept only-the-given-annotations"
					}
				}
				for l, n := range gotSet {
					if !wantSet[l] {
						tag = "only-the-given-annotations"
					} else if n > 1 && !strings.Contains(tag, "kept") {
						tag = "deduplicated"
					}
				}
				fail(tag, "%s holds %v; documented: each distinct annotation once, sorted by file, line, column, type, message: %v", what, got, want)
				continue
			}
			for _, a := range set.FileAnnotations() {
				found := false
				for _, g := range given {
					if g == a {
						found = true
					}
				}
				if !found {
					fail("only-the-given-annotations", "%s holds the annotation %v which is not one of the objects handed in", what, a)
					break
				}
			}
			for k := range in {
				if in[k] != given[k] {
					fail("frame only-the-given-annotations", "%s reordered the caller's slice", what)
					break
				}
			}
		}
	}
	label := ""
	if i := strings.LastIndex(obligation, "["); i >= 0 {
		label = strings.TrimSuffix(obligation[i+1:], "]")
	}
	sort.SliceStable(failures, func(a, b int) bool {
		ma := label != "" && strings.Contains(" "+failures[a].tag+" ", " "+label+" ")
		mb := label != "" && strings.Contains(" "+failures[b].tag+" ", " "+label+" ")
		return ma && !mb
	})
	for k, f := range failures {
		if k >= 5 {
			break
		}
		fmt.Printf("VERIF-REPLAY FAILING-INPUT %s\n", f.text)
	}
	fmt.Printf("VERIF-REPLAY %s: checked %d inputs, %d deviations from the documented behaviour\n", fn, checked, len(failures))
}
