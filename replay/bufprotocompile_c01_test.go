package bufprotocompile

// Replay / bounded contract run for the C01 obligations of package bufprotocompile (the conversion of the
// compiler's positioned errors into the diagnostics of a failed build); injected with go test -overlay.
//
// Inputs: reporter.ErrorWithPos values over an alphabet of 6 file names ("" = none, relative, not normalized,
// leaving the root, absolute) x 3 positions (unknown 0:0, 3:7, negative) x 3 underlying errors (two plain
// messages and an fs.PathError = an import that cannot be read); each single error and every list of length
// 0..3 over a sub-alphabet, without resolver, with the resolver p -> "ext/"+p and with a nil resolver.
//
// Oracle (written from the documentation of the two functions and of bufanalysis.FileAnnotationSet, not from
// bufprotocompile.go; the normal form of the six file names is a hand-written table): one COMPILE
// annotation per error at the compiler's line:column (0 when unknown), file = the normal form of the
// compiler's file name (none without a name), external path = what the resolver maps that path to (the path
// itself without resolver), message = the error text (`import "<path>": <cause>` for an unreadable import
// in a known file); the set holds each distinct annotation once in the documented order; the conversion
// fails - with no annotation / no set - exactly when some file name is not a valid relative path.

import (
	"errors"
	"fmt"
	"io/fs"
	"os"
	"sort"
	"strings"
	"testing"

	"github.com/bufbuild/buf/private/bufpkg/bufanalysis"
	"github.com/bufbuild/protocompile/ast"
	"github.com/bufbuild/protocompile/reporter"
)

type cp1Name struct {
	filename string
	normal   string // documented normal form
	valid    bool
}

var cp1Names = []cp1Name{
	{"dir/b.proto", "dir/b.proto", true},
	{"", "", true},
	{"a.proto", "a.proto", true},
	{"../x.proto", "", false},
	{"./dir//b.proto", "dir/b.proto", true},
	{"/abs/x.proto", "", false},
}

var cp1Positions = [][2]int{{3, 7}, {0, 0}, {-2, -1}}

type cp1Letter struct {
	name cp1Name
	line int
	col  int
	kind int // 0, 1: plain messages; 2: fs.PathError
}

func (l cp1Letter) underlying() error {
	switch l.kind {
	case 0:
		return errors.New("syntax error: unexpected '}'")
	case 1:
		return errors.New("field p.M.f: unknown type Missing")
	default:
		return &fs.PathError{Op: "open", Path: "missing/dep.proto", Err: fs.ErrNotExist}
	}
}

func (l cp1Letter) build() reporter.ErrorWithPos {
	pos := ast.SourcePos{Filename: l.name.filename, Line: l.line, Col: l.col}
	return reporter.Error(ast.NewSourceSpan(pos, pos), l.underlying())
}

func (l cp1Letter) String() string {
	return fmt.Sprintf("{file %q line %d col %d: %v}", l.name.filename, l.line, l.col, l.underlying())
}

// cp1Ann is the documented annotation for an error.
type cp1Ann struct {
	hasFile  bool
	path     string
	external string
	line     int
	col      int
	message  string
}

func (a cp1Ann) String() string {
	f := "<no file>"
	if a.hasFile {
		f = fmt.Sprintf("%s(external %s)", a.path, a.external)
	}
	return fmt.Sprintf("%s:%d:%d:COMPILE:%q", f, a.line, a.col, a.message)
}

const (
	cp1NoOption = iota
	cp1Prefixing
	cp1NilResolver
)

func cp1OptionName(mode int) string {
	return [...]string{"no option", "WithExternalPathResolver(p -> \"ext/\"+p)", "WithExternalPathResolver(nil)"}[mode]
}

func cp1Options(mode int) []FileAnnotationOption {
	switch mode {
	case cp1Prefixing:
		return []FileAnnotationOption{WithExternalPathResolver(func(p string) string { return "ext/" + p })}
	case cp1NilResolver:
		return []FileAnnotationOption{WithExternalPathResolver(nil)}
	}
	return nil
}

func cp1Documented(l cp1Letter, mode int) cp1Ann {
	a := cp1Ann{}
	if l.name.filename != "" {
		a.hasFile = true
		a.path = l.name.normal
		a.external = l.name.normal
		if mode == cp1Prefixing {
			a.external = "ext/" + l.name.normal
		}
	}
	if l.line > 0 {
		a.line = l.line
	}
	if l.col > 0 {
		a.col = l.col
	}
	switch l.kind {
	case 0:
		a.message = "syntax error: unexpected '}'"
	case 1:
		a.message = "field p.M.f: unknown type Missing"
	default:
		if a.hasFile {
			a.message = "import \"missing/dep.proto\": file does not exist"
		} else {
			a.message = "open missing/dep.proto: file does not exist"
		}
	}
	return a
}

func cp1Less(a, b cp1Ann) bool {
	if a.hasFile != b.hasFile {
		return !a.hasFile
	}
	if a.external != b.external {
		return a.external < b.external
	}
	if a.line != b.line {
		return a.line < b.line
	}
	if a.col != b.col {
		return a.col < b.col
	}
	return a.message < b.message
}

// what the annotation says, and whether it is a well-formed COMPILE annotation
func cp1Observed(a bufanalysis.FileAnnotation) (cp1Ann, string) {
	if a == nil {
		return cp1Ann{}, "nil annotation"
	}
	out := cp1Ann{line: a.StartLine(), col: a.StartColumn(), message: a.Message()}
	if fi := a.FileInfo(); fi != nil {
		out.hasFile = true
		out.path = fi.Path()
		out.external = fi.ExternalPath()
	}
	problem := ""
	if a.Type() != "COMPILE" || a.PluginName() != "" {
		problem = fmt.Sprintf("type %q plugin %q (documented: type COMPILE, no plugin)", a.Type(), a.PluginName())
	}
	if a.EndLine() != a.StartLine() || a.EndColumn() != a.StartColumn() {
		problem = fmt.Sprintf("end %d:%d differs from start %d:%d (the compiler reports a point)", a.EndLine(), a.EndColumn(), a.StartLine(), a.StartColumn())
	}
	return out, problem
}

type cp1Failure struct {
	tag  string
	text string
}

type cp1Run struct {
	failures []cp1Failure
	checked  int
}

func (r *cp1Run) fail(tag string, format string, a ...any) {
	r.failures = append(r.failures, cp1Failure{tag, fmt.Sprintf(format, a...)})
}

func (r *cp1Run) single(l cp1Letter, mode int) {
	r.checked++
	what := fmt.Sprintf("FileAnnotationForErrorWithPos(%v, %s)", l, cp1OptionName(mode))
	var ann bufanalysis.FileAnnotation
	var err error
	if p := func() (p any) {
		defer func() { p = recover() }()
		ann, err = FileAnnotationForErrorWithPos(l.build(), cp1Options(mode)...)
		return nil
	}(); p != nil {
		r.fail("fails-only-on-invalid-path", "%s panics: %v", what, p)
		return
	}
	if !l.name.valid {
		if err == nil {
			r.fail("fails-only-on-invalid-path", "%s returns no error (annotation %v); the file name is not a valid relative path", what, ann)
		} else if ann != nil {
			r.fail("no-annotation-on-error", "%s returns the error %q AND the annotation %v", what, err.Error(), ann)
		}
		return
	}
	if err != nil {
		r.fail("fails-only-on-invalid-path", "%s returns the error %q; the file name is valid", what, err.Error())
		return
	}
	want := cp1Documented(l, mode)
	got, problem := cp1Observed(ann)
	if problem != "" {
		r.fail("type-compile line column", "%s = %v: %s", what, got, problem)
		return
	}
	if got != want {
		tag := "7"
		switch {
		case got.line != want.line:
			tag = "line position"
		case got.col != want.col:
			tag = "column position"
		case got.hasFile != want.hasFile:
			tag = "no-file-without-filename file"
		case got.path != want.path:
			tag = "file-is-compiler-path file Path newFileInfo"
		case got.external != want.external:
			tag = "external-path-is-resolved installs-the-resolver ExternalPath newFileInfo newFileAnnotationOptions"
		}
		r.fail(tag, "%s = %v; documented: %v", what, got, want)
	}
}

func (r *cp1Run) list(word []cp1Letter, mode int) {
	r.checked++
	what := fmt.Sprintf("FileAnnotationSetForErrorsWithPos(%v, %s)", word, cp1OptionName(mode))
	if len(word) == 0 {
		what = fmt.Sprintf("FileAnnotationSetForErrorsWithPos(no errors, %s)", cp1OptionName(mode))
	}
	var in []reporter.ErrorWithPos
	valid := true
	for _, l := range word {
		in = append(in, l.build())
		if !l.name.valid {
			valid = false
		}
	}
	var set bufanalysis.FileAnnotationSet
	var err error
	if p := func() (p any) {
		defer func() { p = recover() }()
		set, err = FileAnnotationSetForErrorsWithPos(in, cp1Options(mode)...)
		return nil
	}(); p != nil {
		r.fail("panic", "%s panics: %v", what, p)
		return
	}
	if !valid {
		if err == nil {
			r.fail("fails-only-on-invalid-path", "%s returns no error (set %v); one of the file names is not a valid relative path", what, set)
		} else if set != nil {
			r.fail("no-set-on-error", "%s returns the error %q AND the set %v", what, err.Error(), set)
		}
		return
	}
	if err != nil {
		r.fail("fails-only-on-invalid-path", "%s returns the error %q; all file names are valid", what, err.Error())
		return
	}
	// the documented set
	seen := map[cp1Ann]bool{}
	var want []cp1Ann
	for _, l := range word {
		a := cp1Documented(l, mode)
		if !seen[a] {
			seen[a] = true
			want = append(want, a)
		}
	}
	sort.Slice(want, func(i, j int) bool { return cp1Less(want[i], want[j]) })
	var got []cp1Ann
	func() {
		defer func() { _ = recover() }() // a nil set wrapped in the interface
		if set != nil {
			for _, a := range set.FileAnnotations() {
				o, problem := cp1Observed(a)
				if problem != "" {
					r.fail("type-compile position", "%s holds %v: %s", what, o, problem)
				}
				got = append(got, o)
			}
		}
	}()
	if fmt.Sprint(got) != fmt.Sprint(want) {
		tag := "5 6"
		gotSet := map[cp1Ann]bool{}
		for _, a := range got {
			gotSet[a] = true
			if !seen[a] {
				tag = "every-annotation-is-a-reported-error position file type-compile installs-the-resolver external-path-is-resolved"
			}
		}
		for _, a := range want {
			if !gotSet[a] {
				tag = "one-annotation-per-error converts-all-given-errors errors-give-a-set annotation-exists " + tag
				break
			}
		}
		r.fail(tag, "%s holds %d annotation(s) %v; documented: one per distinct error, %d: %v", what, len(got), got, len(want), want)
	}
}

func cp1Words(alphabet []cp1Letter, maxLen int) [][]cp1Letter {
	words := [][]cp1Letter{{}}
	last := [][]cp1Letter{{}}
	for n := 1; n <= maxLen; n++ {
		var next [][]cp1Letter
		for _, w := range last {
			for _, l := range alphabet {
				next = append(next, append(append([]cp1Letter{}, w...), l))
			}
		}
		words = append(words, next...)
		last = next
	}
	return words
}

func TestVerifReplayC01(t *testing.T) {
	fn := os.Getenv("VERIF_REPLAY_FUNC")
	obligation := os.Getenv("VERIF_REPLAY_OBLIGATION")
	r := &cp1Run{}
	var letters []cp1Letter
	for _, name := range cp1Names {
		for _, pos := range cp1Positions {
			for kind := 0; kind < 3; kind++ {
				letters = append(letters, cp1Letter{name, pos[0], pos[1], kind})
			}
		}
	}
	// lists: all file names, two positions, two kinds of error
	var sub []cp1Letter
	for _, l := range letters {
		if l.line >= 0 && l.kind != 1 {
			sub = append(sub, l)
		}
	}
	singles := func() {
		for mode := cp1NoOption; mode <= cp1NilResolver; mode++ {
			for _, l := range letters {
				r.single(l, mode)
			}
		}
	}
	lists := func() {
		for mode := cp1NoOption; mode <= cp1NilResolver; mode++ {
			for _, word := range cp1Words(sub, 3) {
				r.list(word, mode)
			}
		}
	}
	switch fn {
	case "FileAnnotationForErrorWithPos":
		singles()
		lists()
	case "FileAnnotationSetForErrorsWithPos":
		lists()
		singles()
	case "WithExternalPathResolver", "newFileAnnotationOptions":
		r.checked += 2
		if o := newFileAnnotationOptions(); o == nil || o.externalPathResolver != nil {
			r.fail("newFileAnnotationOptions 0", "newFileAnnotationOptions() = %v; documented: fresh options without a resolver", o)
		}
		for _, p := range []string{"a.proto", "dir/b.proto", ""} {
			o := &fileAnnotationOptions{}
			calls := 0
			option := WithExternalPathResolver(func(q string) string { calls++; return "ext/" + q })
			if option == nil {
				r.fail("0", "WithExternalPathResolver(p -> \"ext/\"+p) returns a nil option")
				break
			}
			option(o)
			if o.externalPathResolver == nil {
				r.fail("installs-the-resolver", "WithExternalPathResolver(p -> \"ext/\"+p) applied to fresh options: no resolver is installed (externalPathResolver == nil); path %q would be reported as %q instead of %q", p, p, "ext/"+p)
			} else if got := o.externalPathResolver(p); got != "ext/"+p || calls == 0 {
				r.fail("installs-the-resolver", "WithExternalPathResolver(p -> \"ext/\"+p) applied to fresh options: the installed resolver maps %q to %q, the given one to %q", p, got, "ext/"+p)
			}
		}
		singles()
		lists()
	case "newFileInfo", "Path", "ExternalPath":
		for _, p := range []string{"", "a.proto", "dir/b.proto"} {
			for _, e := range []string{"", "a.proto", "/home/u/ws/dir/b.proto"} {
				r.checked++
				fi := newFileInfo(p, e)
				if fi == nil || fi.Path() != p || fi.ExternalPath() != e || fi.path != p || fi.externalPath != e {
					r.fail("0", "newFileInfo(%q, %q): Path() = %q, ExternalPath() = %q", p, e, fi.Path(), fi.ExternalPath())
				}
			}
		}
		singles()
	default:
		fmt.Printf("VERIF-REPLAY no harness for %q\n", fn)
		return
	}
	label := ""
	if i := strings.LastIndex(obligation, "["); i >= 0 {
		label = strings.TrimSuffix(obligation[i+1:], "]")
		if j := strings.Index(label, "."); j >= 0 && len(label) > j+1 && (label[0] >= '0' && label[0] <= '9') {
			label = label[j+1:]
		}
	}
	sort.SliceStable(r.failures, func(a, b int) bool {
		ma := label != "" && strings.Contains(" "+r.failures[a].tag+" ", " "+label+" ")
		mb := label != "" && strings.Contains(" "+r.failures[b].tag+" ", " "+label+" ")
		return ma && !mb
	})
	for k, f := range r.failures {
		if k >= 5 {
			break
		}
		fmt.Printf("VERIF-REPLAY FAILING-INPUT %s\n", f.text)
	}
	fmt.Printf("VERIF-REPLAY %s: checked %d inputs, %d deviations from the documented behaviour\n", fn, r.checked, len(r.failures))
}
