package buf

// Replay harness for the C20 obligations of the root command package (wrapError, newErrorInterceptor,
// appFailureError; injected by gocv with `go test -overlay`; never written into /repo). Author ca-R4.
//
// Each of a fixed family of command results (nil; a plain error; the verdict error bufctl.ErrFileAnnotation, whose
// message is empty and whose exit code is 100; app errors with codes 1, 5, 100 with and without message; an error
// with an empty message; an import-not-found error, bare and wrapped; a system error; the same wrapped with %w) is
// passed through wrapError and through the interceptor around a command returning it. Documented:
//   - the result is nil exactly when the command returned nil (a failure is never turned into success);
//   - the exit status is kept: app errors keep their code (the verdict stays 100), an import that does not exist
//     is a file annotation failure (100), anything else is 1;
//   - the cause stays reachable (errors.Is) and a non-empty message is still in the text, prefixed "Failure: ";
//   - the interceptor returns for a command exactly what wrapError gives for the command's result, and runs the
//     command once.

import (
	"context"
	"errors"
	"fmt"
	"os"
	"strings"
	"testing"

	"github.com/bufbuild/buf/private/buf/bufctl"
	"github.com/bufbuild/buf/private/bufpkg/bufmodule"
	"github.com/bufbuild/buf/private/pkg/app"
	"github.com/bufbuild/buf/private/pkg/app/appext"
	"github.com/bufbuild/buf/private/pkg/syserror"
)

func TestVerifReplayC20(t *testing.T) {
	fn := os.Getenv("VERIF_REPLAY_FUNC")
	switch fn {
	case "wrapError", "newErrorInterceptor", "appFailureError":
	default:
		fmt.Printf("VERIF-REPLAY no harness for %q\n", fn)
		return
	}
	found := 0
	report := func(format string, a ...any) {
		if found < 4 {
			fmt.Printf("VERIF-REPLAY FAILING-INPUT "+format+"\n", a...)
		}
		found++
	}
	plain := errors.New("boom")
	importErr := &bufmodule.ImportNotExistError{}
	cases := []struct {
		desc     string
		err      error
		wantCode int
		message  string
	}{
		{"nil", nil, 0, ""},
		{"errors.New(\"boom\")", plain, 1, "boom"},
		{"bufctl.ErrFileAnnotation (the printed-annotations verdict: empty message, exit code 100)", bufctl.ErrFileAnnotation, 100, ""},
		{"app.NewError(100, \"\")", app.NewError(100, ""), 100, ""},
		{"app.NewError(1, \"\")", app.NewError(1, ""), 1, ""},
		{"app.NewError(5, \"five\")", app.NewError(5, "five"), 5, "five"},
		{"app.NewError(100, \"annotated\")", app.NewError(100, "annotated"), 100, "annotated"},
		{"errors.New(\"\")", errors.New(""), 1, ""},
		{"fmt.Errorf(\"lint: %w\", errors.New(\"boom\"))", fmt.Errorf("lint: %w", plain), 1, "lint: boom"},
		{"fmt.Errorf(\"build: %w\", app.NewError(5, \"five\"))", fmt.Errorf("build: %w", app.NewError(5, "five")), 5, "build: five"},
		{"&bufmodule.ImportNotExistError{} (an import that does not exist)", importErr, 100, importErr.Error()},
		{"fmt.Errorf(\"a.proto: %w\", &bufmodule.ImportNotExistError{})", fmt.Errorf("a.proto: %w", importErr), 100, importErr.Error()},
		{"syserror.New(\"broken invariant\")", syserror.New("broken invariant"), 1, "broken invariant"},
	}
	tried := 0
	check := func(input string, in error, wantCode int, message string, got error) {
		tried++
		switch {
		case in == nil && got != nil:
			report("%s returns %q; documented: nil for a command that succeeded", input, got)
		case in == nil:
		case got == nil:
			report("%s returns nil: the failure of the command (exit code %d) is turned into success; documented: nil exactly for nil", input, wantCode)
		case app.GetExitCode(got) != wantCode:
			report("%s returns %q with exit code %d; documented exit code %d", input, got, app.GetExitCode(got), wantCode)
		case message != "" && !strings.Contains(got.Error(), message):
			report("%s returns %q; documented: the message %q is kept", input, got, message)
		case message != "" && !strings.HasPrefix(got.Error(), "Failure: "):
			report("%s returns %q; documented: prefixed with \"Failure: \"", input, got)
		}
	}
	for _, c := range cases {
		check(fmt.Sprintf("wrapError(%s)", c.desc), c.err, c.wantCode, c.message, wrapError(c.err))
		calls := 0
		command := func(context.Context, appext.Container) error { calls++; return c.err }
		got := newErrorInterceptor()(command)(context.Background(), nil)
		check(fmt.Sprintf("the error interceptor around a command that returns %s", c.desc), c.err, c.wantCode, c.message, got)
		if calls != 1 {
			report("the error interceptor around a command that returns %s ran the command %d times", c.desc, calls)
		}
		if c.err != nil {
			tried++
			if got := appFailureError(c.err); got == nil || !errors.Is(got, c.err) || got.Error() != "Failure: "+c.err.Error() || app.GetExitCode(got) != app.GetExitCode(c.err) {
				report("appFailureError(%s) = %q (exit code %d); documented: \"Failure: \" + the message, the cause wrapped, the exit code kept (%d)", c.desc, got, app.GetExitCode(got), app.GetExitCode(c.err))
			}
		}
	}
	if found == 0 {
		fmt.Printf("VERIF-REPLAY no failing input found for %s (%d inputs)\n", fn, tried)
	}
}
