package bufprotoplugin

// Replay / bounded contract run for the C17 obligations of bufprotoplugin.generator.Generate / NewGenerator written by
// r4e (injected with go test -overlay): Generate over 0..4 requests with a recording handler that - per scenario -
// succeeds, fails on one request, or reports a plugin error through the response writer.
// Oracle (doc comment of Generator.Generate, property C17): every request is handed to the handler at most once, and
// exactly once when Generate succeeds, unchanged; all invocations share ONE response writer, and the response is
// built from it (it holds one file per request); a failing request or a plugin error fails Generate, without a response.

import (
	"context"
	"errors"
	"fmt"
	"io"
	"log/slog"
	"os"
	"sync"
	"testing"

	"github.com/bufbuild/buf/private/pkg/app"
	"github.com/bufbuild/protoplugin"
	"google.golang.org/protobuf/proto"
	"google.golang.org/protobuf/types/descriptorpb"
	"google.golang.org/protobuf/types/pluginpb"
)

type r4eHandler struct {
	mu      sync.Mutex
	seen    map[*pluginpb.CodeGeneratorRequest]int
	writers map[protoplugin.ResponseWriter]bool
	failOn  string
	errorOn string
	handled int
}

func (h *r4eHandler) Handle(_ context.Context, _ protoplugin.PluginEnv, w protoplugin.ResponseWriter, r protoplugin.Request) error {
	h.mu.Lock()
	defer h.mu.Unlock()
	h.handled++
	h.seen[r.CodeGeneratorRequest()]++
	h.writers[w] = true
	name := r.CodeGeneratorRequest().GetFileToGenerate()[0]
	if name == h.failOn {
		return errors.New("handler failed on " + name)
	}
	if name == h.errorOn {
		w.AddError("plugin says no to " + name)
		return nil
	}
	w.AddFile(name+".out", "content of "+name)
	return nil
}

func TestVerifReplayC17R4e(t *testing.T) {
	fn := os.Getenv("VERIF_REPLAY_FUNC")
	if fn != "Generate" && fn != "NewGenerator" {
		fmt.Printf("VERIF-REPLAY no harness for %q\n", fn)
		return
	}
	logger := slog.New(slog.NewTextHandler(io.Discard, nil))
	container := app.NewContainer(map[string]string{}, nil, io.Discard, io.Discard)
	found, tried := 0, 0
	fail := func(format string, args ...any) {
		if found < 4 {
			fmt.Printf("VERIF-REPLAY FAILING-INPUT "+format+"\n", args...)
		}
		found++
	}
	for n := 0; n <= 4; n++ {
		for _, scenario := range []string{"ok", "fail-first", "fail-last", "error-first", "error-last"} {
			if n == 0 && scenario != "ok" {
				continue
			}
			tried++
			var requests []*pluginpb.CodeGeneratorRequest
			for i := 0; i < n; i++ {
				name := fmt.Sprintf("f%d.proto", i)
				requests = append(requests, &pluginpb.CodeGeneratorRequest{
					FileToGenerate:        []string{name},
					ProtoFile:             []*descriptorpb.FileDescriptorProto{{Name: proto.String(name), Syntax: proto.String("proto3")}},
					SourceFileDescriptors: []*descriptorpb.FileDescriptorProto{{Name: proto.String(name), Syntax: proto.String("proto3")}},
					CompilerVersion:       &pluginpb.Version{Major: proto.Int32(5), Minor: proto.Int32(29), Patch: proto.Int32(0)},
				})
			}
			h := &r4eHandler{seen: map[*pluginpb.CodeGeneratorRequest]int{}, writers: map[protoplugin.ResponseWriter]bool{}}
			switch scenario {
			case "fail-first":
				h.failOn = "f0.proto"
			case "fail-last":
				h.failOn = fmt.Sprintf("f%d.proto", n-1)
			case "error-first":
				h.errorOn = "f0.proto"
			case "error-last":
				h.errorOn = fmt.Sprintf("f%d.proto", n-1)
			}
			response, err := NewGenerator(logger, h).Generate(context.Background(), container, requests)
			desc := fmt.Sprintf("Generate(%d requests, handler scenario %s)", n, scenario)
			for _, c := range h.seen {
				if c > 1 {
					fail("%s: a request was handed to the handler %d times", desc, c)
				}
			}
			for r := range h.seen {
				known := false
				for _, q := range requests {
					known = known || q == r
				}
				if !known {
					fail("%s: the handler received a request that is not one of the given requests", desc)
				}
			}
			if len(h.writers) > 1 {
				fail("%s: the invocations were given %d different response writers", desc, len(h.writers))
			}
			switch {
			case scenario == "ok" && err != nil:
				fail("%s fails: %v", desc, err)
			case scenario == "ok":
				if len(h.seen) != n || h.handled != n {
					fail("%s: %d of the %d requests were handled (%d invocations)", desc, len(h.seen), n, h.handled)
				}
				if response == nil || len(response.GetFile()) != n || response.GetError() != "" {
					fail("%s: the response holds %d files (error %q), want one per request", desc, len(response.GetFile()), response.GetError())
				}
			case err == nil:
				fail("%s = nil error although %s", desc, map[bool]string{true: "a request failed", false: "the plugin reported an error"}[h.failOn != ""])
			case response != nil:
				fail("%s returns a response together with the error %v", desc, err)
			}
		}
	}
	if found == 0 {
		fmt.Printf("VERIF-REPLAY no failing input found for %s (%d scenarios)\n", fn, tried)
	} else {
		fmt.Printf("VERIF-REPLAY %d failing inputs in total for %s (%d tried)\n", found, fn, tried)
	}
}
