package bufanalysis

// Replay harness (ca-r4f) for the C20 obligations on the --error-format names (ParseFormat, Format.String, the four name tables)
// and on annotation construction (newFileAnnotation, NewFileAnnotation, the accessors), and C02 sortFileAnnotationSlice.Len.
// Documented: five formats text/json/msvs/junit/github-actions, "gcc" an alias of text, the empty name means text, case and
// surrounding blanks are ignored, anything else is an error; Format.String gives the canonical name and parses back to the
// format; an annotation returns through its accessors exactly what it was built from.

import (
	"fmt"
	"os"
	"strings"
	"testing"
)

type r4fFileInfo struct{ path string }

func (f r4fFileInfo) Path() string         { return f.path }
func (f r4fFileInfo) ExternalPath() string { return "ext/" + f.path }

func TestVerifReplayC20R4f(t *testing.T) {
	fn := os.Getenv("VERIF_REPLAY_FUNC")
	found, tried := 0, 0
	report := func(format string, a ...any) {
		if found < 4 {
			fmt.Printf("VERIF-REPLAY FAILING-INPUT "+format+"\n", a...)
		}
		found++
	}
	canonical := []string{"text", "json", "msvs", "junit", "github-actions"}
	formats := []Format{FormatText, FormatJSON, FormatMSVS, FormatJUnit, FormatGithubActions}
	if strings.Join(AllFormatStrings, ",") != strings.Join(canonical, ",") {
		report("AllFormatStrings = %q; documented: text, json, msvs, junit, github-actions", AllFormatStrings)
	}
	if strings.Join(AllFormatStringsWithAliases, ",") != "text,gcc,json,msvs,junit,github-actions" {
		report("AllFormatStringsWithAliases = %q; documented: text, gcc, json, msvs, junit, github-actions", AllFormatStringsWithAliases)
	}
	for i, name := range canonical {
		for _, spelling := range []string{name, strings.ToUpper(name), "  " + name + "\t"} {
			tried++
			got, err := ParseFormat(spelling)
			if err != nil || got != formats[i] {
				report("ParseFormat(%q) = %v, %v; documented: format %d (%s)", spelling, got, err, formats[i], name)
			}
		}
		if s := formats[i].String(); s != name {
			report("Format(%d).String() = %q; documented %q", formats[i], s, name)
		}
	}
	for _, spelling := range []string{"", "   ", "gcc", "GCC"} {
		tried++
		if got, err := ParseFormat(spelling); err != nil || got != FormatText {
			report("ParseFormat(%q) = %v, %v; documented: the text format", spelling, got, err)
		}
	}
	for _, spelling := range []string{"xml", "jsonx", "text json", "0", "<\"é\n\">"} {
		tried++
		if got, err := ParseFormat(spelling); err == nil || got != 0 {
			report("ParseFormat(%q) = %v, %v; documented: an error for an unknown format", spelling, got, err)
		}
	}
	for _, fi := range []FileInfo{nil, r4fFileInfo{"a.proto"}} {
		tried++
		a := NewFileAnnotation(fi, 1, 2, 3, 4, "TYPE", "message <\"é\n\">", "plugin")
		if a == nil || a.FileInfo() != fi || a.StartLine() != 1 || a.StartColumn() != 2 || a.EndLine() != 3 || a.EndColumn() != 4 || a.Type() != "TYPE" || a.Message() != "message <\"é\n\">" || a.PluginName() != "plugin" {
			report("NewFileAnnotation(%v, 1, 2, 3, 4, \"TYPE\", \"message <\\\"é\\n\\\">\", \"plugin\") reads back as FileInfo=%v %d:%d-%d:%d type=%q message=%q plugin=%q; documented: the values it was built from", fi, a.FileInfo(), a.StartLine(), a.StartColumn(), a.EndLine(), a.EndColumn(), a.Type(), a.Message(), a.PluginName())
		}
	}
	for n := 0; n < 4; n++ {
		tried++
		if got := (sortFileAnnotationSlice(make([]FileAnnotation, n))).Len(); got != n {
			report("sortFileAnnotationSlice of %d annotations: Len() = %d", n, got)
		}
	}
	if found == 0 {
		fmt.Printf("VERIF-REPLAY no failing input found for %s (%d inputs)\n", fn, tried)
	}
}
