package bufcheck

// Replay / bounded contract run for the C06 obligations of package bufcheck (injected with go test -overlay).
//
// Two input families, both run against the REAL functions:
//
//   - suppression (ignoreFileLocation, checkCommentLineForCheckIgnore): hand-built file descriptors
//     (stable / unstable / unversioned package, target / import, paths a/b/x.proto and ab/x.proto) with
//     buf:lint:ignore comments placed on the element itself, on the enclosing message, on a sibling, for
//     another rule, or glued to the rule ID; crossed with every combination of ExcludeImports,
//     IgnoreUnstablePackages, AllowCommentIgnores, comment prefix, ignore paths and ignore_only maps.
//     Oracle: suppressed <=> one of the documented reasons holds (import, ignore path path-wise above the
//     file, ignore_only path OF THIS RULE above the file, unstable package, comment ignore "<prefix> <ID>"
//     on the element or an enclosing element).
//
//   - selection (newRulesConfig and its helpers): the real builtin lint and breaking rules and categories,
//     with use / except / ignore_only drawn from rule IDs, category IDs (MINIMAL, BASIC, STANDARD, ...),
//     deprecated IDs, "" and an unknown ID. Oracle, computed from Rule.Categories / Deprecated /
//     ReplacementIDs only: rules = undeprecate(expand(use)) \ undeprecate(expand(except)); unknown IDs are
//     rejected; ignore_only keys are the undeprecated expansions carrying the configured paths;
//     MINIMAL within BASIC within STANDARD.

import (
	"context"
	"fmt"
	"os"
	"sort"
	"strings"
	"testing"

	descriptorv1 "buf.build/gen/go/bufbuild/bufplugin/protocolbuffers/go/buf/plugin/descriptor/v1"
	"buf.build/go/bufplugin/check"
	"buf.build/go/bufplugin/descriptor"
	"github.com/bufbuild/buf/private/bufpkg/bufconfig"
	"github.com/bufbuild/buf/private/bufpkg/bufplugin"
	"github.com/bufbuild/buf/private/pkg/slogtestext"
	"github.com/bufbuild/buf/private/pkg/wasm"
	"google.golang.org/protobuf/proto"
	"google.golang.org/protobuf/reflect/protoreflect"
	"google.golang.org/protobuf/types/descriptorpb"
)

type vr06 struct {
	found int
}

func (v *vr06) report(format string, a ...any) {
	if v.found < 4 {
		fmt.Printf("VERIF-REPLAY FAILING-INPUT "+format+"\n", a...)
	}
	v.found++
}

// ---------- suppression family ----------

// pathwise "k is p or a directory above p", written on components.
func vr06Above(k, p string) bool {
	kc, pc := strings.Split(k, "/"), strings.Split(p, "/")
	if len(kc) > len(pc) {
		return false
	}
	for i := range kc {
		if kc[i] != pc[i] {
			return false
		}
	}
	return true
}

func vr06AnyAbove(m map[string]struct{}, p string) bool {
	for k := range m {
		if vr06Above(k, p) {
			return true
		}
	}
	return false
}

type vr06File struct {
	path, pkg  string
	unstable   bool
	isImport   bool
	comments   map[string]string // "msg0", "field0", "msg1" -> leading comment
	descriptor descriptor.FileDescriptor
}

func vr06BuildFile(path, pkg string, isImport bool, comments map[string]string) (descriptor.FileDescriptor, error) {
	loc := func(p []int32, c string) *descriptorpb.SourceCodeInfo_Location {
		l := &descriptorpb.SourceCodeInfo_Location{Path: p, Span: []int32{int32(len(p)), 0, 10}}
		if c != "" {
			l.LeadingComments = proto.String(c)
		}
		return l
	}
	fd := &descriptorpb.FileDescriptorProto{
		Name: proto.String(path), Package: proto.String(pkg), Syntax: proto.String("proto3"),
		MessageType: []*descriptorpb.DescriptorProto{
			{Name: proto.String("M"), Field: []*descriptorpb.FieldDescriptorProto{{
				Name: proto.String("one"), Number: proto.Int32(1), JsonName: proto.String("one"),
				Label: descriptorpb.FieldDescriptorProto_LABEL_OPTIONAL.Enum(), Type: descriptorpb.FieldDescriptorProto_TYPE_STRING.Enum(),
			}}},
			{Name: proto.String("N")},
		},
		SourceCodeInfo: &descriptorpb.SourceCodeInfo{Location: []*descriptorpb.SourceCodeInfo_Location{
			loc([]int32{}, ""),
			loc([]int32{4, 0}, comments["msg0"]),
			loc([]int32{4, 0, 1}, ""),
			loc([]int32{4, 0, 2, 0}, comments["field0"]),
			loc([]int32{4, 0, 2, 0, 1}, ""),
			loc([]int32{4, 0, 2, 0, 3}, ""),
			loc([]int32{4, 1}, comments["msg1"]),
			loc([]int32{4, 1, 1}, ""),
		}},
	}
	fds, err := descriptor.FileDescriptorsForProtoFileDescriptors([]*descriptorv1.FileDescriptor{{FileDescriptorProto: fd, IsImport: isImport}})
	if err != nil {
		return nil, err
	}
	return fds[0], nil
}

func vr06Suppression(v *vr06, onlyComments bool) int {
	const rule, other = "RULE_A", "RULE_B"
	const prefix = "buf:lint:ignore"
	type commentCase struct {
		name     string
		comments map[string]string
		// which of the locations (field0, msg0, msg1) carry an effective ignore for RULE_A
		field0, msg0, msg1 bool
	}
	commentCases := []commentCase{
		{"no comments", map[string]string{}, false, false, false},
		{"field comment `buf:lint:ignore RULE_A`", map[string]string{"field0": " " + prefix + " " + rule + "\n"}, true, false, false},
		{"enclosing-message comment `buf:lint:ignore RULE_A`", map[string]string{"msg0": " " + prefix + " " + rule + "\n"}, true, true, false},
		{"sibling-message comment `buf:lint:ignore RULE_A`", map[string]string{"msg1": " " + prefix + " " + rule + "\n"}, false, false, true},
		{"field comment for another rule `buf:lint:ignore RULE_B`", map[string]string{"field0": " " + prefix + " " + other + "\n"}, false, false, false},
		{"field comment without space `buf:lint:ignoreRULE_A`", map[string]string{"field0": " " + prefix + rule + "\n"}, false, false, false},
		{"field comment with text before `see buf:lint:ignore RULE_A`", map[string]string{"field0": " see " + prefix + " " + rule + "\n"}, false, false, false},
		{"second line of field comment `buf:lint:ignore RULE_A, RULE_B trailing`", map[string]string{"field0": " first line\n " + prefix + " " + rule + ", " + other + " trailing\n"}, true, false, false},
		{"field comment `buf:lint:ignore RULE_B` and message comment `buf:lint:ignore RULE_A`", map[string]string{"field0": " " + prefix + " " + other + "\n", "msg0": " " + prefix + " " + rule + "\n"}, true, true, false},
	}
	type fileCase struct {
		path, pkg string
		unstable  bool
	}
	fileCases := []fileCase{
		{"a/b/x.proto", "a.v1", false},
		{"ab/x.proto", "a.v1beta1", true},
		{"a/b/x.proto", "a.v1alpha1", true},
		{"a/x.proto", "a", false},
	}
	if onlyComments {
		fileCases = fileCases[:1]
	}
	ignoreSets := []map[string]struct{}{nil, {"a": {}}, {"a/b": {}}, {"a/b/x.proto": {}}, {"b": {}, "ab/x.proto": {}}, {"a/b/x": {}}}
	type onlyCase struct {
		desc string
		m    map[string]map[string]struct{}
	}
	onlyCases := []onlyCase{
		{"{}", nil},
		{"{RULE_A:[a]}", map[string]map[string]struct{}{rule: {"a": {}}}},
		{"{RULE_A:[zz]}", map[string]map[string]struct{}{rule: {"zz": {}}}},
		{"{RULE_B:[a, ab]}", map[string]map[string]struct{}{other: {"a": {}, "ab": {}}}},
		{"{RULE_A:[ab/x.proto], RULE_B:[a]}", map[string]map[string]struct{}{rule: {"ab/x.proto": {}}, other: {"a": {}}}},
	}
	if onlyComments {
		ignoreSets = ignoreSets[:1]
		onlyCases = onlyCases[:3]
	}
	tried := 0
	for _, fc := range fileCases {
		for _, isImport := range []bool{false, true} {
			for _, cc := range commentCases {
				fd, err := vr06BuildFile(fc.path, fc.pkg, isImport, cc.comments)
				if err != nil {
					fmt.Printf("VERIF-REPLAY cannot build descriptor: %v\n", err)
					return tried
				}
				locs := fd.ProtoreflectFileDescriptor().SourceLocations()
				type locCase struct {
					name    string
					path    protoreflect.SourcePath
					comment bool
					noPath  bool
				}
				locCases := []locCase{
					{"field M.one", protoreflect.SourcePath{4, 0, 2, 0}, cc.field0, false},
					{"message M", protoreflect.SourcePath{4, 0}, cc.msg0, false},
					{"message N", protoreflect.SourcePath{4, 1}, cc.msg1, false},
					{"file (empty source path)", protoreflect.SourcePath{}, false, true},
				}
				for _, lc := range locCases {
					fileLocation := descriptor.NewFileLocation(fd, locs.ByPath(lc.path))
					for bits := 0; bits < 16; bits++ {
						excludeImports, ignoreUnstable, allowComments, hasPrefix := bits&1 != 0, bits&2 != 0, bits&4 != 0, bits&8 != 0
						if onlyComments && (excludeImports || ignoreUnstable) {
							continue
						}
						for _, ignore := range ignoreSets {
							for _, only := range onlyCases {
								cfg := &config{
									rulesConfig: &rulesConfig{IgnoreRootPaths: ignore, IgnoreRuleIDToRootPaths: only.m},
									optionsConfig: &optionsConfig{
										AllowCommentIgnores: allowComments, IgnoreUnstablePackages: ignoreUnstable, ExcludeImports: excludeImports,
									},
								}
								if hasPrefix {
									cfg.optionsConfig.CommentIgnorePrefix = prefix
								}
								tried++
								got, err := ignoreFileLocation(cfg, rule, fileLocation)
								reasons := []string{}
								if excludeImports && isImport {
									reasons = append(reasons, "the file is an import and imports are excluded")
								}
								if vr06AnyAbove(ignore, fc.path) {
									reasons = append(reasons, "an ignore path is above the file")
								}
								if vr06AnyAbove(only.m[rule], fc.path) {
									reasons = append(reasons, "an ignore_only path of RULE_A is above the file")
								}
								if ignoreUnstable && fc.unstable {
									reasons = append(reasons, "the package is unstable and ignore_unstable_packages is set")
								}
								if allowComments && hasPrefix && lc.comment && !lc.noPath {
									reasons = append(reasons, "a `buf:lint:ignore RULE_A` comment is on the element or its enclosing message")
								}
								want := len(reasons) > 0
								if err == nil && got == want {
									continue
								}
								keys := make([]string, 0, len(ignore))
								for k := range ignore {
									keys = append(keys, k)
								}
								sort.Strings(keys)
								input := fmt.Sprintf("ignoreFileLocation(rule RULE_A, location %s of file %q package %q import=%v, %s; config exclude_imports=%v ignore_unstable_packages=%v allow_comment_ignores=%v comment_prefix=%q ignore=%v ignore_only=%s)",
									lc.name, fc.path, fc.pkg, isImport, cc.name, excludeImports, ignoreUnstable, allowComments, cfg.optionsConfig.CommentIgnorePrefix, keys, only.desc)
								switch {
								case err != nil:
									v.report("%s fails: %v", input, err)
								case want:
									v.report("%s = false: the annotation is reported although %s", input, strings.Join(reasons, " and "))
								default:
									v.report("%s = true: the annotation is suppressed although no documented reason applies", input)
								}
							}
						}
					}
				}
			}
		}
	}
	return tried
}

func vr06CommentLines(v *vr06) int {
	// the documented examples, then an exhaustive run over a small alphabet; the oracle compares
	// position-wise: prefix, exactly one space, rule ID.
	oracle := func(line, prefix, id string) bool {
		n := len(prefix)
		if len(line) < n+1+len(id) {
			return false
		}
		return line[:n] == prefix && line[n] == ' ' && line[n+1:n+1+len(id)] == id
	}
	tried := 0
	try := func(line, prefix, id string) {
		tried++
		if got, want := checkCommentLineForCheckIgnore(line, prefix, id), oracle(line, prefix, id); got != want {
			v.report("checkCommentLineForCheckIgnore(line %q, prefix %q, rule %q) = %v, documented %v (the line must start with the prefix, a space and the rule ID)", line, prefix, id, got, want)
		}
	}
	for _, line := range []string{
		"buf:lint:ignore SERVICE_PASCAL_CASE, SERVICE_SUFFIX", "buf:lint:ignore SERVICE_PASCAL_CASE", "buf:lint:ignore SERVICE_PASCAL_CASEsome other comment",
		"buf:lint:ignore SERVICE_PASCAL_CASE some other comment", "buf:lint:ignoreSERVICE_PASCAL_CASE", "buf:lint:ignore  SERVICE_PASCAL_CASE", "buf:lint:ignore SERVICE_SUFFIX, SERVICE_PASCAL_CASE",
		"buf:lint:ignore", "buf:lint:ignore ", "x buf:lint:ignore SERVICE_PASCAL_CASE",
	} {
		try(line, "buf:lint:ignore", "SERVICE_PASCAL_CASE")
	}
	var lines []string
	var rec func(p string)
	rec = func(p string) {
		lines = append(lines, p)
		if len(p) == 5 {
			return
		}
		for _, c := range "pA B" {
			rec(p + string(c))
		}
	}
	rec("")
	for _, line := range lines {
		for _, prefix := range []string{"p", "pp", "p p"} {
			for _, id := range []string{"A", "AB", "B"} {
				try(line, prefix, id)
			}
		}
	}
	return tried
}

// ---------- selection family ----------

type vr06Universe struct {
	ruleType   check.RuleType
	rules      []Rule // all rules (every type)
	categories []Category
	typed      map[string]Rule
	catToRules map[string][]string
}

func vr06Sorted(m map[string]bool) []string {
	out := make([]string, 0, len(m))
	for k := range m {
		out = append(out, k)
	}
	sort.Strings(out)
	return out
}

// expand: a rule ID stands for itself, otherwise a category ID for its rules, otherwise unknown. "" is skipped.
func (u *vr06Universe) expand(ids []string) (map[string]bool, string) {
	out := map[string]bool{}
	for _, id := range ids {
		if id == "" {
			continue
		}
		if _, ok := u.typed[id]; ok {
			out[id] = true
		} else if rs, ok := u.catToRules[id]; ok {
			for _, r := range rs {
				out[r] = true
			}
		} else {
			return nil, id
		}
	}
	return out, ""
}

func (u *vr06Universe) undeprecate(in map[string]bool) map[string]bool {
	out := map[string]bool{}
	for id := range in {
		if r := u.typed[id]; r.Deprecated() {
			for _, repl := range r.ReplacementIDs() {
				out[repl] = true
			}
		} else {
			out[id] = true
		}
	}
	return out
}

func vr06Universes(t *testing.T) ([]*vr06Universe, error) {
	ctx := context.Background()
	c, err := newClient(slogtestext.NewLogger(t), NewLocalRunnerProvider(wasm.UnimplementedRuntime, bufplugin.NopPluginKeyProvider, bufplugin.NopPluginDataProvider))
	if err != nil {
		return nil, err
	}
	rules, categories, err := c.allRulesAndCategories(ctx, bufconfig.FileVersionV2, nil, false)
	if err != nil {
		return nil, err
	}
	var out []*vr06Universe
	for _, ruleType := range []check.RuleType{check.RuleTypeBreaking, check.RuleTypeLint} {
		u := &vr06Universe{ruleType: ruleType, rules: rules, categories: categories, typed: map[string]Rule{}, catToRules: map[string][]string{}}
		for _, r := range rules {
			if r.Type() != ruleType {
				continue
			}
			u.typed[r.ID()] = r
			for _, c := range r.Categories() {
				u.catToRules[c.ID()] = append(u.catToRules[c.ID()], r.ID())
			}
		}
		out = append(out, u)
	}
	return out, nil
}

func vr06Selection(t *testing.T, v *vr06) int {
	universes, err := vr06Universes(t)
	if err != nil {
		fmt.Printf("VERIF-REPLAY cannot list the builtin rules: %v\n", err)
		return 0
	}
	tried := 0
	for _, u := range universes {
		// vocabulary: two plain rules, every deprecated rule, the nested categories, a deprecated category, "" and an unknown ID
		var plain, deprecated []string
		for _, id := range vr06Sorted(func() map[string]bool {
			m := map[string]bool{}
			for id := range u.typed {
				m[id] = true
			}
			return m
		}()) {
			if u.typed[id].Deprecated() {
				deprecated = append(deprecated, id)
			} else if len(plain) < 2 {
				plain = append(plain, id)
			}
		}
		var cats []string
		for _, c := range u.categories {
			if _, ok := u.catToRules[c.ID()]; ok {
				cats = append(cats, c.ID())
			}
		}
		sort.Strings(cats)
		if u.ruleType == check.RuleTypeLint {
			// documented nesting
			for _, pair := range [][2]string{{"MINIMAL", "BASIC"}, {"BASIC", "STANDARD"}} {
				inner, _ := u.expand([]string{pair[0]})
				outer, _ := u.expand([]string{pair[1]})
				for id := range inner {
					if !outer[id] {
						v.report("builtin lint categories: rule %s is in %s but not in %s", id, pair[0], pair[1])
					}
				}
			}
		}
		vocab := append(append(append([]string{}, plain...), deprecated...), cats...)
		vocab = append(vocab, "", "NOT_A_RULE_OR_CATEGORY")
		var lists [][]string
		lists = append(lists, nil)
		for _, a := range vocab {
			lists = append(lists, []string{a})
		}
		for i, a := range vocab {
			for _, b := range vocab[i+1:] {
				if a != "" && b != "" && len(lists) < 60 {
					lists = append(lists, []string{b, a})
				}
			}
		}
		type ignoreOnly struct {
			id    string
			paths []string
		}
		var ignoreOnlys [][]ignoreOnly
		ignoreOnlys = append(ignoreOnlys, nil)
		for _, id := range vocab {
			if id != "" {
				ignoreOnlys = append(ignoreOnlys, []ignoreOnly{{id, []string{"a/b", "c//d/"}}})
			}
		}
		if len(deprecated) > 0 && len(plain) > 0 {
			ignoreOnlys = append(ignoreOnlys, []ignoreOnly{{deprecated[0], []string{"dep"}}, {plain[0], []string{"plain"}}})
		}
		check1 := func(use, except []string, only []ignoreOnly) {
			tried++
			onlyMap := map[string][]string{}
			for _, io := range only {
				onlyMap[io.id] = io.paths
			}
			input := fmt.Sprintf("%s config use=%q except=%q ignore_only=%v over the builtin rules", strings.ToLower(u.ruleType.String()), use, except, onlyMap)
			// documented result
			useIDs := use
			if len(stringsNonEmpty(use)) == 0 {
				useIDs = nil
				for id, r := range u.typed {
					if r.Default() {
						useIDs = append(useIDs, id)
					}
				}
			}
			wantErr := ""
			useSet, unknown := u.expand(useIDs)
			if unknown != "" {
				wantErr = unknown
			}
			exceptSet, unknown := u.expand(except)
			if unknown != "" && wantErr == "" {
				wantErr = unknown
			}
			for _, io := range only {
				if _, unknown := u.expand([]string{io.id}); unknown != "" && wantErr == "" {
					wantErr = unknown
				}
			}
			got, err := newRulesConfig(use, except, []string{"ig"}, onlyMap, u.rules, u.categories, u.ruleType, nil)
			if wantErr != "" {
				if err == nil {
					v.report("%s: accepted although %q is not a known rule or category ID (selected %d rules)", input, wantErr, len(got.RuleIDs))
				}
				return
			}
			want := u.undeprecate(useSet)
			for id := range u.undeprecate(exceptSet) {
				delete(want, id)
			}
			if len(want) == 0 {
				return // "no rules" is reported as an error by design
			}
			if err != nil {
				v.report("%s: rejected (%v) although every ID is known", input, err)
				return
			}
			gotSet := map[string]bool{}
			for _, id := range got.RuleIDs {
				gotSet[id] = true
			}
			for _, id := range vr06Sorted(want) {
				if !gotSet[id] {
					v.report("%s: rule %s is missing from the selection (documented: undeprecate(expand(use)) minus undeprecate(expand(except)))", input, id)
					return
				}
			}
			for _, id := range vr06Sorted(gotSet) {
				if !want[id] {
					v.report("%s: rule %s is selected but is not in undeprecate(expand(use)) minus undeprecate(expand(except))", input, id)
					return
				}
			}
			// ignore_only: keys are undeprecated rule IDs carrying the configured (normalized) paths
			wantOnly := map[string]map[string]bool{}
			for _, io := range only {
				set, _ := u.expand([]string{io.id})
				for id := range u.undeprecate(set) {
					if wantOnly[id] == nil {
						wantOnly[id] = map[string]bool{}
					}
					for _, p := range io.paths {
						wantOnly[id][strings.Trim(strings.ReplaceAll(p, "//", "/"), "/")] = true
					}
				}
			}
			for _, id := range vr06Sorted(func() map[string]bool {
				m := map[string]bool{}
				for id := range got.IgnoreRuleIDToRootPaths {
					m[id] = true
				}
				return m
			}()) {
				if r, ok := u.typed[id]; ok && r.Deprecated() {
					v.report("%s: the resolved ignore_only map keeps the deprecated rule ID %s as a key instead of moving its paths to the replacement IDs %v (deprecated IDs must behave as their replacements)", input, id, r.ReplacementIDs())
					return
				}
				if wantOnly[id] == nil {
					v.report("%s: ignore_only has paths for rule %s which the configuration does not name", input, id)
					return
				}
			}
			for _, id := range func() []string {
				m := map[string]bool{}
				for id := range wantOnly {
					m[id] = true
				}
				return vr06Sorted(m)
			}() {
				gotPaths := got.IgnoreRuleIDToRootPaths[id]
				for p := range wantOnly[id] {
					if _, ok := gotPaths[p]; !ok {
						v.report("%s: ignore_only path %q is not attached to rule %s", input, p, id)
						return
					}
				}
				for p := range gotPaths {
					if !wantOnly[id][p] {
						v.report("%s: rule %s gets the ignore_only path %q which was configured for another ID", input, id, p)
						return
					}
				}
			}
			if _, ok := got.IgnoreRootPaths["ig"]; !ok || len(got.IgnoreRootPaths) != 1 {
				v.report("%s ignore=[ig]: resolved ignore paths are %v", input, got.IgnoreRootPaths)
			}
		}
		for _, use := range lists {
			for _, except := range lists {
				check1(use, except, nil)
			}
		}
		for _, only := range ignoreOnlys {
			check1(nil, nil, only)
			check1([]string{cats[0]}, plain[:1], only)
		}
	}
	return tried
}

func stringsNonEmpty(in []string) []string {
	var out []string
	for _, s := range in {
		if s != "" {
			out = append(out, s)
		}
	}
	return out
}

// direct runs of the map/slice helpers over a synthetic universe: rules r1,r2 in category C1, r2,r3 in C2,
// r4 without category, d1 deprecated -> [r1, r3], d0 deprecated -> [].
func vr06Helpers(fn string, v *vr06) int {
	ruleToCats := map[string][]string{"r1": {"C1"}, "r2": {"C1", "C2"}, "r3": {"C2"}, "r4": nil, "d1": {"C2"}, "d0": nil}
	catToRules := map[string][]string{"C1": {"r1", "r2"}, "C2": {"r2", "r3", "d1"}}
	deprecated := map[string][]string{"d1": {"r1", "r3"}, "d0": {}}
	vocab := []string{"r1", "r4", "d1", "d0", "C1", "C2", "", "zz"}
	var lists [][]string
	lists = append(lists, nil, []string{})
	for _, a := range vocab {
		lists = append(lists, []string{a})
		for _, b := range vocab {
			lists = append(lists, []string{a, b})
			for _, c := range []string{"C2", "zz", "r4"} {
				lists = append(lists, []string{a, b, c})
			}
		}
	}
	tried := 0
	switch fn {
	case "transformRuleOrCategoryIDsToRuleIDs":
		for _, ids := range lists {
			tried++
			want := map[string]bool{}
			unknown := ""
			for _, id := range ids {
				if id == "" {
					continue
				}
				if _, ok := ruleToCats[id]; ok {
					want[id] = true
				} else if rs, ok := catToRules[id]; ok {
					for _, r := range rs {
						want[r] = true
					}
				} else if unknown == "" {
					unknown = id
				}
			}
			got, err := transformRuleOrCategoryIDsToRuleIDs(ids, ruleToCats, catToRules)
			input := fmt.Sprintf("transformRuleOrCategoryIDsToRuleIDs(%q) with rules r1{C1} r2{C1,C2} r3{C2} r4{} d1{C2} d0{}", ids)
			if unknown != "" {
				if err == nil {
					v.report("%s = %q: the unknown ID %q is accepted", input, got, unknown)
				}
				continue
			}
			if err != nil {
				v.report("%s fails: %v", input, err)
				continue
			}
			if fmt.Sprint(got) != fmt.Sprint(vr06Sorted(want)) && !(len(got) == 0 && len(want) == 0) {
				v.report("%s = %q, documented union of the expansions %q", input, got, vr06Sorted(want))
			}
		}
	case "transformRuleIDsToUndeprecated":
		for _, ids := range lists {
			tried++
			want := map[string]bool{}
			for _, id := range ids {
				if repl, ok := deprecated[id]; ok {
					for _, r := range repl {
						want[r] = true
					}
				} else {
					want[id] = true
				}
			}
			got := transformRuleIDsToUndeprecated(ids, deprecated)
			if fmt.Sprint(got) != fmt.Sprint(vr06Sorted(want)) && !(len(got) == 0 && len(want) == 0) {
				v.report("transformRuleIDsToUndeprecated(%q) with d1 -> [r1 r3], d0 -> [] = %q, documented %q", ids, got, vr06Sorted(want))
			}
		}
	case "transformRuleIDToIgnoreRootPathsToUndeprecated":
		for _, ids := range lists {
			tried++
			in := map[string]map[string]struct{}{}
			want := map[string]map[string]bool{}
			for i, id := range ids {
				if _, dup := in[id]; dup {
					continue
				}
				p := fmt.Sprintf("p%d", i)
				in[id] = map[string]struct{}{p: {}, "shared": {}}
				targets := []string{id}
				if repl, ok := deprecated[id]; ok {
					targets = repl
				}
				for _, target := range targets {
					if want[target] == nil {
						want[target] = map[string]bool{}
					}
					want[target][p], want[target]["shared"] = true, true
				}
			}
			got := transformRuleIDToIgnoreRootPathsToUndeprecated(in, deprecated)
			input := fmt.Sprintf("transformRuleIDToIgnoreRootPathsToUndeprecated(%v) with d1 -> [r1 r3], d0 -> []", in)
			for id, paths := range got {
				if _, ok := deprecated[id]; ok {
					v.report("%s keeps the deprecated key %s", input, id)
				}
				for p := range paths {
					if !want[id][p] {
						v.report("%s attaches path %q to %s", input, p, id)
					}
				}
			}
			for id, paths := range want {
				for p := range paths {
					if _, ok := got[id][p]; !ok {
						v.report("%s loses path %q of %s", input, p, id)
					}
				}
			}
		}
	}
	return tried
}

type vr06RC struct {
	RuleOrCategory
	id string
}

func (r vr06RC) ID() string { return r.id }

func vr06GetIDTo(v *vr06) int {
	tried := 0
	for _, ids := range [][]string{{}, {"a"}, {"a", "b"}, {"b", "a", "c"}, {"a", "a"}, {"a", "b", "a"}} {
		tried++
		var in []RuleOrCategory
		seen, dup := map[string]bool{}, false
		for _, id := range ids {
			in = append(in, vr06RC{id: id})
			dup = dup || seen[id]
			seen[id] = true
		}
		m, err := getIDToRuleOrCategory(in)
		if dup {
			if err == nil {
				v.report("getIDToRuleOrCategory(IDs %q): the duplicate ID is accepted", ids)
			}
			continue
		}
		if err != nil {
			v.report("getIDToRuleOrCategory(IDs %q) fails: %v", ids, err)
			continue
		}
		for _, id := range ids {
			if e, ok := m[id]; !ok || e.ID() != id {
				v.report("getIDToRuleOrCategory(IDs %q): ID %q is not mapped to its own entry", ids, id)
			}
		}
		if len(m) != len(ids) {
			v.report("getIDToRuleOrCategory(IDs %q) has %d entries", ids, len(m))
		}
	}
	return tried
}

// ---------- fake rules / categories / annotations for the helper families ----------

type vr06Cat struct {
	check.Category
	id string
}

func (c vr06Cat) ID() string { return c.id }

type vr06Rule struct {
	Rule
	id   string
	cats []string
	typ  check.RuleType
	dep  bool
	repl []string
}

func (r vr06Rule) ID() string               { return r.id }
func (r vr06Rule) Type() check.RuleType     { return r.typ }
func (r vr06Rule) Deprecated() bool         { return r.dep }
func (r vr06Rule) ReplacementIDs() []string { return r.repl }
func (r vr06Rule) PluginName() string       { return "" }
func (r vr06Rule) Default() bool            { return !r.dep }
func (r vr06Rule) Categories() []check.Category {
	var out []check.Category
	for _, c := range r.cats {
		out = append(out, vr06Cat{id: c})
	}
	return out
}

func (r vr06Rule) String() string {
	s := r.id + "{" + strings.Join(r.cats, ",") + "}"
	if r.typ == check.RuleTypeBreaking {
		s += "/breaking"
	}
	if r.dep {
		s += fmt.Sprintf("/deprecated->%v", r.repl)
	}
	return s
}

func vr06RuleLists() [][]Rule {
	l, b := check.RuleTypeLint, check.RuleTypeBreaking
	pool := []vr06Rule{
		{id: "r1", cats: []string{"C1"}, typ: l},
		{id: "r2", cats: []string{"C1", "C2"}, typ: l},
		{id: "r3", typ: l},
		{id: "b1", cats: []string{"C2"}, typ: b},
		{id: "d1", cats: []string{"C2"}, typ: l, dep: true, repl: []string{"r1", "r3"}},
		{id: "d0", typ: l, dep: true},
		{id: "dx", typ: l, dep: true, repl: []string{"missing"}},
		{id: "r1", cats: []string{"C9"}, typ: b}, // duplicate ID
	}
	var out [][]Rule
	out = append(out, nil)
	for i := range pool {
		out = append(out, []Rule{pool[i]})
		for j := range pool {
			if i != j {
				out = append(out, []Rule{pool[i], pool[j]})
				for k := range pool {
					if k != i && k != j && (k == 4 || k == 7 || k == 2) {
						out = append(out, []Rule{pool[i], pool[j], pool[k]})
					}
				}
			}
		}
	}
	return out
}

func vr06RuleHelpers(fn string, v *vr06) int {
	tried := 0
	for _, rules := range vr06RuleLists() {
		tried++
		desc := fmt.Sprint(rules)
		ids := map[string]int{}
		for _, r := range rules {
			ids[r.ID()]++
		}
		dupID := false
		for _, n := range ids {
			dupID = dupID || n > 1
		}
		switch fn {
		case "rulesForType":
			for _, typ := range []check.RuleType{check.RuleTypeLint, check.RuleTypeBreaking} {
				var want []string
				for _, r := range rules {
					if r.Type() == typ {
						want = append(want, fmt.Sprint(r))
					}
				}
				var got []string
				for _, r := range rulesForType(rules, typ) {
					got = append(got, fmt.Sprint(r))
				}
				if fmt.Sprint(got) != fmt.Sprint(want) {
					v.report("rulesForType(%s, %v) = %v, documented: exactly the rules of that type, in order: %v", desc, typ, got, want)
				}
			}
		case "getRuleIDToCategoryIDs":
			m, err := getRuleIDToCategoryIDs(rules)
			if dupID {
				if err == nil {
					v.report("getRuleIDToCategoryIDs(%s) accepts the duplicate rule ID", desc)
				}
				continue
			}
			if err != nil {
				v.report("getRuleIDToCategoryIDs(%s) fails: %v", desc, err)
				continue
			}
			for _, r := range rules {
				var want []string
				for _, c := range r.Categories() {
					want = append(want, c.ID())
				}
				if got, ok := m[r.ID()]; !ok || fmt.Sprint(got) != fmt.Sprint(want) {
					v.report("getRuleIDToCategoryIDs(%s)[%s] = %v (present=%v), the rule declares %v", desc, r.ID(), got, ok, want)
				}
			}
			if len(m) != len(rules) {
				v.report("getRuleIDToCategoryIDs(%s) has %d keys for %d rules", desc, len(m), len(rules))
			}
		case "GetDeprecatedIDToReplacementIDs":
			known := true
			want := map[string][]string{}
			for _, r := range rules {
				if r.Deprecated() {
					want[r.ID()] = r.ReplacementIDs()
					for _, x := range r.ReplacementIDs() {
						if ids[x] == 0 {
							known = false
						}
					}
				}
			}
			got, err := GetDeprecatedIDToReplacementIDs(rules)
			if dupID || !known {
				if err == nil {
					v.report("GetDeprecatedIDToReplacementIDs(%s) = %v: accepted although an ID is duplicated or a replacement ID is unknown", desc, got)
				}
				continue
			}
			if err != nil {
				v.report("GetDeprecatedIDToReplacementIDs(%s) fails: %v", desc, err)
				continue
			}
			if len(got) != len(want) {
				v.report("GetDeprecatedIDToReplacementIDs(%s) = %v, documented: exactly the deprecated IDs with their replacement IDs %v", desc, got, want)
				continue
			}
			for id, repl := range want {
				if g, ok := got[id]; !ok || g == nil || fmt.Sprint(g) != fmt.Sprint(append([]string{}, repl...)) {
					v.report("GetDeprecatedIDToReplacementIDs(%s)[%s] = %v (present=%v), documented %v (non-nil)", desc, id, g, ok, repl)
				}
			}
		}
	}
	if fn == "getCategoryIDToRuleIDs" {
		for _, in := range []map[string][]string{
			{}, {"r1": nil}, {"r1": {"C1"}}, {"r1": {"C1"}, "r2": {"C1", "C2"}, "r3": nil}, {"r1": {"C1", "C2"}, "r2": {"C2", "C1"}, "r3": {"C3"}}, {"r1": {""}},
		} {
			tried++
			want := map[string]map[string]bool{}
			for r, cs := range in {
				for _, c := range cs {
					if want[c] == nil {
						want[c] = map[string]bool{}
					}
					want[c][r] = true
				}
			}
			got := getCategoryIDToRuleIDs(in)
			okAll := got != nil && len(got) == len(want)
			for c, rs := range got {
				seen := map[string]bool{}
				for _, r := range rs {
					okAll = okAll && want[c][r] && !seen[r]
					seen[r] = true
				}
				okAll = okAll && len(rs) == len(want[c])
			}
			if !okAll {
				v.report("getCategoryIDToRuleIDs(%v) = %v, documented: the inverse relation (category -> exactly the rules declaring it)", in, got)
			}
		}
	}
	return tried
}

type vr06Annotation struct {
	check.Annotation
	rule    string
	loc     descriptor.FileLocation
	against descriptor.FileLocation
	desc    string
}

func (a vr06Annotation) RuleID() string                                { return a.rule }
func (a vr06Annotation) Message() string                               { return a.desc }
func (a vr06Annotation) FileLocation() descriptor.FileLocation        { return a.loc }
func (a vr06Annotation) AgainstFileLocation() descriptor.FileLocation { return a.against }

// filterAnnotations: the result is exactly the sub-sequence of annotations whose location (and against location)
// no documented suppression covers - nothing added, nothing else removed, order kept.
func vr06FilterAnnotations(v *vr06) int {
	const prefix = "buf:lint:ignore"
	type fileSpec struct {
		path, pkg         string
		unstable, isImport bool
		commentOnField    string
	}
	specs := []fileSpec{
		{"a/b/x.proto", "a.v1", false, false, ""},
		{"a/c/y.proto", "a.v1", false, false, " " + prefix + " RULE_A\n"},
		{"ab/x.proto", "b.v1beta1", true, false, ""},
		{"dep/d.proto", "d.v1", false, true, ""},
	}
	type located struct {
		spec fileSpec
		loc  descriptor.FileLocation
	}
	var locs []located
	for _, sp := range specs {
		fd, err := vr06BuildFile(sp.path, sp.pkg, sp.isImport, map[string]string{"field0": sp.commentOnField})
		if err != nil {
			fmt.Printf("VERIF-REPLAY cannot build descriptor: %v\n", err)
			return 0
		}
		locs = append(locs, located{sp, descriptor.NewFileLocation(fd, fd.ProtoreflectFileDescriptor().SourceLocations().ByPath(protoreflect.SourcePath{4, 0, 2, 0}))})
	}
	var annotations []*annotation
	var specOf [][2]*fileSpec
	for _, rule := range []string{"RULE_A", "RULE_B"} {
		for i := range locs {
			annotations = append(annotations, newAnnotation(vr06Annotation{rule: rule, loc: locs[i].loc, desc: fmt.Sprintf("%s@%s", rule, locs[i].spec.path)}, ""))
			specOf = append(specOf, [2]*fileSpec{&locs[i].spec, nil})
		}
	}
	annotations = append(annotations,
		newAnnotation(vr06Annotation{rule: "RULE_A", desc: "RULE_A@<no location>"}, ""),
		newAnnotation(vr06Annotation{rule: "RULE_B", loc: locs[0].loc, against: locs[2].loc, desc: "RULE_B@a/b/x.proto against ab/x.proto"}, ""),
		newAnnotation(vr06Annotation{rule: "RULE_B", against: locs[3].loc, desc: "RULE_B@<no location> against dep/d.proto"}, ""),
	)
	specOf = append(specOf, [2]*fileSpec{nil, nil}, [2]*fileSpec{&locs[0].spec, &locs[2].spec}, [2]*fileSpec{nil, &locs[3].spec})
	tried := 0
	ignoreSets := []map[string]struct{}{nil, {"a": {}}, {"a/b": {}}, {"ab/x.proto": {}, "a/c": {}}, {"a/b/x": {}}}
	onlySets := []map[string]map[string]struct{}{nil, {"RULE_A": {"a": {}}}, {"RULE_B": {"a/b": {}, "dep": {}}}, {"RULE_A": {"ab": {}}, "RULE_B": {"a/c/y.proto": {}}}}
	for bits := 0; bits < 8; bits++ {
		excludeImports, ignoreUnstable, allowComments := bits&1 != 0, bits&2 != 0, bits&4 != 0
		for ii, ignore := range ignoreSets {
			for oi, only := range onlySets {
				tried++
				cfg := &config{
					rulesConfig:   &rulesConfig{IgnoreRootPaths: ignore, IgnoreRuleIDToRootPaths: only},
					optionsConfig: &optionsConfig{AllowCommentIgnores: allowComments, IgnoreUnstablePackages: ignoreUnstable, ExcludeImports: excludeImports, CommentIgnorePrefix: prefix},
				}
				suppressed := func(rule string, sp *fileSpec) bool {
					if sp == nil {
						return false
					}
					return (excludeImports && sp.isImport) || vr06AnyAbove(ignore, sp.path) || vr06AnyAbove(only[rule], sp.path) || (ignoreUnstable && sp.unstable) ||
						(allowComments && strings.Contains(sp.commentOnField, prefix+" "+rule))
				}
				var want []string
				for i, a := range annotations {
					if !suppressed(a.RuleID(), specOf[i][0]) && !suppressed(a.RuleID(), specOf[i][1]) {
						want = append(want, a.Message())
					}
				}
				got, err := filterAnnotations(cfg, annotations)
				var gotDesc []string
				for _, a := range got {
					gotDesc = append(gotDesc, a.Message())
				}
				if err != nil || fmt.Sprint(gotDesc) != fmt.Sprint(want) {
					v.report("filterAnnotations(config exclude_imports=%v ignore_unstable_packages=%v allow_comment_ignores=%v ignore set #%d %v ignore_only set #%d %v; annotations RULE_A and RULE_B on field M.one of a/b/x.proto, a/c/y.proto (comment `buf:lint:ignore RULE_A`), ab/x.proto (package b.v1beta1), dep/d.proto (import), plus three with missing/against locations) keeps %v (err %v); documented: exactly the unsuppressed ones in order %v",
						excludeImports, ignoreUnstable, allowComments, ii, vr06MapKeys(ignore), oi, only, gotDesc, err, want)
				}
			}
		}
	}
	return tried
}

func vr06MapKeys(m map[string]struct{}) []string {
	out := make([]string, 0, len(m))
	for k := range m {
		out = append(out, k)
	}
	sort.Strings(out)
	return out
}

func TestVerifReplayC06(t *testing.T) {
	fn := os.Getenv("VERIF_REPLAY_FUNC")
	v := &vr06{}
	tried := 0
	switch fn {
	case "checkCommentLineForCheckIgnore":
		tried += vr06CommentLines(v)
		if v.found == 0 {
			tried += vr06Suppression(v, true)
		}
	case "ignoreFileLocation", "ignoreAnnotation":
		tried += vr06Suppression(v, false)
		if v.found == 0 {
			tried += vr06FilterAnnotations(v)
		}
	case "filterAnnotations", "annotationsToFilteredFileAnnotationSetOrError":
		tried += vr06FilterAnnotations(v)
		if v.found == 0 {
			tried += vr06Suppression(v, false)
		}
	case "rulesForType", "getRuleIDToCategoryIDs", "getCategoryIDToRuleIDs", "GetDeprecatedIDToReplacementIDs":
		tried += vr06RuleHelpers(fn, v)
		if v.found == 0 {
			tried += vr06Selection(t, v)
		}
	case "transformRuleOrCategoryIDsToRuleIDs", "transformRuleIDsToUndeprecated", "transformRuleIDToIgnoreRootPathsToUndeprecated":
		tried += vr06Helpers(fn, v)
		if v.found == 0 {
			tried += vr06Selection(t, v)
		}
	case "getIDToRuleOrCategory":
		tried += vr06GetIDTo(v)
		if v.found == 0 {
			tried += vr06Selection(t, v)
		}
	case "newRulesConfig", "rulesConfigForCheckConfig":
		tried += vr06Selection(t, v)
	default:
		fmt.Printf("VERIF-REPLAY no harness for %q\n", fn)
		return
	}
	if v.found == 0 {
		fmt.Printf("VERIF-REPLAY no failing input found for %s (%d inputs)\n", fn, tried)
	} else {
		fmt.Printf("VERIF-REPLAY %d failing inputs in total for %s (%d inputs tried)\n", v.found, fn, tried)
	}
}
