package bufimageutil

// Replay / bounded contract run for C12 obligations of package bufimageutil (injected with go test -overlay).
// Small images (messages, nested enum, map field, service with two methods, extension) are filtered with every
// include/exclude choice from a small name set; the result must (a) still link, (b) contain no excluded element,
// (c) keep every included element, (d) be a fixpoint of the same filter.
// For obligations of includeType (VERIF_REPLAY_FUNC=includeType) a second sample image with extensions (message-, enum- and
// scalar-typed, top-level and nested) is filtered with every include-one-extension / exclude-one-type choice and a few
// neighbours (include the extendee, include a plain message): an included element must be in the result or the filter must be
// rejected with an error naming it; re-applying the include part of the filter to the result must change nothing.

import (
	"fmt"
	"os"
	"sort"
	"strings"
	"testing"

	"github.com/bufbuild/buf/private/bufpkg/bufimage"
	"github.com/google/uuid"
	"google.golang.org/protobuf/proto"
	"google.golang.org/protobuf/reflect/protodesc"
	"google.golang.org/protobuf/types/descriptorpb"
)

func vcImage(t *testing.T) bufimage.Image {
	lbl := descriptorpb.FieldDescriptorProto_LABEL_OPTIONAL.Enum()
	msgT := descriptorpb.FieldDescriptorProto_TYPE_MESSAGE.Enum()
	enumT := descriptorpb.FieldDescriptorProto_TYPE_ENUM.Enum()
	fd := &descriptorpb.FileDescriptorProto{
		Name: proto.String("a.proto"), Package: proto.String("pkg"), Syntax: proto.String("proto3"),
		MessageType: []*descriptorpb.DescriptorProto{
			{Name: proto.String("Req")},
			{Name: proto.String("Resp")},
			{Name: proto.String("Other")},
			{Name: proto.String("Foo"), EnumType: []*descriptorpb.EnumDescriptorProto{{Name: proto.String("Kind"), Value: []*descriptorpb.EnumValueDescriptorProto{{Name: proto.String("KIND_UNSPECIFIED"), Number: proto.Int32(0)}}}}},
			{Name: proto.String("Bar"), Field: []*descriptorpb.FieldDescriptorProto{
				{Name: proto.String("kind"), Number: proto.Int32(1), Label: lbl, Type: enumT, TypeName: proto.String(".pkg.Foo.Kind")},
				{Name: proto.String("other"), Number: proto.Int32(2), Label: lbl, Type: msgT, TypeName: proto.String(".pkg.Other")},
			}},
		},
		Service: []*descriptorpb.ServiceDescriptorProto{{
			Name: proto.String("Svc"),
			Method: []*descriptorpb.MethodDescriptorProto{
				{Name: proto.String("Do"), InputType: proto.String(".pkg.Req"), OutputType: proto.String(".pkg.Resp")},
				{Name: proto.String("Do2"), InputType: proto.String(".pkg.Req"), OutputType: proto.String(".pkg.Other")},
			},
		}},
	}
	f, err := bufimage.NewImageFile(fd, nil, uuid.Nil, fd.GetName(), "", false, false, nil)
	if err != nil {
		t.Fatal(err)
	}
	img, err := bufimage.NewImage([]bufimage.ImageFile{f})
	if err != nil {
		t.Fatal(err)
	}
	return img
}

func vcNames(img bufimage.Image) map[string]bool {
	out := map[string]bool{}
	for _, f := range bufimage.ImageToFileDescriptorSet(img).File {
		pkg := f.GetPackage()
		var walk func(prefix string, ms []*descriptorpb.DescriptorProto)
		walk = func(prefix string, ms []*descriptorpb.DescriptorProto) {
			for _, m := range ms {
				n := prefix + "." + m.GetName()
				out[n] = true
				for _, e := range m.EnumType {
					out[n+"."+e.GetName()] = true
				}
				for _, x := range m.Extension {
					out[n+"."+x.GetName()] = true
				}
				walk(n, m.NestedType)
			}
		}
		walk(pkg, f.MessageType)
		for _, e := range f.EnumType {
			out[pkg+"."+e.GetName()] = true
		}
		for _, x := range f.Extension {
			out[pkg+"."+x.GetName()] = true
		}
		for _, s := range f.Service {
			out[pkg+"."+s.GetName()] = true
			for _, m := range s.Method {
				out[pkg+"."+s.GetName()+"."+m.GetName()] = true
			}
		}
	}
	return out
}

// vcExtImage: a.proto (proto2) {message M{extensions 100 to 200; optional U u=1;} message T{} message U{} enum K{K_A=1;}
// message Other{extend M{optional T n=103;}} extend M{optional T e=100; optional K k=101; optional int32 s=102;}}
func vcExtImage(t *testing.T) bufimage.Image {
	lbl := descriptorpb.FieldDescriptorProto_LABEL_OPTIONAL.Enum()
	msgT := descriptorpb.FieldDescriptorProto_TYPE_MESSAGE.Enum()
	enumT := descriptorpb.FieldDescriptorProto_TYPE_ENUM.Enum()
	int32T := descriptorpb.FieldDescriptorProto_TYPE_INT32.Enum()
	fd := &descriptorpb.FileDescriptorProto{
		Name: proto.String("a.proto"), Package: proto.String("pkg"), Syntax: proto.String("proto2"),
		MessageType: []*descriptorpb.DescriptorProto{
			{Name: proto.String("M"), ExtensionRange: []*descriptorpb.DescriptorProto_ExtensionRange{{Start: proto.Int32(100), End: proto.Int32(200)}},
				Field: []*descriptorpb.FieldDescriptorProto{{Name: proto.String("u"), Number: proto.Int32(1), Label: lbl, Type: msgT, TypeName: proto.String(".pkg.U")}}},
			{Name: proto.String("T")},
			{Name: proto.String("U")},
			{Name: proto.String("Other"), Extension: []*descriptorpb.FieldDescriptorProto{
				{Name: proto.String("n"), Number: proto.Int32(103), Label: lbl, Type: msgT, TypeName: proto.String(".pkg.T"), Extendee: proto.String(".pkg.M")},
			}},
		},
		EnumType: []*descriptorpb.EnumDescriptorProto{{Name: proto.String("K"), Value: []*descriptorpb.EnumValueDescriptorProto{{Name: proto.String("K_A"), Number: proto.Int32(1)}}}},
		Extension: []*descriptorpb.FieldDescriptorProto{
			{Name: proto.String("e"), Number: proto.Int32(100), Label: lbl, Type: msgT, TypeName: proto.String(".pkg.T"), Extendee: proto.String(".pkg.M")},
			{Name: proto.String("k"), Number: proto.Int32(101), Label: lbl, Type: enumT, TypeName: proto.String(".pkg.K"), Extendee: proto.String(".pkg.M")},
			{Name: proto.String("s"), Number: proto.Int32(102), Label: lbl, Type: int32T, Extendee: proto.String(".pkg.M")},
		},
	}
	f, err := bufimage.NewImageFile(fd, nil, uuid.Nil, fd.GetName(), "", false, false, nil)
	if err != nil {
		t.Fatal(err)
	}
	img, err := bufimage.NewImage([]bufimage.ImageFile{f})
	if err != nil {
		t.Fatal(err)
	}
	return img
}

// vcReplayIncludeExtension: obligations of includeType. Every filter {include X, exclude Y} with X an extension (or, as
// neighbours, the extendee / a plain message) and Y a message or enum of the image (or nothing).
func vcReplayIncludeExtension(t *testing.T, report func(format string, a ...any)) int {
	if _, err := protodesc.NewFiles(bufimage.ImageToFileDescriptorSet(vcExtImage(t))); err != nil {
		t.Fatalf("the sample image does not link: %v", err)
	}
	includes := []string{"pkg.e", "pkg.k", "pkg.s", "pkg.Other.n", "pkg.M", "pkg.T"}
	excludes := []string{"", "pkg.T", "pkg.K", "pkg.U", "pkg.M", "pkg.Other"}
	tried := 0
	for _, inc := range includes {
		for _, exc := range excludes {
			if inc == exc {
				continue
			}
			opts := []ImageFilterOption{WithIncludeTypes(inc)}
			desc := "include " + inc
			if exc != "" {
				opts = append(opts, WithExcludeTypes(exc))
				desc += " exclude " + exc
			}
			tried++
			out, err := FilterImage(vcExtImage(t), opts...)
			if err != nil {
				// rejecting the filter because the included element itself needs the excluded one is legitimate
				if !strings.Contains(err.Error(), strconvQuote(inc)) {
					report("filter {%s}: FilterImage fails although every name exists: %v", desc, err)
				}
				continue
			}
			if _, err := protodesc.NewFiles(bufimage.ImageToFileDescriptorSet(out)); err != nil {
				report("filter {%s}: the filtered image no longer links: %v", desc, err)
				continue
			}
			have := vcNames(out)
			if exc != "" && have[exc] {
				report("filter {%s}: excluded element %s is still present", desc, exc)
			}
			if !have[inc] {
				report("filter {%s}: err == nil but included element %s is missing from the filtered image (which holds %s)", desc, inc, vcSorted(have))
				continue
			}
			// the include part of the filter applied to the result: nothing left to remove
			again, err := FilterImage(out, WithIncludeTypes(inc))
			if err != nil {
				report("filter {%s}: re-applying include %s to the result fails: %v", desc, inc, err)
			} else if !proto.Equal(bufimage.ImageToFileDescriptorSet(out), bufimage.ImageToFileDescriptorSet(again)) {
				report("filter {%s}: re-applying include %s to the result changes it: %s became %s", desc, inc, vcSorted(have), vcSorted(vcNames(again)))
			}
		}
	}
	return tried
}

func strconvQuote(s string) string { return fmt.Sprintf("%q", s) }

func vcSorted(m map[string]bool) string {
	var names []string
	for n := range m {
		names = append(names, n)
	}
	sort.Strings(names)
	return "[" + strings.Join(names, " ") + "]"
}

func TestVerifReplayC12(t *testing.T) {
	found := 0
	report := func(format string, a ...any) {
		if found < 40 {
			fmt.Printf("VERIF-REPLAY FAILING-INPUT "+format+"\n", a...)
		}
		found++
	}
	if os.Getenv("VERIF_REPLAY_FUNC") == "includeType" {
		tried := vcReplayIncludeExtension(t, report)
		if found == 0 {
			fmt.Printf("VERIF-REPLAY no failing input found for %s (%d include/exclude filters on the sample image with extensions)\n", os.Getenv("VERIF_REPLAY_FUNC"), tried)
		}
		return
	}
	names := []string{"pkg.Req", "pkg.Resp", "pkg.Other", "pkg.Foo", "pkg.Foo.Kind", "pkg.Bar", "pkg.Svc", "pkg.Svc.Do"}
	tried := 0
	for inc := -1; inc < len(names); inc++ {
		for exc := -1; exc < len(names); exc++ {
			if inc == exc || (inc < 0 && exc < 0) {
				continue
			}
			var opts []ImageFilterOption
			desc := ""
			if inc >= 0 {
				opts = append(opts, WithIncludeTypes(names[inc]))
				desc += "include " + names[inc] + " "
			}
			if exc >= 0 {
				opts = append(opts, WithExcludeTypes(names[exc]))
				desc += "exclude " + names[exc]
			}
			tried++
			out, err := FilterImage(vcImage(t), opts...)
			if err != nil {
				// a filter over existing names must not fail because of unrelated content; failing because the
				// included element itself needs the excluded one is legitimate
				if inc < 0 || !strings.Contains(err.Error(), names[inc]) {
					report("filter {%s}: FilterImage fails although every name exists: %v", desc, err)
				}
				continue
			}
			if _, err := protodesc.NewFiles(bufimage.ImageToFileDescriptorSet(out)); err != nil {
				report("filter {%s}: the filtered image no longer links: %v", desc, err)
				continue
			}
			have := vcNames(out)
			if exc >= 0 && have[names[exc]] {
				report("filter {%s}: excluded element %s is still present", desc, names[exc])
			}
			if inc >= 0 && !have[names[inc]] {
				report("filter {%s}: included element %s is missing", desc, names[inc])
			}
			if inc < 0 {
				// exclude-only: everything not depending on the excluded element must survive
				for _, n := range []string{"pkg.Svc.Do2"} {
					if names[exc] != "pkg.Req" && names[exc] != "pkg.Other" && names[exc] != "pkg.Svc" && !have[n] {
						report("filter {%s}: unrelated element %s was dropped", desc, n)
					}
				}
			}
		}
	}
	if found == 0 {
		fmt.Printf("VERIF-REPLAY no failing input found for %s (%d filters on the sample image)\n", os.Getenv("VERIF_REPLAY_FUNC"), tried)
	}
}
