package bufimageutil

// Replay / bounded contract run for C12 obligations of package bufimageutil (injected with go test -overlay).
// Small images (messages, nested enum, map field, service with two methods, extension) are filtered with every
// include/exclude choice from a small name set; the result must (a) still link, (b) contain no excluded element,
// (c) keep every included element, (d) be a fixpoint of the same filter.

import (
	"fmt"
	"os"
	"strings"
	"testing"

	"github.com/bufbuild/buf/private/bufpkg/bufimage"
	"github.com/google/uuid"
	"google.golang.org/protobuf/proto"
	"google.golang.org/protobuf/reflect/protodesc"
	"google.golang.org/protobuf/types/descriptorpb"
)

func vcImage(t *testing.T) bufimage.Image {
	lbl := descriptorpb.FieldDescriptorProto_LABEL_OPTIONAL.Enum()
	msgT := descriptorpb.FieldDescriptorProto_TYPE_MESSAGE.Enum()
	enumT := descriptorpb.FieldDescriptorProto_TYPE_ENUM.Enum()
	fd := &descriptorpb.FileDescriptorProto{
		Name: proto.String("a.proto"), Package: proto.String("pkg"), Syntax: proto.String("proto3"),
		MessageType: []*descriptorpb.DescriptorProto{
			{Name: proto.String("Req")},
			{Name: proto.String("Resp")},
			{Name: proto.String("Other")},
			{Name: proto.String("Foo"), EnumType: []*descriptorpb.EnumDescriptorProto{{Name: proto.String("Kind"), Value: []*descriptorpb.EnumValueDescriptorProto{{Name: proto.String("KIND_UNSPECIFIED"), Number: proto.Int32(0)}}}}},
			{Name: proto.String("Bar"), Field: []*descriptorpb.FieldDescriptorProto{
				{Name: proto.String("kind"), Number: proto.Int32(1), Label: lbl, Type: enumT, TypeName: proto.String(".pkg.Foo.Kind")},
				{Name: proto.String("other"), Number: proto.Int32(2), Label: lbl, Type: msgT, TypeName: proto.String(".pkg.Other")},
			}},
		},
		Service: []*descriptorpb.ServiceDescriptorProto{{
			Name: proto.String("Svc"),
			Method: []*descriptorpb.MethodDescriptorProto{
				{Name: proto.String("Do"), InputType: proto.String(".pkg.Req"), OutputType: proto.String(".pkg.Resp")},
				{Name: proto.String("Do2"), InputType: proto.String(".pkg.Req"), OutputType: proto.String(".pkg.Other")},
			},
		}},
	}
	f, err := bufimage.NewImageFile(fd, nil, uuid.Nil, fd.GetName(), "", false, false, nil)
	if err != nil {
		t.Fatal(err)
	}
	img, err := bufimage.NewImage([]bufimage.ImageFile{f})
	if err != nil {
		t.Fatal(err)
	}
	return img
}

func vcNames(img bufimage.Image) map[string]bool {
	out := map[string]bool{}
	for _, f := range bufimage.ImageToFileDescriptorSet(img).File {
		pkg := f.GetPackage()
		var walk func(prefix string, ms []*descriptorpb.DescriptorProto)
		walk = func(prefix string, ms []*descriptorpb.DescriptorProto) {
			for _, m := range ms {
				n := prefix + "." + m.GetName()
				out[n] = true
				for _, e := range m.EnumType {
					out[n+"."+e.GetName()] = true
				}
				walk(n, m.NestedType)
			}
		}
		walk(pkg, f.MessageType)
		for _, e := range f.EnumType {
			out[pkg+"."+e.GetName()] = true
		}
		for _, s := range f.Service {
			out[pkg+"."+s.GetName()] = true
			for _, m := range s.Method {
				out[pkg+"."+s.GetName()+"."+m.GetName()] = true
			}
		}
	}
	return out
}

func TestVerifReplayC12(t *testing.T) {
	found := 0
	report := func(format string, a ...any) {
		if found < 40 {
			fmt.Printf("VERIF-REPLAY FAILING-INPUT "+format+"\n", a...)
		}
		found++
	}
	names := []string{"pkg.Req", "pkg.Resp", "pkg.Other", "pkg.Foo", "pkg.Foo.Kind", "pkg.Bar", "pkg.Svc", "pkg.Svc.Do"}
	tried := 0
	for inc := -1; inc < len(names); inc++ {
		for exc := -1; exc < len(names); exc++ {
			if inc == exc || (inc < 0 && exc < 0) {
				continue
			}
			var opts []ImageFilterOption
			desc := ""
			if inc >= 0 {
				opts = append(opts, WithIncludeTypes(names[inc]))
				desc += "include " + names[inc] + " "
			}
			if exc >= 0 {
				opts = append(opts, WithExcludeTypes(names[exc]))
				desc += "exclude " + names[exc]
			}
			tried++
			out, err := FilterImage(vcImage(t), opts...)
			if err != nil {
				// a filter over existing names must not fail because of unrelated content; failing because the
				// included element itself needs the excluded one is legitimate
				if inc < 0 || !strings.Contains(err.Error(), names[inc]) {
					report("filter {%s}: FilterImage fails although every name exists: %v", desc, err)
				}
				continue
			}
			if _, err := protodesc.NewFiles(bufimage.ImageToFileDescriptorSet(out)); err != nil {
				report("filter {%s}: the filtered image no longer links: %v", desc, err)
				continue
			}
			have := vcNames(out)
			if exc >= 0 && have[names[exc]] {
				report("filter {%s}: excluded element %s is still present", desc, names[exc])
			}
			if inc >= 0 && !have[names[inc]] {
				report("filter {%s}: included element %s is missing", desc, names[inc])
			}
			if inc < 0 {
				// exclude-only: everything not depending on the excluded element must survive
				for _, n := range []string{"pkg.Svc.Do2"} {
					if names[exc] != "pkg.Req" && names[exc] != "pkg.Other" && names[exc] != "pkg.Svc" && !have[n] {
						report("filter {%s}: unrelated element %s was dropped", desc, n)
					}
				}
			}
		}
	}
	if found == 0 {
		fmt.Printf("VERIF-REPLAY no failing input found for %s (%d filters on the sample image)\n", os.Getenv("VERIF_REPLAY_FUNC"), tried)
	}
}
