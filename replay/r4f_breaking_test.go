package breaking

// Replay harness (ca-r4f) for the C20 obligations breaking.validateFlags / breaking.getExternalPathsForImages. Documented:
// exactly one of --against / --against-registry must be set; --limit-to-input-files hands on exactly the external paths of the
// files of the input images.

import (
	"fmt"
	"os"
	"sort"
	"strings"
	"testing"

	"github.com/bufbuild/buf/private/bufpkg/bufimage"
	"github.com/google/uuid"
	"google.golang.org/protobuf/types/descriptorpb"
)

func TestVerifReplayC20R4f(t *testing.T) {
	fn := os.Getenv("VERIF_REPLAY_FUNC")
	found, tried := 0, 0
	report := func(format string, a ...any) {
		if found < 4 {
			fmt.Printf("VERIF-REPLAY FAILING-INPUT "+format+"\n", a...)
		}
		found++
	}
	for _, against := range []string{"", ".git#branch=main"} {
		for _, registry := range []bool{false, true} {
			tried++
			err := validateFlags(&flags{Against: against, AgainstRegistry: registry})
			if want := (against != "") != registry; (err == nil) != want {
				report("validateFlags(--against=%q --against-registry=%v) = %v; documented: accepted exactly when one of the two is set", against, registry, err)
			}
		}
	}
	newImage := func(paths ...string) bufimage.Image {
		var files []bufimage.ImageFile
		for _, p := range paths {
			name := p
			file, err := bufimage.NewImageFile(&descriptorpb.FileDescriptorProto{Name: &name}, nil, uuid.Nil, "ext/"+p, "", false, false, nil)
			if err != nil {
				t.Fatal(err)
			}
			files = append(files, file)
		}
		image, err := bufimage.NewImage(files)
		if err != nil {
			t.Fatal(err)
		}
		return image
	}
	for _, images := range [][]bufimage.Image{nil, {newImage("a.proto")}, {newImage("a.proto", "b.proto"), newImage("c.proto")}, {newImage("a.proto"), newImage("a.proto", "d.proto")}} {
		tried++
		want := map[string]bool{}
		for _, image := range images {
			for _, f := range image.Files() {
				want[f.ExternalPath()] = true
			}
		}
		got, err := getExternalPathsForImages(images)
		sort.Strings(got)
		var wantList []string
		for p := range want {
			wantList = append(wantList, p)
		}
		sort.Strings(wantList)
		if err != nil || strings.Join(got, ",") != strings.Join(wantList, ",") {
			report("getExternalPathsForImages(%d images with the files %v) = %v, %v; documented: exactly the external paths of the files of the images", len(images), wantList, got, err)
		}
	}
	if found == 0 {
		fmt.Printf("VERIF-REPLAY no failing input found for %s (%d inputs)\n", fn, tried)
	}
}
