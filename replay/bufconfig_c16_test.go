package bufconfig

// Replay / bounded round-trip run for C16 obligations of package bufconfig (go test -overlay):
// read -> write -> read over a small catalogue of buf.yaml documents, comparing the configuration
// objects (modules with dir, includes, excludes; lint/breaking Disabled, ignore paths, use/except).

import (
	"bytes"
	"fmt"
	"os"
	"reflect"
	"sort"
	"strings"
	"testing"
)

func vrDescribeCheck(c CheckConfig) string {
	keys := make([]string, 0)
	for k, v := range c.IgnoreIDOrCategoryToPaths() {
		keys = append(keys, fmt.Sprintf("%s=%v", k, v))
	}
	sort.Strings(keys)
	return fmt.Sprintf("disabled=%v use=%v except=%v ignore=%v ignore_only=%v", c.Disabled(), c.UseIDsAndCategories(), c.ExceptIDsAndCategories(), c.IgnorePaths(), keys)
}

func vrDescribeLint(l LintConfig) string {
	return fmt.Sprintf("%s suffix=%q same=%v emptyReq=%v emptyResp=%v svc=%q commentIgnores=%v", vrDescribeCheck(l),
		l.EnumZeroValueSuffix(), l.RPCAllowSameRequestResponse(), l.RPCAllowGoogleProtobufEmptyRequests(), l.RPCAllowGoogleProtobufEmptyResponses(), l.ServiceSuffix(), l.AllowCommentIgnores())
}

func vrDescribe(f BufYAMLFile) []string {
	var out []string
	for _, m := range f.ModuleConfigs() {
		out = append(out, fmt.Sprintf("module dir=%s includes=%v excludes=%v lint{%s} breaking{%s unstable=%v}",
			m.DirPath(), m.RootToIncludes(), m.RootToExcludes(), vrDescribeLint(m.LintConfig()), vrDescribeCheck(m.BreakingConfig()), m.BreakingConfig().IgnoreUnstablePackages()))
	}
	return out
}

// vrLintOptionDocs: documents that set exactly one lint option, with the accessor that must report it.
func vrLintOptions() (found int) {
	type probe struct {
		key  string
		val  string
		read func(LintConfig) string
	}
	probes := []probe{
		{"enum_zero_value_suffix", "_NONE", func(l LintConfig) string { return l.EnumZeroValueSuffix() }},
		{"rpc_allow_same_request_response", "true", func(l LintConfig) string { return fmt.Sprint(l.RPCAllowSameRequestResponse()) }},
		{"rpc_allow_google_protobuf_empty_requests", "true", func(l LintConfig) string { return fmt.Sprint(l.RPCAllowGoogleProtobufEmptyRequests()) }},
		{"rpc_allow_google_protobuf_empty_responses", "true", func(l LintConfig) string { return fmt.Sprint(l.RPCAllowGoogleProtobufEmptyResponses()) }},
		{"service_suffix", "API", func(l LintConfig) string { return l.ServiceSuffix() }},
	}
	for _, version := range []string{"v1beta1", "v1", "v2"} {
		for _, pr := range probes {
			doc := fmt.Sprintf("version: %s\nlint:\n  %s: %s\n", version, pr.key, pr.val)
			f, err := ReadBufYAMLFile(strings.NewReader(doc), "buf.yaml")
			if err != nil || len(f.ModuleConfigs()) != 1 {
				continue
			}
			l := f.ModuleConfigs()[0].LintConfig()
			if got := pr.read(l); got != pr.val {
				fmt.Printf("VERIF-REPLAY FAILING-INPUT buf.yaml %q: the lint option %s reads back as %q (all options: %s)\n", doc, pr.key, got, vrDescribeLint(l))
				found++
			}
		}
	}
	return found
}

func TestVerifReplayC16(t *testing.T) {
	obl := os.Getenv("VERIF_REPLAY_OBLIGATION")
	docs := []string{
		"version: v2\nmodules:\n  - path: .\n    includes:\n      - foo\n",
		"version: v2\nmodules:\n  - path: .\n    excludes:\n      - foo\n",
		"version: v2\nmodules:\n  - path: .\n    includes:\n      - foo\n    excludes:\n      - foo/bar\n",
		"version: v2\nmodules:\n  - path: proto\n  - path: vendor\nlint:\n  ignore:\n    - vendor\n",
		"version: v2\nmodules:\n  - path: proto\n  - path: vendor\nbreaking:\n  ignore:\n    - vendor\n",
		"version: v2\nmodules:\n  - path: proto\n  - path: vendor\n    lint:\n      ignore:\n        - vendor\n",
		"version: v2\nlint:\n  ignore:\n    - .\n",
		"version: v1\nlint:\n  ignore:\n    - .\n",
		"version: v1\nbreaking:\n  ignore:\n    - .\n",
		"version: v1\nlint:\n  use:\n    - DEFAULT\n  ignore:\n    - a\n",
	}
	found := 0
	if strings.Contains(obl, "getLintConfigForExternalLint") {
		found += vrLintOptions()
	}
	for _, doc := range docs {
		want := ""
		switch {
		case strings.Contains(obl, "collapse-no-includes"):
			want = "includes"
		case strings.Contains(obl, "disabled-preserved"):
			want = "ignore"
		}
		if want != "" && !strings.Contains(doc, want) {
			continue
		}
		f1, err := ReadBufYAMLFile(strings.NewReader(doc), "buf.yaml")
		if err != nil {
			continue
		}
		var buf bytes.Buffer
		if err := WriteBufYAMLFile(&buf, f1); err != nil {
			continue
		}
		f2, err := ReadBufYAMLFile(bytes.NewReader(buf.Bytes()), "buf.yaml")
		if err != nil {
			fmt.Printf("VERIF-REPLAY FAILING-INPUT buf.yaml %q is written back as %q which does not read: %v\n", doc, buf.String(), err)
			found++
			continue
		}
		d1, d2 := vrDescribe(f1), vrDescribe(f2)
		if !reflect.DeepEqual(d1, d2) {
			if found < 4 {
				fmt.Printf("VERIF-REPLAY FAILING-INPUT buf.yaml %q read->write->read changes the configuration: before %v, written %q, after %v\n", doc, d1, buf.String(), d2)
			}
			found++
		}
	}
	if found == 0 {
		fmt.Printf("VERIF-REPLAY no failing round trip in the catalogue for %q\n", obl)
	}
}
