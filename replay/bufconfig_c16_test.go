package bufconfig

// Replay / bounded round-trip run for C16 obligations of package bufconfig (go test -overlay):
// read -> write -> read over a small catalogue of buf.yaml documents, comparing the configuration
// objects (modules with dir, includes, excludes; lint/breaking Disabled, ignore paths, use/except).

import (
	"bytes"
	"context"
	"fmt"
	"os"
	"reflect"
	"sort"
	"strings"
	"testing"
)

func vrDescribeCheck(c CheckConfig) string {
	keys := make([]string, 0)
	for k, v := range c.IgnoreIDOrCategoryToPaths() {
		keys = append(keys, fmt.Sprintf("%s=%v", k, v))
	}
	sort.Strings(keys)
	return fmt.Sprintf("disabled=%v use=%v except=%v ignore=%v ignore_only=%v", c.Disabled(), c.UseIDsAndCategories(), c.ExceptIDsAndCategories(), c.IgnorePaths(), keys)
}

func vrDescribeLint(l LintConfig) string {
	return fmt.Sprintf("%s suffix=%q same=%v emptyReq=%v emptyResp=%v svc=%q commentIgnores=%v", vrDescribeCheck(l),
		l.EnumZeroValueSuffix(), l.RPCAllowSameRequestResponse(), l.RPCAllowGoogleProtobufEmptyRequests(), l.RPCAllowGoogleProtobufEmptyResponses(), l.ServiceSuffix(), l.AllowCommentIgnores())
}

func vrDescribe(f BufYAMLFile) []string {
	var out []string
	for _, m := range f.ModuleConfigs() {
		out = append(out, fmt.Sprintf("module dir=%s includes=%v excludes=%v lint{%s} breaking{%s unstable=%v}",
			m.DirPath(), m.RootToIncludes(), m.RootToExcludes(), vrDescribeLint(m.LintConfig()), vrDescribeCheck(m.BreakingConfig()), m.BreakingConfig().IgnoreUnstablePackages()))
	}
	return out
}

// vrLintOptionDocs: documents that set exactly one lint option, with the accessor that must report it.
func vrLintOptions() (found int) {
	type probe struct {
		key  string
		val  string
		read func(LintConfig) string
	}
	probes := []probe{
		{"enum_zero_value_suffix", "_NONE", func(l LintConfig) string { return l.EnumZeroValueSuffix() }},
		{"rpc_allow_same_request_response", "true", func(l LintConfig) string { return fmt.Sprint(l.RPCAllowSameRequestResponse()) }},
		{"rpc_allow_google_protobuf_empty_requests", "true", func(l LintConfig) string { return fmt.Sprint(l.RPCAllowGoogleProtobufEmptyRequests()) }},
		{"rpc_allow_google_protobuf_empty_responses", "true", func(l LintConfig) string { return fmt.Sprint(l.RPCAllowGoogleProtobufEmptyResponses()) }},
		{"service_suffix", "API", func(l LintConfig) string { return l.ServiceSuffix() }},
	}
	for _, version := range []string{"v1beta1", "v1", "v2"} {
		for _, pr := range probes {
			doc := fmt.Sprintf("version: %s\nlint:\n  %s: %s\n", version, pr.key, pr.val)
			f, err := ReadBufYAMLFile(strings.NewReader(doc), "buf.yaml")
			if err != nil || len(f.ModuleConfigs()) != 1 {
				continue
			}
			l := f.ModuleConfigs()[0].LintConfig()
			if got := pr.read(l); got != pr.val {
				fmt.Printf("VERIF-REPLAY FAILING-INPUT buf.yaml %q: the lint option %s reads back as %q (all options: %s)\n", doc, pr.key, got, vrDescribeLint(l))
				found++
			}
		}
	}
	return found
}

// ---- buf.gen.yaml / buf.lock / buf.work.yaml (contract author ca-Z): read -> write -> read over a catalogue per
// file kind, comparing every accessor of the configuration objects.

func vrDescribeGen(f BufGenYAMLFile) string {
	var b strings.Builder
	g := f.GenerateConfig()
	fmt.Fprintf(&b, "clean=%v", g.CleanPluginOuts())
	for _, p := range g.GeneratePluginConfigs() {
		fmt.Fprintf(&b, " plugin{type=%v name=%s out=%s opt=%s imports=%v wkt=%v types=%v exclude_types=%v strategy=%v path=%v protoc_path=%v revision=%d}", p.Type(), p.Name(), p.Out(), p.Opt(), p.IncludeImports(), p.IncludeWKT(), p.IncludeTypes(), p.ExcludeTypes(), p.Strategy(), p.Path(), p.ProtocPath(), p.Revision())
	}
	if m := g.GenerateManagedConfig(); m != nil {
		fmt.Fprintf(&b, " managed{enabled=%v", m.Enabled())
		for _, d := range m.Disables() {
			fmt.Fprintf(&b, " disable{path=%s module=%s field=%s file_option=%v field_option=%v}", d.Path(), d.FullName(), d.FieldName(), d.FileOption(), d.FieldOption())
		}
		for _, o := range m.Overrides() {
			fmt.Fprintf(&b, " override{path=%s module=%s field=%s file_option=%v field_option=%v value=%v}", o.Path(), o.FullName(), o.FieldName(), o.FileOption(), o.FieldOption(), o.Value())
		}
		b.WriteString("}")
	}
	for _, i := range f.InputConfigs() {
		depth := "nil"
		if i.Depth() != nil {
			depth = fmt.Sprint(*i.Depth())
		}
		fmt.Fprintf(&b, " input{type=%v location=%s compression=%s strip_components=%d subdir=%s branch=%s commit_or_tag=%s ref=%s depth=%s recurse_submodules=%v include_package_files=%v types=%v exclude_types=%v paths=%v exclude_paths=%v}", i.Type(), i.Location(), i.Compression(), i.StripComponents(), i.SubDir(), i.Branch(), i.CommitOrTag(), i.Ref(), depth, i.RecurseSubmodules(), i.IncludePackageFiles(), i.IncludeTypes(), i.ExcludeTypes(), i.TargetPaths(), i.ExcludePaths())
	}
	return b.String()
}

// vrGenDocs: v2 generation templates (the writer always writes the v2 shape, so only v2 documents can round-trip
// to the same configuration; a v1 template is translated, which the property does not call a round trip).
func vrGenDocs() []string {
	return []string{
		"version: v2\nplugins:\n  - local: protoc-gen-go\n    out: gen\n    types:\n      - a.B\n",
		"version: v2\nplugins:\n  - local: protoc-gen-go\n    out: gen\n    exclude_types:\n      - a.B\n",
		"version: v2\nplugins:\n  - local: p\n    out: gen\ninputs:\n  - directory: proto\n    exclude_types:\n      - a.B\n",
		"version: v2\nplugins:\n  - remote: buf.build/protocolbuffers/go\n    out: gen\n    revision: 2\n    opt:\n      - a=b\n      - c\n    include_imports: true\n    include_wkt: true\n",
		"version: v2\nplugins:\n  - protoc_builtin: java\n    out: gen\n    protoc_path: /usr/bin/protoc\n    strategy: all\n",
		"version: v2\nplugins:\n  - local: [go, run, x]\n    out: gen\n    strategy: directory\n    opt: a=b\n",
		"version: v2\nplugins:\n  - local: p\n    out: gen\ninputs:\n  - git_repo: github.com/a/b\n    tag: v1\n    depth: 3\n    subdir: x\n    types: [a.B]\n    paths: [p]\n    exclude_paths: [q]\n  - tarball: a.tar.gz\n    compression: gzip\n    strip_components: 2\n  - proto_file: a.proto\n    include_package_files: true\n  - module: buf.build/a/b\n",
		"version: v2\nclean: true\nplugins:\n  - local: p\n    out: gen\nmanaged:\n  enabled: true\n  disable:\n    - file_option: java_package\n    - path: a\n      field_option: jstype\n    - module: buf.build/a/b\n  override:\n    - file_option: java_package_prefix\n      value: com\n    - file_option: optimize_for\n      module: buf.build/a/b\n      value: SPEED\n    - field_option: jstype\n      field: a.B.c\n      value: JS_STRING\n",
	}
}

func vrGenRoundTrips() (found int) {
	for _, doc := range vrGenDocs() {
		f1, err := ReadBufGenYAMLFile(strings.NewReader(doc))
		if err != nil {
			continue
		}
		var buf bytes.Buffer
		if err := WriteBufGenYAMLFile(&buf, f1); err != nil {
			continue
		}
		f2, err := ReadBufGenYAMLFile(bytes.NewReader(buf.Bytes()))
		if err != nil {
			fmt.Printf("VERIF-REPLAY FAILING-INPUT buf.gen.yaml %q is written back as %q which does not read: %v\n", doc, buf.String(), err)
			found++
			continue
		}
		if d1, d2 := vrDescribeGen(f1), vrDescribeGen(f2); d1 != d2 {
			fmt.Printf("VERIF-REPLAY FAILING-INPUT buf.gen.yaml %q read->write->read changes the configuration: before %s, written %q, after %s\n", doc, d1, buf.String(), d2)
			found++
		}
	}
	return found
}

func vrDescribeLock(f BufLockFile) string {
	var b strings.Builder
	fmt.Fprintf(&b, "version=%v", f.FileVersion())
	for _, k := range f.DepModuleKeys() {
		d, err := k.Digest()
		fmt.Fprintf(&b, " dep{name=%s commit=%v digest=%v err=%v}", k.FullName().String(), k.CommitID(), d, err)
	}
	for _, k := range f.RemotePluginKeys() {
		d, err := k.Digest()
		fmt.Fprintf(&b, " plugin{name=%s commit=%v digest=%v err=%v}", k.FullName().String(), k.CommitID(), d, err)
	}
	return b.String()
}

func vrLockRoundTrips() (found int) {
	docs := []string{
		"version: v2\ndeps:\n  - name: buf.testing/acme/extension\n    commit: b8488077ea6d4f6d9562a337b98259c8\n    digest: b5:d2c1da8f8331c5c75b50549c79fc360394dedfb6a11f5381c4523592018964119f561088fc8aaddfc9f5773ba02692e6fd9661853450f76a3355dec62c1f57b4\n  - name: buf.testing/acme/date\n    commit: ffded0b4cf6b47cab74da08d291a3c2f\n    digest: b5:24ed4f13925cf89ea0ae0127fa28540704c7ae14750af027270221b737a1ce658f8014ca2555f6f7fcd95ea84e071d33f37f86cc36d07fe0d0963329a5ec2462\n",
		"version: v1\ndeps:\n  - remote: buf.testing\n    owner: acme\n    repository: extension\n    commit: b8488077ea6d4f6d9562a337b98259c8\n    digest: shake256:6892463bdaa65fd9944c39cbc8398d3154bf54c6725c1e8096d28de25ad83b0200fccc8da0d96979171b905342b9553b7d4db15cbe243a708f472e43926affc0\n  - remote: buf.testing\n    owner: acme\n    repository: date\n    commit: ffded0b4cf6b47cab74da08d291a3c2f\n    digest: shake256:0d698ce17cbe2d0f4e927005e03822423747d759ba7948c53e89baa1303a9e6d090594ba8ba7bc7d83ac57bb4346426f186846dd610562663e83f095b5bf6c00\n",
		"version: v1beta1\ndeps:\n  - remote: buf.testing\n    owner: acme\n    repository: date\n    commit: ffded0b4cf6b47cab74da08d291a3c2f\n    digest: shake256:0d698ce17cbe2d0f4e927005e03822423747d759ba7948c53e89baa1303a9e6d090594ba8ba7bc7d83ac57bb4346426f186846dd610562663e83f095b5bf6c00\n",
		"version: v2\n",
	}
	ctx := context.Background()
	for _, doc := range docs {
		f1, err := ReadBufLockFile(ctx, strings.NewReader(doc), "buf.lock")
		if err != nil {
			continue
		}
		var buf bytes.Buffer
		if err := WriteBufLockFile(&buf, f1); err != nil {
			continue
		}
		f2, err := ReadBufLockFile(ctx, bytes.NewReader(buf.Bytes()), "buf.lock")
		if err != nil {
			fmt.Printf("VERIF-REPLAY FAILING-INPUT buf.lock %q is written back as %q which does not read: %v\n", doc, buf.String(), err)
			found++
			continue
		}
		var buf2 bytes.Buffer
		_ = WriteBufLockFile(&buf2, f2)
		if d1, d2 := vrDescribeLock(f1), vrDescribeLock(f2); d1 != d2 || buf.String() != buf2.String() {
			fmt.Printf("VERIF-REPLAY FAILING-INPUT buf.lock %q read->write->read changes the configuration or the second write differs: before %s, written %q, after %s, written again %q\n", doc, d1, buf.String(), d2, buf2.String())
			found++
		}
	}
	return found
}

func vrWorkRoundTrips() (found int) {
	docs := []string{
		"version: v1\ndirectories:\n  - proto\n  - vendor/x\n",
		"version: v1\ndirectories:\n  - ./b/\n  - a//c\n",
		"version: v1\ndirectories:\n  - z\n  - a\n  - m/n\n",
	}
	for _, doc := range docs {
		f1, err := ReadBufWorkYAMLFile(strings.NewReader(doc), "buf.work.yaml")
		if err != nil {
			continue
		}
		var buf bytes.Buffer
		if err := WriteBufWorkYAMLFile(&buf, f1); err != nil {
			continue
		}
		f2, err := ReadBufWorkYAMLFile(bytes.NewReader(buf.Bytes()), "buf.work.yaml")
		if err != nil {
			fmt.Printf("VERIF-REPLAY FAILING-INPUT buf.work.yaml %q is written back as %q which does not read: %v\n", doc, buf.String(), err)
			found++
			continue
		}
		var buf2 bytes.Buffer
		_ = WriteBufWorkYAMLFile(&buf2, f2)
		if !reflect.DeepEqual(f1.DirPaths(), f2.DirPaths()) || buf.String() != buf2.String() {
			fmt.Printf("VERIF-REPLAY FAILING-INPUT buf.work.yaml %q read->write->read changes the directories or the second write differs: before %v, written %q, after %v, written again %q\n", doc, f1.DirPaths(), buf.String(), f2.DirPaths(), buf2.String())
			found++
		}
	}
	return found
}

func TestVerifReplayC16(t *testing.T) {
	obl := os.Getenv("VERIF_REPLAY_OBLIGATION")
	docs := []string{
		"version: v2\nmodules:\n  - path: .\n    includes:\n      - foo\n",
		"version: v2\nmodules:\n  - path: .\n    excludes:\n      - foo\n",
		"version: v2\nmodules:\n  - path: .\n    includes:\n      - foo\n    excludes:\n      - foo/bar\n",
		"version: v2\nmodules:\n  - path: proto\n  - path: vendor\nlint:\n  ignore:\n    - vendor\n",
		"version: v2\nmodules:\n  - path: proto\n  - path: vendor\nbreaking:\n  ignore:\n    - vendor\n",
		"version: v2\nmodules:\n  - path: proto\n  - path: vendor\n    lint:\n      ignore:\n        - vendor\n",
		"version: v2\nlint:\n  ignore:\n    - .\n",
		"version: v1\nlint:\n  ignore:\n    - .\n",
		"version: v1\nbreaking:\n  ignore:\n    - .\n",
		"version: v1\nlint:\n  use:\n    - DEFAULT\n  ignore:\n    - a\n",
		// module part (ca-Z): names, deps, roots, includes and excludes
		"version: v1beta1\nname: buf.build/acme/x\ndeps:\n  - buf.build/acme/z\n  - buf.build/acme/a:main\nbuild:\n  roots:\n    - proto\n    - vendor\n  excludes:\n    - proto/a/b\n    - vendor/c\n",
		"version: v1\nname: buf.build/acme/x\ndeps:\n  - buf.build/acme/z\nbuild:\n  excludes:\n    - a/b\n    - c\n",
		"version: v2\nmodules:\n  - path: proto\n    name: buf.build/acme/x\n    includes:\n      - proto/a\n      - proto/b\n    excludes:\n      - proto/a/x\n  - path: vendor\n    excludes:\n      - vendor/y\ndeps:\n  - buf.build/acme/z\n  - buf.build/acme/a:v1\n",
		"version: v2\nname: buf.build/acme/x\ndeps:\n  - buf.build/acme/z\n",
	}
	found := 0
	if strings.Contains(obl, "getLintConfigForExternalLint") {
		found += vrLintOptions()
	}
	// the other file kinds: each has its own catalogue (the buf.yaml catalogue below says nothing about them)
	otherKind := false
	switch {
	case strings.Contains(obl, "GeneratePluginConfig") || strings.Contains(obl, "BufGenYAML") || strings.Contains(obl, "InputConfig") || strings.Contains(obl, "ManagedConfig") || strings.Contains(obl, "GenerateConfig"):
		found += vrGenRoundTrips()
		otherKind = true
	case strings.Contains(obl, "BufLockFile"):
		found += vrLockRoundTrips()
		otherKind = true
	case strings.Contains(obl, "BufWorkYAML"):
		found += vrWorkRoundTrips()
		otherKind = true
	}
	if otherKind {
		docs = nil
	}
	for _, doc := range docs {
		want := ""
		switch {
		case strings.Contains(obl, "collapse-no-includes"):
			want = "includes"
		case strings.Contains(obl, "disabled-preserved"):
			want = "ignore"
		}
		if want != "" && !strings.Contains(doc, want) {
			continue
		}
		f1, err := ReadBufYAMLFile(strings.NewReader(doc), "buf.yaml")
		if err != nil {
			continue
		}
		var buf bytes.Buffer
		if err := WriteBufYAMLFile(&buf, f1); err != nil {
			continue
		}
		f2, err := ReadBufYAMLFile(bytes.NewReader(buf.Bytes()), "buf.yaml")
		if err != nil {
			fmt.Printf("VERIF-REPLAY FAILING-INPUT buf.yaml %q is written back as %q which does not read: %v\n", doc, buf.String(), err)
			found++
			continue
		}
		d1, d2 := vrDescribe(f1), vrDescribe(f2)
		if !reflect.DeepEqual(d1, d2) {
			if found < 4 {
				fmt.Printf("VERIF-REPLAY FAILING-INPUT buf.yaml %q read->write->read changes the configuration: before %v, written %q, after %v\n", doc, d1, buf.String(), d2)
			}
			found++
		}
	}
	if found == 0 {
		fmt.Printf("VERIF-REPLAY no failing round trip in the catalogue for %q\n", obl)
	}
}
