#!/usr/bin/env python3
"""mkmutant.py <kind:mutants|benign> <Cxx__name> <expected-obligation or -> <repo-relative file> <old> <new>
Creates selftest/<kind>/<name>.diff from a textual replacement, without touching /repo."""
import sys, difflib, os
kind, name, expect, rel, old, new = sys.argv[1:7]
src = open(os.path.join("/repo", rel)).read()
assert src.count(old) == 1, "old text must occur exactly once (found %d)" % src.count(old)
mut = src.replace(old, new)
d = "".join(difflib.unified_diff(src.splitlines(True), mut.splitlines(True), "a/" + rel, "b/" + rel))
hdr = ("# expect: %s\n" % expect) if expect != "-" else ""
open(os.path.join("/verif/selftest", kind, name + ".diff"), "w").write(hdr + "diff --git a/%s b/%s\n" % (rel, rel) + d)
print("wrote", name)
