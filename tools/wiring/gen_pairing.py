#!/usr/bin/env python3
# generator of the BREAKING part of zz_verif_contracts_pairing.go (working tool of ca-Y, not part of the deliverable)
import sys
U='/repo/private/bufpkg/bufcheck/bufcheckserver/internal/bufcheckserverutil/'
hdr = open(U+'zz_verif_contracts.go').read().split('//go:build verif')[0]
MOD = "//@   modifies heap, ghost.cbCalls, ghost.cbArgs, ghost.cbArg0, ghost.cbArg1, ghost.cbArg2, ghost.cbArg3, ghost.fail, ghost.wfail\n"
HEAD = "//@   property C03 C04\n//@   callback pure f counted\n" + MOD + "//@   ensures r != nil\n"
Q = "forall c context.Context, w ResponseWriter, q Request :: "
out = hdr + '''//go:build verif

package bufcheckserverutil

// Contracts for the gocv verifier (see /verif/DESIGN.md). Comment-only. Author: ca-Y (prefix y_, spec file
// /verif/specs/C03_wiring.spec).
//
// THE PAIRING LAYER (C03, C04). Every breaking rule that compares an element with its previous version is
// `NewBreaking<Kind>PairRuleHandler(handleBreaking<Rule>)`. The handler contracts (bufcheckserverhandle) say what
// handle<Rule> does on ONE (current, previous) pair; the contracts below say on WHICH pairs it is run:
//
//   every element of the PREVIOUS files that has a counterpart in the CURRENT files -- matched by file path, by full
//   name (messages, enums, services), by method name within matched services, by field number within matched
//   messages, by (extendee, number) for extensions, by enum value number within matched enums -- is handed to f
//   together with exactly that counterpart, in the order (responseWriter, request, current, previous); elements
//   without counterpart are skipped (the *_NO_DELETE rules report those); an error of f aborts with that error.
//
// f is modelled as a deterministic function (`callback pure`): `f(w, q, c, p) == nil` can only be known for a
// tuple on which the code actually called f and saw nil; `counted` additionally records every call through f in
// ghost.cbArg<position> (opt-in via ghost.cbCalls in `modifies`; that list describes the closure, which runs later --
// the constructor itself has no effect and is `pure`: the handler is a function of f alone, which is what the table
// obligations `Handle<Rule> == New<Kind>RuleHandler(handle<Rule>)` of /verif/specs/C03_wiring.spec rest on). Two levels:
//   closure N ensures ...   the function literal that does the iteration, verified as a function of its own (arbitrary
//                           responseWriter / request, arbitrary later heap):
//       all-pairs {C03}            err == nil ==> f(responseWriter, request, cur, prev) == nil for EVERY matched pair
//       matched-by-... {C03}       the same stated on the element lists (where the index function has a verified contract)
//       only-matched-... {C04}     every element handed to f (position 2: current, position 3: previous) belongs to a
//                                  matched pair: nothing else is visited (enum values are passed as maps: not recorded)
//       error-origin {C03 C04}     err != nil ==> err is the error of an index function or f's error on a MATCHED pair
//       index-errors-reported      an index function failed ==> err != nil
//   ensures handler-...     the returned check.RuleHandler r: y_run(r, c, w, q) is the error r returns when run (defined
//                           by NewRuleHandler's contract, zz_verif_contracts.go): r returns nil ==> f returned nil on
//                           every matched pair of q's files. For the composed constructors (methods = services o
//                           methods-of-a-service, enum values = enums o values-of-an-enum, every lint constructor =
//                           non-import files o ...) this is the composition of the iterations, proved from the callee's
//                           handler-level clause and the verified clauses of the literal handed to it.
'''
def cur(idx, q="request"): return "first(bufprotosource.%s(%s.ProtosourceFiles()))" % (idx, q)
def prev(idx, q="request"): return "first(bufprotosource.%s(%s.AgainstProtosourceFiles()))" % (idx, q)
def ecur(idx, q="request"): return "second(bufprotosource.%s(%s.ProtosourceFiles()))" % (idx, q)
def eprev(idx, q="request"): return "second(bufprotosource.%s(%s.AgainstProtosourceFiles()))" % (idx, q)

def simple(kind, idx, curv, prevv, what, extra_post="", extra_inv=""):
    s = "//\n// %s\n//@ pure func NewBreaking%sPairRuleHandler(f) (r)\n" % (what, kind) + HEAD
    s += "//@   ensures handler-runs-f-on-all-pairs {C03}: " + Q + "y_run(r, c, w, q) == nil ==> (forall k string :: k in %s && k in %s ==> f(w, q, %s[k], %s[k]) == nil)\n" % (prev(idx,"q"), cur(idx,"q"), cur(idx,"q"), prev(idx,"q"))
    s += "//@   ensures handler-error-origin {C03 C04}: " + Q + "y_run(r, c, w, q) != nil ==> y_run(r, c, w, q) == %s || y_run(r, c, w, q) == %s || (exists k string :: k in %s && k in %s && y_run(r, c, w, q) == f(w, q, %s[k], %s[k]))\n" % (ecur(idx,"q"), eprev(idx,"q"), prev(idx,"q"), cur(idx,"q"), cur(idx,"q"), prev(idx,"q"))
    s += "//@   closure 0 ensures all-pairs {C03}: err == nil ==> (forall k string :: k in %s && k in %s ==> f(responseWriter, request, %s[k], %s[k]) == nil)\n" % (prev(idx), cur(idx), cur(idx), prev(idx))
    s += extra_post
    s += "//@   closure 0 ensures error-origin {C03 C04}: err != nil ==> err == %s || err == %s || (exists k string :: k in %s && k in %s && err == f(responseWriter, request, %s[k], %s[k]))\n" % (ecur(idx), eprev(idx), prev(idx), cur(idx), cur(idx), prev(idx))
    s += "//@   closure 0 ensures index-errors-reported {C03}: %s != nil || %s != nil ==> err != nil\n" % (ecur(idx), eprev(idx))
    s += "//@   loop 0 invariant %s == %s && %s == %s\n" % (curv, cur(idx), prevv, prev(idx))
    s += "//@   loop 0 invariant %s == nil && %s == nil\n" % (ecur(idx), eprev(idx))
    s += "//@   loop 0 invariant forall k string :: k in $visited && k in %s ==> f(responseWriter, request, %s[k], %s[k]) == nil\n" % (curv, curv, prevv)
    s += "//@   closure 0 ensures only-matched-current {C04}: forall x ref :: x in ghost.cbArg2 && !(x in old(ghost.cbArg2)) ==> (exists k string :: k in %s && k in %s && x == %s[k])\n" % (prev(idx), cur(idx), cur(idx))
    s += "//@   closure 0 ensures only-matched-previous {C04}: forall x ref :: x in ghost.cbArg3 && !(x in old(ghost.cbArg3)) ==> (exists k string :: k in %s && k in %s && x == %s[k])\n" % (prev(idx), cur(idx), prev(idx))
    s += "//@   loop 0 invariant forall x ref :: x in ghost.cbArg2 && !(x in old(ghost.cbArg2)) ==> (exists k string :: k in %s && k in %s && x == %s[k])\n" % (prevv, curv, curv)
    s += "//@   loop 0 invariant forall x ref :: x in ghost.cbArg3 && !(x in old(ghost.cbArg3)) ==> (exists k string :: k in %s && k in %s && x == %s[k])\n" % (prevv, curv, prevv)
    return s

out += simple("File", "FilePathToFile", "filePathToFile", "previousFilePathToFile", "Files: matched by PATH.",
  extra_post="//@   closure 0 ensures matched-by-path {C03}: err == nil ==> (forall i int, j int :: 0 <= i && i < len(request.AgainstProtosourceFiles()) && 0 <= j && j < len(request.ProtosourceFiles()) && request.AgainstProtosourceFiles()[i].Path() == request.ProtosourceFiles()[j].Path() ==> f(responseWriter, request, request.ProtosourceFiles()[j], request.AgainstProtosourceFiles()[i]) == nil)\n")
out += simple("Enum", "FullNameToEnum", "fullNameToEnum", "previousFullNameToEnum", "Enums (nested ones included): matched by FULL NAME (bufprotosource.FullNameToEnum, trusted index).")
out += simple("Message", "FullNameToMessage", "fullNameToMessage", "previousFullNameToMessage", "Messages (nested ones included): matched by FULL NAME (bufprotosource.FullNameToMessage, trusted index).")
out += simple("Service", "FullNameToService", "fullNameToService", "previousFullNameToService", "Services: matched by FULL NAME (bufprotosource.FullNameToService, trusted index).")
out += open('/tmp/ca/Y/pairing_rest.txt').read()
out += open('/tmp/ca/Y/lint_part.txt').read()
open(U+'zz_verif_contracts_pairing.go','w').write(out)
