#!/usr/bin/env python3
# generator of the table contracts (working tool of ca-Y; the generated files are the deliverable).
# Expected values are written down HERE from buf's documentation (rule ID <-> Go identifier by the fixed naming scheme,
# categories per rule as published at buf.build/docs/breaking/rules and buf.build/docs/lint/rules); the script only
# reads the source to find WHERE (which variable / list position) each rule is declared.
import json,re,sys
specs=json.load(open('/tmp/ca/Y/specs.json')); builders=json.load(open('/tmp/ca/Y/builders.json'))
b={d['var']:d for d in builders}
R='/repo/private/bufpkg/bufcheck/bufcheckserver/'
hdr=open(R+'bufcheckserver.go').read().split('package bufcheckserver')[0]

# ---------- 1. bufcheckserverbuild ----------
out=hdr+'''//go:build verif

package bufcheckserverbuild

// Contracts for the gocv verifier (see /verif/DESIGN.md). Comment-only. Author: ca-Y (spec file
// /verif/specs/C03_wiring.spec). GENERATED from the rule list of buf's documentation, see the note in the spec file.
//
// THE RULE SPEC BUILDERS (C03, C04 breaking; C05 lint). One table obligation set per builder variable: the builder
// carries ITS OWN rule ID and is wired to the handler OF THE SAME NAME (rule ID in UPPER_SNAKE_CASE <-> Go identifier
// Handle{Breaking,Lint}<UpperCamelCase>), has the documented rule type, and is deprecated exactly when documented so
// (deprecated rules have a no-op handler and name their replacements).
'''
ncl=0
for d in builders:
    kind='Breaking' if d['type']=='RuleTypeBreaking' else 'Lint'
    props='{C03 C04}' if kind=='Breaking' else '{C05}'
    v=d['var']
    out+='//@ table y_b_%s_%s %s of %s\n' % (kind.lower(), d['id'], props, v)
    out+='//@   ensures own-id: %s.ID == "%s"\n' % (v, d['id'])
    if d['handler']:
        out+='//@   ensures own-handler: %s.Handler == %s\n' % (v, d['handler'])
        out+='//@   ensures not-deprecated: !%s.Deprecated\n' % v
    else:
        out+='//@   ensures deprecated: %s.Deprecated && %s.Handler != nil\n' % (v, v)
        out+='//@   ensures replacements: len(%s.ReplacementIDs) == %d%s\n' % (v, len(d['repl']), ''.join(' && %s.ReplacementIDs[%d] == "%s"' % (v,i,r) for i,r in enumerate(d['repl'])))
    out+='//@   ensures rule-type: %s.Type == check.%s\n' % (v, d['type'])
    ncl+=4 if d['handler'] else 4
# category specs
src=open(R+'internal/bufcheckserverbuild/bufcheckserverbuild.go').read()
cats=re.findall(r'\n\t(\w+CategorySpec) = &check\.CategorySpec\{\n\t\tID:\s+"(\w+)"',src)
out+='//\n// THE CATEGORY SPECS (C04 breaking categories, C06 lint categories): each variable carries the category ID of its name.\n'
for v,cid in cats:
    props='{C04}' if cid in ('FILE','PACKAGE','WIRE','WIRE_JSON') else '{C06}'
    out+='//@ table y_c_%s %s of %s\n//@   ensures own-id: %s.ID == "%s"\n' % (cid, props, v, v, cid)
open(R+'internal/bufcheckserverbuild/zz_verif_contracts.go','w').write(out)
catvar={v:cid for v,cid in cats}

# ---------- 2. bufcheckserver ----------
COVER = {  # laxer rule -> (stricter category in which it must be covered, covering rules (ALL must be in that category), justification)
 'FIELD_WIRE_COMPATIBLE_CARDINALITY': ('WIRE_JSON', ['FIELD_WIRE_JSON_COMPATIBLE_CARDINALITY'], 'lemma a_hier-cardinality'),
 'FIELD_WIRE_COMPATIBLE_TYPE': ('WIRE_JSON', ['FIELD_WIRE_JSON_COMPATIBLE_TYPE'], 'lemma a_hier-type-wire-wirejson'),
 'ENUM_VALUE_NO_DELETE_UNLESS_NAME_RESERVED': ('PACKAGE', ['ENUM_VALUE_NO_DELETE'], 'lemma b_hier-enumvalue-nodelete'),
 'ENUM_VALUE_NO_DELETE_UNLESS_NUMBER_RESERVED': ('PACKAGE', ['ENUM_VALUE_NO_DELETE'], 'lemma b_hier-enumvalue-nodelete'),
 'FIELD_NO_DELETE_UNLESS_NAME_RESERVED': ('PACKAGE', ['FIELD_NO_DELETE'], 'lemma b_hier-field-nodelete'),
 'FIELD_NO_DELETE_UNLESS_NUMBER_RESERVED': ('PACKAGE', ['FIELD_NO_DELETE'], 'lemma b_hier-field-nodelete'),
 'FIELD_WIRE_JSON_COMPATIBLE_CARDINALITY': ('PACKAGE', ['FIELD_SAME_CARDINALITY'], 'lemma a_hier-cardinality'),
 'FIELD_WIRE_JSON_COMPATIBLE_TYPE': ('PACKAGE', ['FIELD_SAME_TYPE'], 'lemma a_hier-type-wirejson-same'),
 'PACKAGE_ENUM_NO_DELETE': ('FILE', ['ENUM_NO_DELETE','FILE_NO_DELETE','FILE_SAME_PACKAGE'], 'documentation only'),
 'PACKAGE_MESSAGE_NO_DELETE': ('FILE', ['MESSAGE_NO_DELETE','FILE_NO_DELETE','FILE_SAME_PACKAGE'], 'documentation only'),
 'PACKAGE_SERVICE_NO_DELETE': ('FILE', ['SERVICE_NO_DELETE','FILE_NO_DELETE','FILE_SAME_PACKAGE'], 'documentation only'),
 'PACKAGE_EXTENSION_NO_DELETE': ('FILE', ['EXTENSION_NO_DELETE','FILE_NO_DELETE','FILE_SAME_PACKAGE'], 'documentation only'),
 'PACKAGE_NO_DELETE': ('FILE', ['FILE_NO_DELETE','FILE_SAME_PACKAGE'], 'lemma y_hier-package-nodelete'),
}
out=hdr+'''//go:build verif

package bufcheckserver

// Contracts for the gocv verifier (see /verif/DESIGN.md). Comment-only. Author: ca-Y (spec file
// /verif/specs/C03_wiring.spec). GENERATED, see the note in the spec file.
//
// THE RULE SETS OF THE THREE CONFIGURATION VERSIONS (v1beta1, v1, v2). Per version one table over the check.Spec literal:
//   <RULE_ID>            the rule is built from its own builder (ID and handler are the builder's, see the y_b_* tables
//                        of bufcheckserverbuild) with exactly the documented categories and default flag
//   rule-count           nothing else is in the list
//   {C04} wire-within-wirejson / wirejson-within-package / package-within-file: every rule of the laxer category is a
//                        rule of the stricter category too, or is COVERED there: a stricter rule (or all rules of a set)
//                        of the stricter category reports whenever it does (the cover relation is written out per rule
//                        below, with the lemma of C03_pairs.spec / C03_nodelete.spec that justifies it; the PACKAGE_*
//                        covers are the documented relation only). Hence clean under FILE ==> clean under PACKAGE ==>
//                        clean under WIRE_JSON ==> clean under WIRE.
//   {C06} minimal-within-basic / basic-within-standard / default-is-standard: the lint categories are nested as
//                        documented (DEFAULT is the former name of STANDARD)
//   categories           the category specs declared for the version
'''
def sl(expr, vals):
    return 'len(%s) == %d' % (expr, len(vals)) + ''.join(' && %s[%d] == "%s"' % (expr,i,x) for i,x in enumerate(vals))
for v,sp in specs.items():
    tn={'V1Beta1Spec':'y_v1beta1','V1Spec':'y_v1','V2Spec':'y_v2'}[v]
    N=len(sp['rules'])
    pos={}
    br=''; li=''
    for i,r in enumerate(sp['rules']):
        d=b[r['builder']]; pos[d['id']]=i
        e='%s.Rules[%d]' % (v,i)
        cl='//@   ensures %s: %s.ID == bufcheckserverbuild.%s.ID && %s.Handler == bufcheckserverbuild.%s.Handler && %s.Default == %s && %s\n' % (d['id'], e, r['builder'], e, r['builder'], e, 'true' if r['default'] else 'false', sl(e+'.CategoryIDs', r['cats']))
        if d['type']=='RuleTypeBreaking': br+=cl
        else: li+=cl
    out+='//\n// ---------- %s ----------\n//@ table %s_breaking {C03 C04} of %s\n//@   ensures rule-count: len(%s.Rules) == %d\n' % (v, tn, v, v, N) + br
    out+='//@ table %s_lint {C05 C06} of %s\n//@   ensures rule-count: len(%s.Rules) == %d\n' % (tn, v, v, N) + li
    out+='//@ table %s_order {C04} of %s\n' % (tn, v)
    for lax,strict,label in (('WIRE','WIRE_JSON','wire-within-wirejson'),('WIRE_JSON','PACKAGE','wirejson-within-package'),('PACKAGE','FILE','package-within-file')):
        exc={}; notes=[]
        for rid,(cat,cov,why) in COVER.items():
            if cat!=strict or rid not in pos: continue
            missing=[c for c in cov if c not in pos]
            if missing:
                notes.append('%s: covering rule(s) %s not in this version' % (rid, missing)); continue
            exc[pos[rid]]='(%s)' % ' && '.join('y_has(%s.Rules[%d].CategoryIDs, "%s")' % (v,pos[c],strict) for c in cov)
            notes.append('%s [%d] is covered by %s (%s)' % (rid, pos[rid], ' + '.join('%s [%d]' % (c,pos[c]) for c in cov), why))
        for n in notes: out+='//   %s\n' % n
        conj=[]
        for i in range(N):
            if i in exc: conj.append('(y_within(%s.Rules[%d].CategoryIDs, "%s", "%s") || %s)' % (v,i,lax,strict,exc[i]))
            else: conj.append('y_within(%s.Rules[%d].CategoryIDs, "%s", "%s")' % (v,i,lax,strict))
        out+='//@   ensures %s: %s\n' % (label, ' && '.join(conj))
    out+='//@ table %s_nesting {C06} of %s\n' % (tn, v)
    for a_,c_,label in (('MINIMAL','BASIC','minimal-within-basic'),('BASIC','STANDARD','basic-within-standard'),('DEFAULT','STANDARD','default-within-standard'),('STANDARD','DEFAULT','standard-within-default')):
        out+='//@   ensures %s: %s\n' % (label, ' && '.join('y_within(%s.Rules[%d].CategoryIDs, "%s", "%s")' % (v,i,a_,c_) for i in range(N)))
    out+='//@ table %s_categories {C04 C06} of %s\n' % (tn, v)
    out+='//@   ensures declared: len(%s.Categories) == %d%s\n' % (v, len(sp['cats']), ''.join(' && %s.Categories[%d] == bufcheckserverbuild.%s' % (v,i,c) for i,c in enumerate(sp['cats'])))
open(R+'zz_verif_contracts.go','w').write(out)

# ---------- 3. handle vars (spec file section) ----------
hs=[l.split() for l in open('/tmp/ca/Y/handles.txt')]
sec='''
# ---------- the exported rule handlers of bufcheckserverhandle (GENERATED section) ----------
# `var Handle<Rule> = bufcheckserverutil.New<Kind>RuleHandler(handle<Rule>)`: every exported handler is built by the
# iteration constructor that matches the documented granularity of the rule from the function OF THE SAME NAME (whose
# contract states the rule's condition). The constructors are pure (deterministic in f), so this is an equation.
package github.com/bufbuild/buf/private/bufpkg/bufcheck/bufcheckserver/internal/bufcheckserverhandle
'''
for name,init in hs:
    m=re.match(r'(New\w+)\((\w+)\)$',init); ctor,fn=m.groups()
    assert fn[0]=='h' and fn[1:]==name[1:], (name,fn)
    props='{C03 C04}' if name.startswith('HandleBreaking') else '{C05}'
    # documented granularity where the Go types do not already force the constructor: per-directory vs per-package rules
    if name=='HandleLintDirectorySamePackage': assert ctor=='NewLintDirPathToFilesRuleHandler'
    if name.startswith('HandleLintPackageSame') or name in ('HandleLintPackageDirectoryMatch','HandleLintPackageVersionSuffix'): pass
    if ctor=='NewLintDirPathToFilesRuleHandler': assert name=='HandleLintDirectorySamePackage'
    sec+='table y_h_%s %s of %s\n  ensures built-from-own-function: %s == bufcheckserverutil.%s(%s)\n' % (name[6:], props, name, name, ctor, fn)
p='/verif/specs/C03_wiring.spec'
s=open(p).read()
mark='\n# ---------- the exported rule handlers of bufcheckserverhandle (GENERATED section) ----------'
if mark in s: s=s[:s.index(mark)]
# drop the WIP test table if present
s=re.sub(r'\npackage github.com/bufbuild/buf/private/bufpkg/bufcheck/bufcheckserver/internal/bufcheckserverhandle\ntable y_h_FieldSameType.*?NewBreakingFieldPairRuleHandler\(handleBreakingFieldSameType\)\n','\n',s,flags=re.S)
open(p,'w').write(s.rstrip('\n')+'\n'+sec)
print('ok')
