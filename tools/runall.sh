#!/bin/bash
# runs the quick check of every claimed property; prints one summary line each
cd /verif
for p in $(python3 -c "import json;print(' '.join(c['property_id'] for c in json.load(open('MANIFEST.json'))['checks']))") "$@"; do
  ( out=$(./bin/gocv check --property $p 2>&1); echo "$out" | grep "^VIOLATION\|^KNOWN" | cut -c1-250; echo "$out" | tail -1 ) &
done
wait
