#!/usr/bin/env python3
"""For every property: the functions declared in its anchor files (properties.jsonl) and how many of them are under
a (verified or trusted) contract. Usage: anchor_coverage.py [-v]"""
import json, os, re, sys, glob, subprocess
V = os.path.dirname(os.path.dirname(os.path.abspath(__file__)))
REPO = "/repo"
# all contract keys: (pkgdir-independent) short names "Recv.Name" or "Name" per package dir
contracts = {}
for f in glob.glob(REPO + "/private/**/zz_verif_contracts*.go", recursive=True):
    d = os.path.dirname(f)
    for m in re.finditer(r"^//@\s+(trusted\s+)?(pure\s+)?(inline\s+)?(iterator\s+)?func\s+(\([^)]*\)\s*)?([A-Za-z0-9_.\/]+)", open(f).read(), re.M):
        recv = (m.group(5) or "").strip("() ").split()[-1].lstrip("*") if m.group(5) else ""
        name = m.group(6).split(".")[-1]
        pk = m.group(6).rsplit(".", 1)[0] if "." in m.group(6) else ""
        if "." in recv:
            pk, recv = recv.rsplit(".", 1)
        contracts.setdefault((d if not pk else pk.split("/")[-1]), set()).add((recv, name, bool(m.group(1))))
for f in glob.glob(V + "/specs/**/*.spec", recursive=True):
    pkg = ""
    for line in open(f):
        m = re.match(r"package\s+(\S+)", line)
        if m:
            pkg = m.group(1).split("/")[-1]
        m = re.match(r"\s*(trusted\s+)?(pure\s+)?(iterator\s+)?func\s+(\([^)]*\)\s*)?([A-Za-z0-9_.\/]+)", line)
        if m and pkg:
            recv = (m.group(4) or "").strip("() ").split()[-1].lstrip("*") if m.group(4) else ""
            contracts.setdefault(pkg, set()).add((recv, m.group(5).split(".")[-1], bool(m.group(1))))
def has(dirpath, recv, name):
    for key in (dirpath, os.path.basename(dirpath)):
        for (r, n, t) in contracts.get(key, ()):
            if n == name and (r == recv or r == ""  and recv == ""):
                return "trusted" if t else "verified"
    return None
verbose = "-v" in sys.argv
for l in open(V + "/properties.jsonl"):
    p = json.loads(l)
    files = []
    for a in p["anchors"]["files"]:
        full = os.path.join(REPO, a)
        if os.path.isdir(full):
            files += [x for x in glob.glob(full + "/*.go") if not x.endswith("_test.go") and "zz_verif" not in x and ".gen." not in x]
        elif os.path.exists(full):
            files.append(full)
    tot = ver = tru = 0
    missing = []
    for f in files:
        src = open(f).read()
        for m in re.finditer(r"^func\s+(\(([^)]*)\)\s*)?([A-Za-z0-9_]+)\s*[\[(]", src, re.M):
            recv = ""
            if m.group(2):
                recv = m.group(2).split()[-1].lstrip("*").split("[")[0]
            tot += 1
            h = has(os.path.dirname(f), recv, m.group(3))
            if h == "verified":
                ver += 1
            elif h == "trusted":
                tru += 1
            else:
                missing.append(os.path.relpath(f, REPO) + ":" + (recv + "." if recv else "") + m.group(3))
    print("%s: %d functions in %d anchor files, %d verified, %d trusted, %d without contract" % (p["id"], tot, len(files), ver, tru, tot - ver - tru))
    if verbose:
        for x in missing:
            print("    ", x)
