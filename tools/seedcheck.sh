#!/bin/bash
# usage: tools/seedcheck.sh <seeded-dir-name> [property]   e.g. tools/seedcheck.sh C13-2
# Applies /verif/seeded/<dir>/patch.diff to /repo (which must be clean), runs the property's
# quick check without touching evidence, and reverts /repo straight afterwards.
set -u
d=$1; prop=${2:-${d%%-*}}
if [ -n "$(git -C /repo status --porcelain)" ]; then echo "REFUSING: /repo has uncommitted changes"; exit 3; fi
p=/verif/seeded/$d/patch.diff
[ -f /verif/seeded/$d/patch.ported.diff ] && p=/verif/seeded/$d/patch.ported.diff
if ! git -C /repo apply "$p"; then echo "patch does not apply: $p"; exit 3; fi
cd /verif && ./bin/gocv check --property $prop --no-evidence 2>&1 | grep "^VIOLATION\|obligations discharged\|KNOWN" | cut -c1-400
git -C /repo checkout -- . && git -C /repo status --porcelain
