#!/usr/bin/env python3
"""Harvests the contract authors' mutated source copies (/tmp/ca/*/...go) into selftest/mutants:
a copy whose base name (or name with a mutant suffix stripped) matches exactly one tracked non-test source file of
/repo, that differs from it in 1..40 lines, that still compiles, and that is CAUGHT by the quick check of some
property serving that package, becomes selftest/mutants/<Cxx>__h-<author>-<name>.diff."""
import os, re, subprocess, sys, json, glob, tempfile, shutil, hashlib, difflib
V = os.path.dirname(os.path.dirname(os.path.abspath(__file__)))
REPO = "/repo"
tracked = subprocess.run(["git", "-C", REPO, "ls-files", "*.go"], capture_output=True, text=True).stdout.split()
bybase = {}
for f in tracked:
    if f.endswith("_test.go") or "zz_verif" in f:
        continue
    bybase.setdefault(os.path.basename(f), []).append(f)
# which properties serve which package dir: from the evidence files' function lists is too indirect; try the
# properties whose contract files live in that directory
def props_for(pkgdir):
    out = set()
    for cf in glob.glob(os.path.join(REPO, pkgdir, "zz_verif_contracts*.go")):
        for m in re.finditer(r"//@\s+property\s+([C0-9 ]+)", open(cf).read()):
            out.update(m.group(1).split())
        for m in re.finditer(r"\{(C\d\d(?:[ ,]+C\d\d)*)\}", open(cf).read()):
            out.update(re.split(r"[ ,]+", m.group(1)))
    return sorted(out)
seen = set(hashlib.sha1(open(p, "rb").read().split(b"\n", 2)[-1]).hexdigest() for p in glob.glob(os.path.join(V, "selftest", "mutants", "*.diff")))
kept = 0
cands = sorted(glob.glob("/tmp/ca/*/**/*.go", recursive=True))
for c in cands:
    if c.endswith("_test.go") or "zz_verif" in c:
        continue
    author = c.split("/")[3]
    base = os.path.basename(c)
    names = [base, re.sub(r"(_mut\w*|_m\d+\w*|\.m\d+\w*|_[a-z]\d+[a-z]?)\.go$", ".go", base), re.sub(r"^[a-z]+\d+[a-z]?[_-]", "", base)]
    target = None
    for n in names:
        if n in bybase and len(bybase[n]) == 1:
            target = bybase[n][0]
            break
    if not target:
        continue
    a = open(os.path.join(REPO, target)).read().splitlines(keepends=True)
    b = open(c).read().splitlines(keepends=True)
    diff = list(difflib.unified_diff(a, b, "a/" + target, "b/" + target, n=3))
    changed = sum(1 for l in diff if (l.startswith("+") or l.startswith("-")) and not l.startswith(("+++", "---")))
    if changed == 0 or changed > 40:
        continue
    body = "".join(diff)
    h = hashlib.sha1(body.encode()).hexdigest()
    if h in seen:
        continue
    seen.add(h)
    props = props_for(os.path.dirname(target))
    if not props:
        continue
    tmp = tempfile.mkdtemp(prefix="harvest-")
    try:
        dst = os.path.join(tmp, target)
        os.makedirs(os.path.dirname(dst))
        shutil.copy(c, dst)
        ov = os.path.join(tmp, "ov.json")
        json.dump({"Replace": {os.path.join(REPO, target): dst}}, open(ov, "w"))
        env = dict(os.environ, GOFLAGS="-mod=mod", GOPROXY="off", GOSUMDB="off", GOTOOLCHAIN="local")
        r = subprocess.run(["go", "build", "-overlay", ov, "./" + os.path.dirname(target)], cwd=REPO, env=env, capture_output=True, text=True)
        if r.returncode != 0:
            continue
        caught = None
        for p in props:
            r = subprocess.run([os.path.join(V, "bin", "gocv"), "check", "--property", p, "--no-evidence"], cwd=V, env=dict(os.environ, VERIF_OVERLAY=ov), capture_output=True, text=True)
            viol = re.findall(r"^VIOLATION .*obligation=(\S+)", r.stdout, re.M)
            named = [o for o in viol if not o.endswith("#generator") and o != "build"]
            if r.returncode == 1 and named:
                caught = (p, named[0])
                break
        if not caught:
            print("not caught / generator only:", c)
            continue
        p, obl = caught
        name = "%s__h-%s-%s.diff" % (p, author, re.sub(r"[^A-Za-z0-9]+", "-", os.path.splitext(os.path.relpath(c, "/tmp/ca/" + author))[0]))
        pkgprefix = obl.split(".")[0] + "."
        with open(os.path.join(V, "selftest", "mutants", name), "w") as f:
            f.write("# expect: %s\n# kind: contract author's mutant (harvested from %s), first caught by %s\n%s" % (pkgprefix, c, obl, body))
        kept += 1
        print("kept", name, obl)
    finally:
        shutil.rmtree(tmp, ignore_errors=True)
print("kept", kept)
