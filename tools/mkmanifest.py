#!/usr/bin/env python3
"""Regenerates /verif/MANIFEST.json from tools/props.json (kept valid at all times)."""
import json, os, subprocess
V = os.path.dirname(os.path.dirname(os.path.abspath(__file__)))
props = json.load(open(os.path.join(V, "tools", "props.json")))
ids = [json.loads(l)["id"] for l in open(os.path.join(V, "properties.jsonl"))]
hooks = subprocess.run(["git", "-C", "/repo", "log", "--format=%h %s", "--grep=^verif hook"], capture_output=True, text=True).stdout.strip().splitlines()
base = json.load(open("/root/.vp/BASELINE.json"))
checks, na = [], []
for i in ids:
    p = props.get(i)
    if p and p.get("claimed"):
        checks.append({
            "property_id": i,
            "quick_cmd": "./bin/gocv check --property %s --tier quick" % i,
            "thorough_cmd": "./bin/gocv check --property %s --tier thorough" % i,
            "evidence_file": "/verif/evidence/%s.json" % i,
            "replay_cmd_template": "./bin/gocv replay --file {path}   # prints the replay file (failed obligation, solver output, SMT file, harness log) and re-runs the registered go-test harness for that obligation on /repo (exit 1 if it reproduces a failing input)",
            "engine": "gocv",
            "level_claimed": {"category": "proof", "text": p["text"], "design_ref": p.get("design_ref", "DESIGN.md §3 " + i)},
            "level_note": p["note"],
            "technique": p.get("technique", "contract-based deductive verification (own VC generator over the Go AST, z3/cvc5)"),
        })
    else:
        na.append({"property_id": i, "reason": (p or {}).get("reason", "no contract within reach has been built for this property yet; see DESIGN.md")})
m = {
    "version": 1,
    "setup_cmd": "cd /verif/gocv && GOFLAGS=-mod=vendor GOPROXY=off GOSUMDB=off GOTOOLCHAIN=local go build -o ../bin/gocv ./cmd/gocv && cd /verif/bounded && GOFLAGS=-mod=mod GOPROXY=off GOSUMDB=off GOTOOLCHAIN=local go build -o ../bin/bounded .",
    "hooks": {
        "guard": "verif",
        "enable": "go build -tags verif (the hook files are comment-only zz_verif_contracts.go files; gocv loads packages with -tags=verif)",
        "baseline_off_cmd": base["cmd"],
        "source_commits": [h.split()[0] for h in hooks],
        "add_only": True,
    },
    "engines": [{"name": "gocv", "path": "/verif/gocv", "serves_properties": [c["property_id"] for c in checks],
                 "kind_free_text": "deductive verifier for a Go subset: contracts in //@ comments, weakest-precondition style VC generation over go/ast+go/types, SMT back ends z3 4.8.12 / z3 5.1.0 / cvc5 1.0 raced per obligation, replay of counterexamples with go test -overlay"}],
    "checks": checks,
    "not_applicable": na,
    "notes": "Every check regenerates its verification conditions from /repo's working tree on each run. Known findings: /verif/known_findings.txt. Self-test corpus: /verif/selftest (python3 selftest/run.py). Seeded changes from independent agents: /verif/seeded.",
}
json.dump(m, open(os.path.join(V, "MANIFEST.json"), "w"), indent=1)
# per-property "not covered" clauses for the evidence files (read by gocv at run time)
nc = {}
for i in ids:
    p = props.get(i)
    if p and p.get("claimed"):
        note = p.get("note", "")
        k = note.find("Not covered")
        if k >= 0:
            part = note[k:].split(":", 1)[1] if ":" in note[k:] else note[k:]
            nc[i] = [x.strip().rstrip(".") for x in part.split(",") if x.strip()]
        else:
            nc[i] = []
json.dump(nc, open(os.path.join(V, "specs", "not_covered.json"), "w"), indent=1)
print("claimed:", [c["property_id"] for c in checks])
