#!/usr/bin/env python3
"""Runs the repository test suite (guard off) in REPO (default /repo) and checks that every
test of BASELINE.json's stable_pass set passes. Usage: baseline_check.py [repo_dir]"""
import json, os, subprocess, sys
repo = sys.argv[1] if len(sys.argv) > 1 else "/repo"
base = json.load(open("/root/.vp/BASELINE.json"))
want = set(base["stable_pass"])
env = dict(os.environ, GOFLAGS="-mod=mod", GOPROXY="off", GOSUMDB="off", GOTOOLCHAIN="local")
p = subprocess.Popen(["go", "test", "-json", "-vet=off", "-count=1", "-timeout", "25m", "./..."], cwd=repo, env=env, stdout=subprocess.PIPE, stderr=subprocess.DEVNULL, text=True)
status = {}
for line in p.stdout:
    try:
        ev = json.loads(line)
    except Exception:
        continue
    if ev.get("Test") and ev.get("Action") in ("pass", "fail", "skip"):
        status[ev["Package"] + "::" + ev["Test"]] = ev["Action"]
p.wait()
bad = sorted(t for t in want if status.get(t) != "pass")
print("stable_pass tests: %d, passing now: %d, not passing: %d" % (len(want), len(want) - len(bad), len(bad)))
for t in bad[:50]:
    print("  NOT PASSING:", t, status.get(t))
sys.exit(1 if bad else 0)
