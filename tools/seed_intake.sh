#!/bin/bash
# usage: tools/seed_intake.sh <out-dir> <seeded-id>     e.g. tools/seed_intake.sh /tmp/seed3/C09_out C09-3
# Takes a sub-agent's deliverables (patch.diff, demo_test.go, README.md), stores them as /verif/seeded/<id>/,
# confirms them in a scratch worktree (tools/confirm_seed.py: builds, demo passes without / fails with the patch,
# stable baseline tests of the touched packages unbroken) and runs the property's quick check against the
# patch through an overlay (tools/seedall.py). /repo itself is never touched.
set -u
src=$1; id=$2
d=/verif/seeded/$id
mkdir -p $d
for f in patch.diff demo_test.go README.md; do
  [ -f $src/$f ] || { echo "missing $src/$f"; exit 2; }
  cp $src/$f $d/$f
done
cd /verif
python3 tools/confirm_seed.py $id | tail -3
python3 - "$id" <<'PY'
import json,sys
m=json.load(open("/verif/seeded/%s/meta.json"%sys.argv[1]))
print("confirmed:", m.get("confirmed"), {k:m.get(k) for k in ("demo_without_patch","build_with_patch","demo_with_patch","stable_tests_broken_by_patch","error")})
PY
VERIF_LENIENT=${VERIF_LENIENT:-} python3 tools/seedall.py $id
