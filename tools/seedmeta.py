#!/usr/bin/env python3
"""Copies the catch results of seeded/RESULTS.json (written by tools/seedall.py) into each seeded/<id>/meta.json
(check_result: caught, caught_by, with_replayed_input, how). Usage: seedmeta.py"""
import json, os, re
V = os.path.dirname(os.path.dirname(os.path.abspath(__file__)))
res = json.load(open(os.path.join(V, "seeded", "RESULTS.json")))
for d in sorted(res):
    mf = os.path.join(V, "seeded", d, "meta.json")
    if not os.path.exists(mf):
        continue
    m = json.load(open(mf))
    r = res[d]
    m["check_result"] = {
        "caught": r["caught"],
        "caught_by": r["obligations"][:8],
        "with_replayed_input": r["with_replayed_input"][:8],
        "summary": r.get("summary", ""),
        "how": "tools/seedoverlay.sh %s (quick check of %s against /repo + patch through VERIF_OVERLAY; tools/seedcheck.sh is the apply-in-/repo variant)" % (d, d.split("-")[0]),
    }
    json.dump(m, open(mf, "w"), indent=1)
print("updated", len(res))
