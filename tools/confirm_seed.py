#!/usr/bin/env python3
"""Confirms a seeded change in a scratch worktree of /repo (never in /repo itself):
demo passes without the patch, patch applies and builds, demo fails with the patch, the stable-pass tests of the
touched packages still pass with the patch. Writes seeded/<dir>/meta.json. Usage: confirm_seed.py <dir> [<dir>...]"""
import json, os, re, subprocess, sys, shutil, tempfile
V = "/verif"
ENV = dict(os.environ, GOFLAGS="-mod=mod", GOPROXY="off", GOSUMDB="off", GOTOOLCHAIN="local")
BASE = set(json.load(open("/root/.vp/BASELINE.json"))["stable_pass"])
def run(cmd, cwd, timeout=1500):
    p = subprocess.run(cmd, cwd=cwd, env=ENV, capture_output=True, text=True, timeout=timeout)
    return p.returncode, p.stdout + p.stderr
def confirm(d):
    sd = os.path.join(V, "seeded", d)
    readme = open(os.path.join(sd, "README.md")).read()
    m = [x for x in re.findall(r"private/[A-Za-z0-9_/.-]+_test\.go", readme) if "_out" not in x]
    demo_dst = m[0]
    patch = os.path.join(sd, "patch.ported.diff") if os.path.exists(os.path.join(sd, "patch.ported.diff")) else os.path.join(sd, "patch.diff")
    wt = tempfile.mkdtemp(prefix="confirm-%s-" % d, dir="/tmp")
    os.rmdir(wt)
    meta = {"seeded": d, "property": d.split("-")[0], "patch": os.path.basename(patch), "demo_path": demo_dst}
    try:
        rc, out = run(["git", "-C", "/repo", "worktree", "add", "-q", "--detach", wt, "HEAD"], "/repo")
        if rc: meta["error"] = "worktree: " + out; return meta
        shutil.copy(os.path.join(sd, "demo_test.go"), os.path.join(wt, demo_dst))
        pkg = "./" + os.path.dirname(demo_dst) + "/"
        tests = re.findall(r"^func (Test\w+)\(", open(os.path.join(sd, "demo_test.go")).read(), re.M)
        runre = "^(" + "|".join(tests) + ")$"
        cmd = ["go", "test", "-vet=off", "-count=1", "-timeout", "20m", "-run", runre, pkg]
        rc0, out0 = run(cmd, wt)
        meta["demo_without_patch"] = "pass" if rc0 == 0 else "FAIL"
        rc, out = run(["git", "apply", patch], wt)
        if rc: meta["error"] = "patch does not apply: " + out[:400]; return meta
        rc, out = run(["go", "build", "./..."], wt)
        meta["build_with_patch"] = "ok" if rc == 0 else "BROKEN"
        rc1, out1 = run(cmd, wt)
        meta["demo_with_patch"] = "fail" if rc1 != 0 else "PASSES"
        # existing tests of touched packages (+ the demo's package), compared with the stable baseline
        touched = sorted(set("./" + os.path.dirname(f) + "/..." for f in re.findall(r"^\+\+\+ b/(\S+)", open(patch).read(), re.M)))
        os.remove(os.path.join(wt, demo_dst))
        p = subprocess.run(["go", "test", "-json", "-vet=off", "-count=1", "-timeout", "25m"] + touched, cwd=wt, env=ENV, capture_output=True, text=True, timeout=3000)
        status = {}
        for line in p.stdout.splitlines():
            try: ev = json.loads(line)
            except Exception: continue
            if ev.get("Test") and ev.get("Action") in ("pass", "fail", "skip"):
                status[ev["Package"] + "::" + ev["Test"]] = ev["Action"]
        seen_pk = set(k.split("::")[0] for k in status)
        broken = sorted(t for t in BASE if t.split("::")[0] in seen_pk and status.get(t) != "pass")
        meta["existing_tests_packages"] = touched
        meta["stable_tests_run"] = len([t for t in BASE if t.split("::")[0] in seen_pk])
        meta["stable_tests_broken_by_patch"] = broken[:20]
        meta["confirmed"] = (rc0 == 0 and meta["build_with_patch"] == "ok" and rc1 != 0 and not broken)
        meta["needs_to_manifest"] = re.sub(r"\s+", " ", " ".join(re.findall(r"(?is)(?:needs?(?: it)?(?: to manifest)?|what it needs)[^\n]*\n(?:.*\n){0,6}", readme)[:1]))[:600]
        meta["ran"] = ["go test -run '%s' %s (without patch: %s; with patch: %s)" % (runre, pkg, meta["demo_without_patch"], meta["demo_with_patch"]), "go build ./... (with patch: %s)" % meta["build_with_patch"], "go test %s (stable baseline tests broken by the patch: %d)" % (" ".join(touched), len(broken))]
        return meta
    finally:
        subprocess.run(["git", "-C", "/repo", "worktree", "remove", "--force", wt], capture_output=True)
        shutil.rmtree(wt, ignore_errors=True)
        json.dump(meta, open(os.path.join(sd, "meta.json"), "w"), indent=1)
for d in sys.argv[1:]:
    m = confirm(d)
    print(d, "confirmed" if m.get("confirmed") else "NOT CONFIRMED", {k: m.get(k) for k in ("demo_without_patch", "build_with_patch", "demo_with_patch", "error") if m.get(k)}, "broken:", len(m.get("stable_tests_broken_by_patch", [])))
