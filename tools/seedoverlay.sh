#!/bin/bash
# usage: tools/seedoverlay.sh <seeded-dir-name> [property ...]
# Runs the quick check(s) against /repo + the seeded patch WITHOUT touching /repo: the patched files
# are materialised under /verif/.work/seedov/<dir>/ and handed to gocv through VERIF_OVERLAY
# (same mechanism `go build -overlay` uses). tools/seedcheck.sh is the apply-in-/repo variant.
set -u
d=$1; shift
props=${*:-${d%%-*}}
p=/verif/seeded/$d/patch.diff
[ -f /verif/seeded/$d/patch.ported.diff ] && p=/verif/seeded/$d/patch.ported.diff
w=/verif/.work/seedov/$d; rm -rf $w; mkdir -p $w
files=$(git -C /repo apply --numstat "$p" | awk '{print $3}')
for f in $files; do mkdir -p $w/$(dirname $f); [ -f /repo/$f ] && cp /repo/$f $w/$f; done
if ! patch -s -p1 -d $w < "$p"; then echo "patch does not apply: $p"; exit 3; fi
python3 - "$w" $files > $w/ov.json <<'PY'
import json,sys
w=sys.argv[1]; print(json.dumps({"Replace":{"/repo/"+f: w+"/"+f for f in sys.argv[2:]}}))
PY
cd /verif
for prop in $props; do
  VERIF_OVERLAY=$w/ov.json ./bin/gocv check --property $prop --no-evidence 2>&1 | grep "^VIOLATION\|obligations discharged\|KNOWN\|^error"
done
rm -rf $w
