#!/usr/bin/env python3
"""Runs every seeded change under /verif/seeded through the quick check of its property (overlay, /repo
untouched) and records which obligations catch it in seeded/RESULTS.json. Usage: seedall.py [Cxx-N ...]"""
import json, os, re, subprocess, sys
V = os.path.dirname(os.path.dirname(os.path.abspath(__file__)))
ids = sys.argv[1:] or sorted(d for d in os.listdir(os.path.join(V, "seeded")) if re.match(r"C\d\d-\d+$", d))
resf = os.environ.get("SEED_RESULTS") or os.path.join(V, "seeded", "RESULTS.json")
res = json.load(open(resf)) if os.path.exists(resf) else {}
for d in ids:
    out = subprocess.run([os.path.join(V, "tools", "seedoverlay.sh"), d], capture_output=True, text=True).stdout
    viol = [l for l in out.splitlines() if l.startswith("VIOLATION")]
    obls = re.findall(r"obligation=(\S+)", "\n".join(viol))
    replayed = [o for l, o in zip(viol, obls) if not l.rstrip().endswith("no-failing-input-found")]
    summary = [l for l in out.splitlines() if "obligations discharged" in l]
    res[d] = {"caught": bool(viol), "obligations": obls, "with_replayed_input": replayed, "summary": summary[-1] if summary else out[-300:]}
    print(d, "CAUGHT" if viol else "MISSED", ", ".join(obls)[:200])
    json.dump(res, open(resf, "w"), indent=1, sort_keys=True)
