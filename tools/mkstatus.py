#!/usr/bin/env python3
"""Regenerates the status and catch tables of DESIGN.md §9 (between the markers) from the evidence files,
seeded/RESULTS.json and the self-test corpus."""
import json, os, re, glob
V = os.path.dirname(os.path.dirname(os.path.abspath(__file__)))
props = json.load(open(os.path.join(V, "tools", "props.json")))
ids = [json.loads(l)["id"] for l in open(os.path.join(V, "properties.jsonl"))]
res = {}
rf = os.path.join(V, "seeded", "RESULTS.json")
if os.path.exists(rf):
    res = json.load(open(rf))
replays = []
for f in glob.glob(os.path.join(V, "replay", "replays*.json")):
    replays += json.load(open(f))
rows = ["| property | obligations (discharged/total) | functions under contract | known findings | replay harness for | self-test mutants | seeded changes caught |", "|---|---|---|---|---|---|---|"]
for i in ids:
    p = props.get(i, {})
    if not p.get("claimed"):
        rows.append("| %s | not applicable | | | | | |" % i)
        continue
    ev = {}
    ef = os.path.join(V, "evidence", i + ".json")
    if os.path.exists(ef):
        ev = json.load(open(ef))
    c = ev.get("coverage", {})
    kf = sum(1 for s in c.get("samples", []) if s.get("result") == "known-finding")
    rp = sorted(set(r["prefix"] for r in replays if r["property"] == i))
    nm = len(glob.glob(os.path.join(V, "selftest", "mutants", i + "__*.diff")))
    seeds = []
    for k in sorted(res):
        if k.startswith(i + "-"):
            seeds.append("%s %s" % (k, "caught" + (" (replayed)" if res[k].get("with_replayed_input") else "") if res[k]["caught"] else "MISSED"))
    rows.append("| %s | %s/%s | %d | %d | %s | %d | %s |" % (i, c.get("discharged", "?"), c.get("obligations", "?"), len(c.get("functions_under_contract", [])), kf, ", ".join("`%s`" % x for x in rp) or "—", nm, "; ".join(seeds) or "—"))
table = "\n".join(rows)
catch = ["| seeded change | caught by (first obligations) |", "|---|---|"]
for k in sorted(res):
    catch.append("| %s | %s |" % (k, ", ".join("`%s`" % o for o in res[k]["obligations"][:3]) or "**not caught**"))
block = "<!-- STATUS-BEGIN -->\n" + table + "\n\n" + "\n".join(catch) + "\n<!-- STATUS-END -->"
d = os.path.join(V, "DESIGN.md")
s = open(d).read()
if "<!-- STATUS-BEGIN -->" in s:
    s = re.sub(r"<!-- STATUS-BEGIN -->.*<!-- STATUS-END -->", lambda m: block, s, flags=re.S)
else:
    s = s.replace("(see the generated table at the end of this section)", block)
open(d, "w").write(s)
print(table)
